"""C -> Lean translator for the annealing kernels (DESIGN.md §7, generated-source tie for C17 / C12).

    /venv/bin/python -m harness.translate_c          # regenerate lean/Qv/Gen/{CSource.lean,cmanifest.json}

It reads the CURRENT C sources under $VERIF_REPO (default /repo) through clang's JSON AST
(`clang -Xclang -ast-dump=json -fsyntax-only`; the code is never compiled into the checker or executed) and
renders every function of FILES as Lean definitions in `namespace Qv.GenC` (`lean/Qv/Gen/CSource.lean`, core
Lean only; the meaning of the primitives is `lean/Qv/Gen/CPrelude.lean` and `Qv.Model.KernelMem`).  The
rendering is structural — one rule per C construct, listed below; no rule looks at more than the construct it
translates and the C types clang has put on its parts.  Anything outside the fragment makes the translation of
that function fail with status "untranslatable: <construct> at line N" (the function then has no definition
and its equivalence theorems cannot compile); nothing is guessed.  `Qv/Proofs/GenEqC/*.lean` proves every
generated definition equal to the corresponding piece of the hand-written models (`Qv.Model.KernelMem`,
`Qv.Model.Pcg`), so an edit of an index expression, a loop bound or a constant changes the generated term and
the equality stops compiling.

Every generated function lives in the checked-memory monad `KMem.M = Except MemErr`; "returns `.ok`" means:
no out-of-bounds / uninitialised / freed access, no signed overflow, no out-of-range narrowing, no shift by
the width or more, no remainder by zero, every buffer the function allocated freed at its return.

Fragment (C construct -> Lean)
  types        int, long -> Int (every + - * goes through iadd/isub/imul resp. ladd/lsub/lmul, which fail with
               MemErr.overflow outside the type's range);  uint32_t -> UInt32, uint64_t / unsigned long long ->
               UInt64 (+ - * wrap as in C);  double -> the abstract number type `α` (see "double" below);
               T* used as an array -> KMem.Buf T;  T** -> Buf (Buf T) (a row is stored in its cell: pointer and
               pointee are one object);  pointer to struct (`rng_t *rng`) -> the struct by reference: the
               function takes the value and returns the updated value;  `pcg32_random_t` -> the generated
               structure of its two uint64_t fields (pcg_basic.c, random.c) or the opaque type `ρ` (kernels)
  declarations `T x;` -> x has no value until assigned (reading it is Untranslatable: possibly uninitialised);
               `T x = e;` -> as assignment;  a struct local without initialiser takes its indeterminate content
               from a fresh parameter `<x>_indet` (theorems are then universally quantified over it)
  expressions  integer literal (and `-literal`) -> literal of the C type clang gave it;  `2.`, `-2.`, `4.`,
               `0.` -> `ofInt n`;  other floating literals -> `X.flit "<text>"`;  variable -> its current value
               (a loop counter `i` is a natural number, `(i : Int)` in expressions);  a[e] as rvalue ->
               `a.rd e` (bounds / initialised / live checked, the index is the translated `e`);  a[e1][e2] ->
               two reads;  p->f -> field;  implicit and explicit casts by clang's castKind: int->long value
               preserving; long->int and uint32_t->int `toInt` (checked: the value must fit);  int->uint32_t/
               uint64_t `UInt32.ofInt`/`UInt64.ofInt` (modular, defined in C); uint32_t<->uint64_t
               `toUInt64`/`toUInt32`;  int->double `ofInt`; uint32_t->double `X.dofU32`;
               unsigned `>> <<` by a literal below the width -> `>>> <<<`, by a variable -> `shr32/shl32`
               (checked);  `^ | &` -> `^^^ ||| &&&`;  unsigned `%` -> `umod32` (checked divisor);  unsigned
               unary `-x` -> `0 - x`;  comparisons of integers -> `decide (..)`;  `c ? a : b`, `a || b`,
               `a && b` -> if-then-else with C's short-circuit order (an operand with a side effect is
               evaluated only on its branch);  operands are evaluated left to right
  double       `+ *` -> the `Add`/`Mul` of `α`;  `/`, unary `-`, `<`, `<=`, `>`, `>=`, `exp`, `ldexp`,
               `(double)u32` are NOT interpreted: they become the fields `ddiv dneg dlt dle dexp dldexp dofU32`
               of the parameter `X : DOps α` (`a > b` is `dlt b a`, `a >= b` is `dle b a`) — exactly the
               treatment of the hand-written model, which keeps `double` abstract
  statements   `x = e`; `a[e] = e'` -> `a.wr` (checked);  `a[e1][e2] = e'` -> read row, write, store row;
               `p->f = e`;  compound assignment `op=` -> read, op, write;  `x++`/`++x` as a statement -> `+ 1`
               in the type of x;  the subscripts of the target are evaluated before the right-hand side;
               `if/else` -> an if-expression returning the variables that had a value before and that either
               branch assigns (a variable first assigned inside a branch has no value afterwards); an
               `if` branch at function level that is outside the fragment becomes `outside "<why>"` (an error
               value, recorded in the manifest) so that theorems about the other branch survive — used for the
               clock-seeded branch of rand_seed;
               `for (v = n; v < e; v++)` / `v <= e` (n a non-negative literal, v and e of the same C type, e not
               mentioning anything the body assigns, v not assigned in the body) -> `forFromM body n count`
               where the loop body is a separate generated definition `<f>_loop<k>` from (the variables it
               uses, counter, tuple `acc` of the variables the body assigns that have a value before the loop,
               in declaration order) to the updated tuple; the bound is evaluated once, `count = (e - n).toNat`;
               for `<=` the bound + 1 is formed with overflow check; the counter is a natural number (it cannot
               overflow: it stays below a bound of its own type) and has no value after the loop;
               `for(;;) { ..; if (c) return e; }` as the last statement -> `foreverM fuel body` (the function
               gets a `fuel` parameter and returns `Option`, `none` = fuel exhausted);  `return f(..)` of such a
               function propagates `none`;  `return e;` as the last statement, or early as
               described under "normal forms"
  normal forms (shape-insensitive readings; each is exact, none looks at more than the construct it names)
               * cached locals, only in files registered with `cache_locals` (anneal_quso.c): an `int` / `long` local
                 that is assigned exactly once from a call-free expression `e`, is used only in the statements after
                 that assignment in the same block, and nothing `e` mentions is assigned there (writes through
                 subscripts and by callees count) is read as `e` at each use — `start = index[i]; .. J[start + j]`,
                 `neighbor = neighbors[..]; state[neighbor]` and the text without the local give the same definition;
                 a pointer local `p = a + e` under the same conditions is a row base: `p[j]` is the checked access
                 `a[e + j]` (the sum formed with `ladd`), every other use of `p` is Untranslatable.  The definition
                 itself emits nothing: a cached load is checked where its value is used, not where it is hoisted to
                 (and that `a + e` is inside the array is checked at the accesses only).  A local that fails a
                 condition (a second assignment, a write to something `e` mentions before a use — a load hoisted
                 across a store —, a use outside the region) stays an ordinary local; `double` locals always do
                 (`Fn.find_cached`)
               * `if (c) { ..; return e; }` followed by more statements at function level = `if (c) {..} else {rest}`
                 (`Fn.tail`; not in a function that allocates)
               * `if (c) continue;` directly among the statements of a `for` body = `if (c) {} else {rest of the body}`
               * a comparison / `!` / `&&` / `||` stored in or returned as an `int` = `if b then 1 else 0`; `if (n)` on
                 an int is `n ≠ 0`
               * a `static` function of the file that is not in the registry (no loop, no allocation) is translated on
                 demand and inlined at each call as `(fun params => body) args` (`Fn.helper`)
  memory       `(T*)malloc(n * sizeof(T))`, `(T*)malloc(sizeof(T))` -> `malloc n size` (a local pointer only at
               function level and only while it has no value);  `free(p)`, `free(a[i])` -> `.free`;
               `x = (T*)realloc(x, n * sizeof(T))` -> `x.realloc n size`;  at the function's return
               `noLeak` of every local buffer it allocated (and `rowsLive` for a buffer of rows)
  calls        of functions translated earlier (same namespace), and of the externs of the file's table
               (`rand_int`, `rand_double`, `rand_init` in the kernels: the parameter `R : RandExt ρ α`; `exp`,
               `ldexp`: fields of `X`): a pointer argument must be a variable or `&variable`; the callee
               returns (result, updated pointer arguments it writes); the same variable may not be passed twice
               when written
  not modelled distinct pointer parameters are distinct arrays (no aliasing — the callers pass separately
               allocated buffers), as in the hand-written model; the order of evaluation C leaves unspecified is
               taken left to right (the operands here have no side effects other than a failing read)
  everything else (while, do, switch, break, any other `continue`, goto, `,`, assignment inside an expression, `x++` as a
  value, signed `/ % << >>`, `==` on double, pointer arithmetic other than subscripts, globals, function pointers,
  struct values other than the generator state, ...) -> Untranslatable, listed in the manifest

`sizeof`: LP64 (int 4, long 8, double 8, pointers 8) — the model's `malloc` only uses it for the SIZE_MAX check.
"""
import hashlib, json, os, re, subprocess, sys

ROOT = os.path.dirname(os.path.dirname(os.path.abspath(__file__)))
GEN_DIR = os.path.join(ROOT, "lean", "Qv", "Gen")
CLANG = "/usr/bin/clang"
SRC = "qubovert/sim/src/"


def repo():
    return os.environ.get("VERIF_REPO", "/repo")


class ToolFailure(Exception):
    """clang is missing or cannot parse the file: an infrastructure failure (exit 2), not a violation —
    a source that does not compile is reported as such by the staging step"""


class Untranslatable(Exception):
    def __init__(self, what, node=None, tu=None):
        line = tu.line_of(node) if (tu is not None and node is not None) else None
        Exception.__init__(self, "%s at line %s" % (what, line) if line else what)


# ------------------------------------------------------------------------------------------- registry

KERNEL_CTX = dict(
    binders="{α ρ : Type} [Add α] [Mul α] [OfInt α] (X : DOps α) (R : RandExt ρ α)", args="X R",
    structs={"pcg32_random_t": "ρ"}, gen_structs=[],
    externs={
        "rand_int": dict(lean="R.rand_int", writes=[0], ret="int", monadic=False),
        "rand_double": dict(lean="R.rand_double", writes=[0], ret="double", monadic=False),
        "rand_init": dict(lean="R.rand_init", writes=[], ret=("struct", "pcg32_random_t"), monadic=False),
        "exp": dict(lean="X.dexp", writes=[], ret="double", monadic=False),
    })

FILES = [
    dict(file=SRC + "pcg_basic.c", binders="", args="", structs={"pcg32_random_t": "pcg32_random_t"},
         gen_structs=[("pcg_state_setseq_64", "pcg32_random_t")], externs={},
         functions=["pcg32_random_r", "pcg32_srandom_r", "pcg32_boundedrand_r"]),
    dict(file=SRC + "random.c", binders="{α : Type} (X : DOps α)", args="X",
         structs={"pcg32_random_t": "pcg32_random_t"}, gen_structs=[],
         externs={"ldexp": dict(lean="X.dldexp", writes=[], ret="double", monadic=False)},
         functions=["rand_seed", "rand_init", "rand_double", "rand_int"]),
    dict(file=SRC + "anneal_quso.c", functions=["compute_flip_dE", "recompute_flip_dE", "single_anneal_quso",
                                                "quso_value", "anneal_quso"], cache_locals=True, **KERNEL_CTX),
    dict(file=SRC + "anneal_puso.c", functions=["puso_subgraph_value", "single_anneal_puso", "puso_value",
                                                "anneal_puso"], **KERNEL_CTX),
]

# theorems of lean/Qv/Proofs/GenEqC/<module>.lean that tie each generated function to the hand-written models; every
# name is audited (#print axioms) by harness/gen_tie_c.py for the listed properties.  `modules` are built.
BOTH = ["C12", "C17"]
TIE = {
    "pcg32_random_r": dict(modules=["Pcg"], props=BOTH, theorems=["pcg32_random_r_eq_model"]),
    "pcg32_srandom_r": dict(modules=["Pcg"], props=BOTH, theorems=["pcg32_srandom_r_eq_model"]),
    "pcg32_boundedrand_r": dict(modules=["Pcg"], props=BOTH,
                                theorems=["pcg32_boundedrand_r_loop1_eq_model", "pcg32_boundedrand_r_eq_model"]),
    "rand_seed": dict(modules=["Pcg"], props=BOTH, theorems=["rand_seed_eq_model"]),
    "rand_init": dict(modules=["Pcg", "PcgSrc"], props=BOTH, theorems=["rand_init_eq_model", "rand_init_pcgRand"]),
    "rand_double": dict(modules=["Pcg", "PcgSrc"], props=BOTH,
                        theorems=["rand_double_eq_model", "rand_double_float", "rand_double_pcgRand"]),
    "rand_int": dict(modules=["Pcg", "PcgSrc"], props=BOTH,
                     theorems=["rand_int_eq_model", "rand_int_pcgRand", "pcgRand_range", "srcOf_pcg"]),
    "compute_flip_dE": dict(modules=["Quso"], props=BOTH,
                            theorems=["compute_flip_dE_loop1_loop1_eq_model", "compute_flip_dE_loop1_eq_model",
                                      "compute_flip_dE_eq_model"]),
    "recompute_flip_dE": dict(modules=["Quso"], props=BOTH,
                              theorems=["recompute_flip_dE_loop1_eq_model", "recompute_flip_dE_eq_model"]),
    "single_anneal_quso": dict(modules=["Quso", "Accept"], props=BOTH,
                               theorems=["single_anneal_quso_loop1_loop1_eq_model",
                                         "single_anneal_quso_loop1_eq_model", "single_anneal_quso_eq_model",
                                         "accept_metropolis"]),
    "quso_value": dict(modules=["Quso"], props=BOTH,
                       theorems=["quso_value_loop1_loop1_eq_model", "quso_value_loop1_eq_model",
                                 "quso_value_eq_model"]),
    "anneal_quso": dict(modules=["QusoTop", "QusoSafe"], props=BOTH,
                        theorems=["anneal_quso_loop1_eq_model", "anneal_quso_loop2_loop1_eq_model",
                                  "anneal_quso_loop2_loop2_eq_model", "anneal_quso_loop2_eq_model",
                                  "anneal_quso_eq_model", "anneal_quso_mem_safe"]),
    "puso_subgraph_value": dict(modules=["Puso"], props=BOTH,
                                theorems=["puso_subgraph_value_loop1_loop1_eq_model",
                                          "puso_subgraph_value_loop1_eq_model", "puso_subgraph_value_eq_model"]),
    "single_anneal_puso": dict(modules=["Puso"], props=BOTH,
                               theorems=["single_anneal_puso_loop1_loop1_eq_model",
                                         "single_anneal_puso_loop1_eq_model", "single_anneal_puso_eq_model"]),
    "puso_value": dict(modules=["Puso"], props=BOTH,
                       theorems=["puso_value_loop1_loop1_eq_model", "puso_value_loop1_eq_model",
                                 "puso_value_eq_model"]),
    "anneal_puso": dict(modules=["PusoTop", "PusoSafe"], props=BOTH,
                        theorems=["anneal_puso_loop1_eq_model", "anneal_puso_loop2_loop1_eq_model",
                                  "anneal_puso_loop2_eq_model", "anneal_puso_loop3_loop1_eq_model",
                                  "anneal_puso_loop3_loop2_eq_model", "anneal_puso_loop3_eq_model",
                                  "anneal_puso_loop4_eq_model", "anneal_puso_eq_model", "smallRows_of_SgR",
                                  "anneal_puso_mem_safe"]),
}

KEYWORDS = {"at", "from", "end", "in", "do", "then", "else", "fun", "let", "have", "show", "open", "by", "if",
            "match", "with", "def", "theorem", "where", "export", "import", "local", "macro", "prefix", "infix",
            "instance", "structure", "class", "deriving", "section", "namespace", "variable", "universe", "Type",
            "Prop", "Sort", "mut", "for", "return", "unless", "try", "catch", "finally", "this", "X", "R", "M",
            "fuel", "α", "ρ"}


def mangle(name):
    if name == "_":
        return "u_"
    if name in KEYWORDS or re.fullmatch(r"t\d+", name):
        return name + "_"
    return name


# ------------------------------------------------------------------------------------------- C types

SIZEOF = {"int": 4, "long": 8, "u32": 4, "u64": 8, "double": 8}
INT_KINDS = ("int", "long", "u32", "u64")


def parse_ctype(s, tu=None, node=None):
    s = s.replace("const ", "").strip()
    stars = 0
    while s.endswith("*"):
        s = s[:-1].strip()
        stars += 1
    base = {"int": "int", "long": "long", "unsigned int": "u32", "unsigned long": "u64",
            "unsigned long long": "u64", "double": "double", "void": "void",
            "uint32_t": "u32", "uint64_t": "u64", "rng_t": ("struct", "pcg32_random_t"),
            "struct pcg_state_setseq_64": ("struct", "pcg32_random_t"),
            "pcg32_random_t": ("struct", "pcg32_random_t")}.get(s)
    if base is None:
        raise Untranslatable("C type `%s`" % s, node, tu)
    t = base
    for _ in range(stars):
        t = ("ptr", t)
    return t


def is_ptr(t):
    return isinstance(t, tuple) and t[0] == "ptr"


def is_struct(t):
    return isinstance(t, tuple) and t[0] == "struct"


def show_ct(t):
    if is_ptr(t):
        return show_ct(t[1]) + "*"
    if is_struct(t):
        return t[1]
    return t


class TU:
    """one translation unit: clang's JSON AST of one C file"""

    def __init__(self, path):
        self.path = path
        self.text = open(path, "rb").read()
        if not os.path.exists(CLANG):
            raise ToolFailure("%s is missing" % CLANG)
        r = subprocess.run([CLANG, "-Xclang", "-ast-dump=json", "-fsyntax-only", path], capture_output=True)
        if r.returncode != 0:
            raise ToolFailure("clang does not parse %s: %s" % (os.path.basename(path),
                                                               r.stderr.decode(errors="replace")[-600:]))
        try:
            self.ast = json.loads(r.stdout)
        except ValueError as err:
            raise ToolFailure("clang's JSON AST of %s is unreadable: %s" % (os.path.basename(path), err))
        self.funcs, self.records = {}, {}
        for n in self.ast.get("inner", []):
            if n.get("kind") == "FunctionDecl" and any(c.get("kind") == "CompoundStmt" for c in n.get("inner", [])):
                self.funcs.setdefault(n["name"], []).append(n)
            if n.get("kind") == "RecordDecl" and n.get("completeDefinition"):
                self.records[n.get("name")] = n

    @staticmethod
    def _off(loc):
        if "offset" in loc:
            return loc["offset"]
        for k in ("expansionLoc", "spellingLoc"):
            if k in loc and "offset" in loc[k]:
                return loc[k]["offset"]
        return None

    def span(self, node):
        r = node.get("range", {})
        b, e = self._off(r.get("begin", {})), self._off(r.get("end", {}))
        if b is None or e is None:
            return None
        return b, e + r["end"].get("tokLen", r["end"].get("expansionLoc", {}).get("tokLen", 1))

    def line_of(self, node):
        sp = self.span(node) if node else None
        return None if sp is None else self.text[:sp[0]].count(b"\n") + 1

    def source(self, node):
        sp = self.span(node)
        return self.text[sp[0]:sp[1]].decode(errors="replace") if sp else ""


# ------------------------------------------------------------------------------------------- environment

class Var:
    def __init__(self, name, cty, bound, loopvar=False):
        self.name, self.cty, self.bound, self.loopvar = name, cty, bound, loopvar

    def copy(self):
        return Var(self.name, self.cty, self.bound, self.loopvar)


class Env:
    def __init__(self):
        self.vars = {}          # insertion ordered

    def copy(self):
        e = Env()
        e.vars = {k: v.copy() for k, v in self.vars.items()}
        return e


class Emit:
    def __init__(self):
        self.lines = []
        self.ind = 0

    def add(self, s):
        self.lines.append("  " * self.ind + s)


def tuple_term(xs):
    return "()" if not xs else xs[0] if len(xs) == 1 else "(" + ", ".join(xs) + ")"


def tuple_type(ts):
    return "Unit" if not ts else ts[0] if len(ts) == 1 else " × ".join(ts)


def proj(t, i, n):
    if n == 1:
        return t
    return t + ".2" * i + (".1" if i < n - 1 else "")


def paren_ty(s):
    return "(" + s + ")" if " " in s else s


# ------------------------------------------------------------------------------------------- one function

def strip_parens(n):
    while n.get("kind") == "ParenExpr":
        n = n["inner"][0]
    return n


def kids(n):
    return n.get("inner", [])


class Fn:
    def __init__(self, tu, cfg, node, done):
        self.tu, self.cfg, self.node, self.done = tu, cfg, node, done
        self.name = node["name"]
        self.tmp = 0
        self.loops = []              # generated loop-body definitions (text), in order of completion
        self.loop_names = []
        self.outside = []
        self.owned = []              # local buffers allocated by malloc in this function
        self.extra_params = []       # (name, lean type) for indeterminate struct locals
        self.fuel = False
        self.loop_counter = {}
        self.cached = {}             # single-assignment locals read as their defining expression (find_cached)
        self.early = False           # the function has an early `return`

    # ---- helpers

    def fail(self, what, node=None):
        raise Untranslatable(what, node, self.tu)

    def fresh(self):
        self.tmp += 1
        return "t%d" % self.tmp

    def cty(self, node):
        t = node.get("type", {})
        return parse_ctype(t.get("desugaredQualType", t.get("qualType", "?")), self.tu, node)

    def lean_ty(self, t):
        if t in ("int", "long"):
            return "Int"
        if t == "u32":
            return "UInt32"
        if t == "u64":
            return "UInt64"
        if t == "double":
            return "α"
        if is_struct(t):
            return self.cfg["structs"][t[1]]
        if is_ptr(t):
            if is_struct(t[1]):
                return self.lean_ty(t[1])
            return "Buf " + paren_ty(self.lean_ty(t[1]))
        self.fail("no Lean type for C type %s" % show_ct(t))

    def callee(self, call):
        f = strip_parens(kids(call)[0])
        while f.get("kind") == "ImplicitCastExpr":
            f = strip_parens(kids(f)[0])
        if f.get("kind") != "DeclRefExpr":
            self.fail("call through a function pointer", call)
        return f["referencedDecl"]["name"]

    # ---- syntactic analyses

    def root_var(self, n):
        """the variable an lvalue expression is rooted at"""
        n = strip_parens(n)
        k = n.get("kind")
        if k == "DeclRefExpr":
            return n["referencedDecl"]["name"]
        if k in ("ImplicitCastExpr", "CStyleCastExpr", "ArraySubscriptExpr", "MemberExpr"):
            return self.root_var(kids(n)[0])
        if k == "UnaryOperator" and n["opcode"] in ("&", "*"):
            return self.root_var(kids(n)[0])
        self.fail("lvalue of kind %s" % k, n)

    def callee_writes(self, name, call):
        if self.done.get("static %s::%s" % (self.cfg.get("file"), name)):
            return self.done["static %s::%s" % (self.cfg.get("file"), name)]["writes"]
        if name in ("free", "realloc"):
            return [0]
        if name == "malloc":
            return []
        if name in self.cfg["externs"]:
            return self.cfg["externs"][name]["writes"]
        if name in self.done and self.done[name]["status"] == "translated":
            return self.done[name]["writes"]
        self.fail("call of `%s`, which is neither translated nor in the extern table" % name, call)

    def assigned(self, n, acc=None):
        """names of the variables a statement / expression may assign (directly, through a subscript or
        member, or by passing them to a callee that writes that pointer argument)"""
        acc = set() if acc is None else acc
        if not isinstance(n, dict) or not n:
            return acc
        k = n.get("kind")
        if k in ("BinaryOperator", "CompoundAssignOperator") and (k == "CompoundAssignOperator" or n["opcode"] == "="):
            acc.add(self.root_var(kids(n)[0]))
        elif k == "UnaryOperator" and n["opcode"] in ("++", "--"):
            acc.add(self.root_var(kids(n)[0]))
        elif k == "CallExpr":
            name = self.callee(n)
            args = kids(n)[1:]
            try:
                ws = self.callee_writes(name, n)
            except Untranslatable:          # unknown callee: assume it writes through every pointer argument
                ws = [i for i, a in enumerate(args) if "*" in a.get("type", {}).get("qualType", "")]
            for i in ws:
                if i < len(args):
                    try:
                        acc.add(self.root_var(args[i]))
                    except Untranslatable:
                        pass
        elif k == "VarDecl" and kids(n):
            acc.add(n["name"])
        for c in kids(n):
            self.assigned(c, acc)
        return acc

    def has_call(self, n):
        if not isinstance(n, dict) or not n:
            return False
        return n.get("kind") == "CallExpr" or any(self.has_call(c) for c in kids(n))

    def mentioned(self, n, acc=None):
        acc = set() if acc is None else acc
        if not isinstance(n, dict) or not n:
            return acc
        if n.get("kind") == "DeclRefExpr" and n["referencedDecl"].get("kind") in ("VarDecl", "ParmVarDecl"):
            c = self.cached.get(n["referencedDecl"]["name"])
            if c is not None:          # a use of a cached local is a use of what its defining expression mentions
                if c["kind"] == "row":
                    acc.add(c["base"])
                return self.mentioned(c["rhs"], acc)
            acc.add(n["referencedDecl"]["name"])
        if n.get("kind") == "VarDecl":
            acc.add(n["name"])
        for c in kids(n):
            self.mentioned(c, acc)
        return acc

    # ---- cached locals (loop-invariant loads kept in a local, row base pointers)

    def row_base(self, base):
        """the cached-row record when `base` (the pointer operand of a subscript) is a row-base local"""
        b = strip_parens(base)
        while b.get("kind") == "ImplicitCastExpr" and b["castKind"] in ("NoOp", "BitCast"):
            b = strip_parens(kids(b)[0])
        if b.get("kind") == "ImplicitCastExpr" and b["castKind"] == "LValueToRValue":
            v = strip_parens(kids(b)[0])
            if v.get("kind") == "DeclRefExpr":
                c = self.cached.get(v["referencedDecl"]["name"])
                if c is not None and c["kind"] == "row":
                    return c
        return None

    def ptr_plus(self, rhs):
        """`a + e` with `a` a pointer variable -> (a, e), else None"""
        r = strip_parens(rhs)
        while r.get("kind") == "ImplicitCastExpr" and r["castKind"] in ("NoOp", "BitCast"):
            r = strip_parens(kids(r)[0])
        if r.get("kind") != "BinaryOperator" or r.get("opcode") != "+":
            return None
        a, e = kids(r)
        a = strip_parens(a)
        while a.get("kind") == "ImplicitCastExpr" and a["castKind"] in ("NoOp", "BitCast"):
            a = strip_parens(kids(a)[0])
        if not (a.get("kind") == "ImplicitCastExpr" and a["castKind"] == "LValueToRValue"):
            return None
        v = strip_parens(kids(a)[0])
        if v.get("kind") != "DeclRefExpr" or v["referencedDecl"].get("kind") not in ("VarDecl", "ParmVarDecl"):
            return None
        return v["referencedDecl"]["name"], e

    def count_refs(self, n, name):
        if not isinstance(n, dict) or not n:
            return 0
        c = 1 if (n.get("kind") == "DeclRefExpr" and n["referencedDecl"].get("name") == name) else 0
        return c + sum(self.count_refs(x, name) for x in kids(n))

    def find_cached(self, body, params):
        """Locals that only cache a value: an integer local (`int`, `long`; a `double` local always stays an
        ordinary local — the models name them: `T`, `dE`, `subgraph_energy`) or a pointer local that is
        assigned exactly once in the whole function — by its initialiser or by a plain `x = e;` statement that
        is a direct child of a block — where `e` has no call and no assignment (for a pointer: `e` is `a + e1`
        with `a` a pointer variable), every use of `x` lies in the statements that follow the definition in the
        same block, and none of the variables `e` mentions (arrays included: a write through a subscript or by
        a callee counts) is assigned in those statements.  Then at every use `x` equals `e` evaluated there, and
        the use is translated as `e` (a pointer `x[j]` as the checked access `a[e1 + j]`); the definition itself
        emits nothing (see `def_row`).  Anything else — a second
        assignment, `x++`, `&x`, a use outside the region, an intervening write to something `e` mentions — leaves
        `x` an ordinary local."""
        decls, defs, bad = {}, {}, set()

        def lhs_var(n):
            l = strip_parens(kids(n)[0])
            return l["referencedDecl"]["name"] if l.get("kind") == "DeclRefExpr" else None

        def scan(n):                    # positions that are not direct children of a block
            if not isinstance(n, dict) or not n:
                return
            k = n.get("kind")
            if k == "CompoundStmt":
                return block(n)
            if k == "DeclStmt":
                for d in kids(n):
                    if d.get("kind") == "VarDecl":
                        bad.add(d["name"])
            if k in ("BinaryOperator", "CompoundAssignOperator") and (k == "CompoundAssignOperator" or n.get("opcode") == "="):
                v = lhs_var(n)
                if v:
                    bad.add(v)
            if k == "UnaryOperator" and n.get("opcode") in ("++", "--", "&"):
                try:
                    bad.add(self.root_var(kids(n)[0]))
                except Untranslatable:
                    pass
            for c in kids(n):
                scan(c)

        def block(comp):
            for i, s in enumerate(kids(comp)):
                k = s.get("kind")
                if k == "DeclStmt":
                    for d in kids(s):
                        if d.get("kind") != "VarDecl":
                            continue
                        if d["name"] in decls or d["name"] in params:
                            bad.add(d["name"])
                        decls[d["name"]] = d
                        if kids(d):
                            defs.setdefault(d["name"], []).append((comp, i, kids(d)[-1]))
                            scan(kids(d)[-1])
                elif k == "BinaryOperator" and s.get("opcode") == "=" and lhs_var(s):
                    defs.setdefault(lhs_var(s), []).append((comp, i, kids(s)[1]))
                    scan(kids(s)[1])
                else:
                    scan(s)
        block(body)
        out = {}
        for name, d in decls.items():
            if name in bad or len(defs.get(name, [])) != 1:
                continue
            comp, i, rhs = defs[name][0]
            try:
                t = self.cty(d)
            except Untranslatable:
                continue
            if t in ("int", "long"):
                rec = dict(kind="val", name=name, cty=t, rhs=rhs)
                ment = self.mentioned(rhs)
            elif is_ptr(t) and t[1] in ("int", "long", "double"):
                pp = self.ptr_plus(rhs)
                if pp is None:
                    continue
                rec = dict(kind="row", name=name, cty=t, base=pp[0], rhs=pp[1])
                ment = self.mentioned(pp[1]) | {pp[0]}
            else:
                continue
            if name in ment or self.has_call(rhs) or self.assigned(rhs):
                continue
            region = kids(comp)[i + 1:]
            inside = sum(self.count_refs(s, name) for s in kids(comp)[i:])
            if inside != self.count_refs(body, name):
                continue
            asg = set()
            for s in region:
                asg |= self.assigned(s)
            if ment & asg:
                continue
            out[name] = rec
        return out

    # ---- expressions: return (lean term, C type); side computations are emitted into `em`

    def literal(self, n):
        """integer literal or -literal: python int, else None"""
        n = strip_parens(n)
        if n.get("kind") == "IntegerLiteral":
            return int(n["value"])
        if n.get("kind") == "UnaryOperator" and n["opcode"] == "-" and self.cty(n) in ("int", "long"):
            v = self.literal(kids(n)[0])
            return None if v is None else -v
        return None

    def lit_term(self, v, t, node):
        if t in ("int", "long"):
            return "(%d)" % v if v < 0 else "%d" % v
        if t in ("u32", "u64"):
            bits = 32 if t == "u32" else 64
            return "%d" % (v % (1 << bits))
        if t == "double":
            return "ofInt (%d)" % v if v < 0 else "ofInt %d" % v
        self.fail("literal of type %s" % show_ct(t), node)

    def bind(self, em, ty, rhs, monadic=True):
        t = self.fresh()
        em.add("let %s : %s %s %s" % (t, ty, "←" if monadic else ":=", rhs))
        return t

    def var_term(self, env, name, node):
        v = env.vars.get(name)
        if v is None:
            self.fail("variable `%s` is not a parameter or local of the function (global?)" % name, node)
        if not v.bound:
            self.fail("read of `%s`, which may be uninitialised here" % name, node)
        if self.cached.get(name, {}).get("kind") == "row":
            self.fail("use of the row base `%s` other than a subscript read `%s[e]`" % (name, name), node)
        if v.loopvar:
            return "(%s : Int)" % mangle(name), v.cty
        return mangle(name), v.cty

    def buf_of(self, n, env, em):
        """the Buf a pointer-valued expression denotes: a pointer variable, or a row `a[i]`"""
        n = strip_parens(n)
        if n.get("kind") == "ImplicitCastExpr" and n["castKind"] in ("LValueToRValue", "BitCast", "NoOp"):
            inner = strip_parens(kids(n)[0])
            if n["castKind"] != "LValueToRValue":
                return self.buf_of(inner, env, em)
            if inner.get("kind") == "DeclRefExpr":
                term, t = self.var_term(env, inner["referencedDecl"]["name"], inner)
                if not is_ptr(t):
                    self.fail("subscript of a non-pointer", n)
                return term, t
            if inner.get("kind") == "ArraySubscriptExpr":
                return self.rvalue(inner, env, em)
        self.fail("pointer expression of kind %s (only pointer variables and rows a[i] are arrays)" % n.get("kind"), n)

    def index_term(self, n, env, em):
        term, t = self.ex(n, env, em)
        if t not in ("int", "long"):
            self.fail("array index of type %s" % show_ct(t), n)
        return term

    def rvalue(self, n, env, em):
        """value of an lvalue expression"""
        n = strip_parens(n)
        k = n.get("kind")
        if k == "DeclRefExpr":
            if n["referencedDecl"].get("kind") not in ("VarDecl", "ParmVarDecl"):
                self.fail("reference to %s" % n["referencedDecl"].get("kind"), n)
            c = self.cached.get(n["referencedDecl"]["name"])
            if c is not None and c["kind"] == "val":
                # cached local: its defining expression, evaluated here (find_cached: nothing it mentions
                # is assigned between the definition and this use)
                self.var_term(env, n["referencedDecl"]["name"], n)        # must have been defined on this path
                term, t = self.ex(c["rhs"], env, em)
                if t != c["cty"]:
                    self.fail("cached local `%s` of type %s defined by an expression of type %s" % (
                        n["referencedDecl"]["name"], show_ct(c["cty"]), show_ct(t)), n)
                return term, t
            return self.var_term(env, n["referencedDecl"]["name"], n)
        if k == "ArraySubscriptExpr":
            base, idx = kids(n)
            row = self.row_base(base)
            if row is not None:
                # p[e2] where `p = a + e1` is a row base: the checked access a[e1 + e2] (sum formed in long)
                if not env.vars[row["name"]].bound:
                    self.fail("read through `%s`, which may be uninitialised here" % row["name"], n)
                aterm, at = self.var_term(env, row["base"], n)
                o, ot = self.ex(row["rhs"], env, em)
                i, it = self.ex(idx, env, em)
                if ot not in ("int", "long") or it not in ("int", "long") or at != row["cty"]:
                    self.fail("row base `%s`: offset / index / element types" % row["name"], n)
                ix = self.bind(em, "Int", "ladd %s %s" % (atom(o), atom(i)))
                return self.bind(em, self.lean_ty(at[1]), "%s.rd %s" % (aterm, ix)), at[1]
            b, bt = self.buf_of(base, env, em)
            i = self.index_term(idx, env, em)
            et = bt[1]
            return self.bind(em, self.lean_ty(et), "%s.rd %s" % (b, i)), et
        if k == "MemberExpr":
            base = strip_parens(kids(n)[0])
            if n.get("isArrow") and base.get("kind") == "ImplicitCastExpr" and base["castKind"] == "LValueToRValue":
                base = strip_parens(kids(base)[0])
            if base.get("kind") != "DeclRefExpr":
                self.fail("member access on a non-variable", n)
            term, t = self.var_term(env, base["referencedDecl"]["name"], base)
            return "%s.%s" % (term, n["name"]), self.cty(n)
        self.fail("rvalue of kind %s" % k, n)

    def cast(self, term, frm, to, node, em):
        if frm == to:
            return term
        if frm == "int" and to == "long":
            return term
        if (frm == "long" and to == "int"):
            return self.bind(em, "Int", "toInt %s" % term)
        if frm == "u32" and to in ("int", "long"):
            return self.bind(em, "Int", "u32ToInt %s" % term) if to == "int" else "(%s.toNat : Int)" % term
        if frm in ("int", "long") and to == "u32":
            return "(UInt32.ofInt %s)" % term
        if frm in ("int", "long") and to == "u64":
            return "(UInt64.ofInt %s)" % term
        if frm == "u32" and to == "u64":
            return "%s.toUInt64" % atom(term)
        if frm == "u64" and to == "u32":
            return "%s.toUInt32" % atom(term)
        if frm in ("int", "long") and to == "double":
            return "ofInt %s" % atom(term)
        if frm == "u32" and to == "double":
            return "(X.dofU32 %s)" % atom(term)
        self.fail("conversion %s -> %s" % (show_ct(frm), show_ct(to)), node)

    def ex(self, n, env, em):
        n = strip_parens(n)
        k = n.get("kind")
        if k in ("ImplicitCastExpr", "CStyleCastExpr"):
            ck, inner = n["castKind"], kids(n)[-1]
            if ck == "LValueToRValue":
                return self.rvalue(inner, env, em)
            if ck == "NoOp":
                return self.ex(inner, env, em)
            if ck in ("IntegralCast", "IntegralToFloating"):
                to = self.cty(n)
                v = self.literal(inner)
                if v is not None and not (to in ("u32", "u64") and v < 0):
                    return self.lit_term(v, to, n), to
                term, frm = self.ex(inner, env, em)
                return self.cast(term, frm, to, n, em), to
            self.fail("cast of kind %s" % ck, n)
        if k == "IntegerLiteral":
            t = self.cty(n)
            return self.lit_term(int(n["value"]), t, n), t
        if k == "FloatingLiteral":
            v = n["value"]
            if re.fullmatch(r"-?\d+", v):
                return self.lit_term(int(v), "double", n), "double"
            return '(X.flit "%s")' % v, "double"
        if k == "DeclRefExpr":
            self.fail("use of `%s` as a value without lvalue conversion" % n["referencedDecl"].get("name"), n)
        if k == "UnaryOperator":
            return self.unary(n, env, em)
        if k == "BinaryOperator":
            return self.binary(n, env, em)
        if k == "ConditionalOperator":
            return self.conditional(n, env, em)
        if k == "CallExpr":
            return self.call(n, env, em, want_value=True)
        self.fail("expression of kind %s" % k, n)

    def unary(self, n, env, em):
        op, t = n["opcode"], self.cty(n)
        a = kids(n)[0]
        if op == "-":
            v = self.literal(n)
            if v is not None:
                return self.lit_term(v, t, n), t
            fa = strip_parens(a)
            if t == "double" and fa.get("kind") == "FloatingLiteral" and re.fullmatch(r"\d+", fa["value"]):
                return self.lit_term(-int(fa["value"]), "double", n), "double"
            term, ta = self.ex(a, env, em)
            if t in ("u32", "u64"):
                return "(0 - %s)" % term, t
            if t == "double":
                return "(X.dneg %s)" % atom(term), t
            if t in ("int", "long"):
                return self.bind(em, "Int", "%s 0 %s" % ("isub" if t == "int" else "lsub", atom(term))), t
        if op == "!":
            c = self.cond(a, env, em)
            return "(!%s)" % c, "bool"
        self.fail("unary operator `%s` on %s in an expression" % (op, show_ct(t)), n)

    def binary(self, n, env, em):
        op, t = n["opcode"], self.cty(n)
        a, b = kids(n)
        if op in ("&&", "||"):
            return self.shortcircuit(n, env, em)
        if op in ("<", "<=", ">", ">=", "==", "!="):
            ta_, tb_ = None, None
            x, ta_ = self.ex(a, env, em)
            y, tb_ = self.ex(b, env, em)
            if ta_ != tb_:
                self.fail("comparison of %s with %s" % (show_ct(ta_), show_ct(tb_)), n)
            if ta_ == "double":
                if op in ("==", "!="):
                    self.fail("equality test on double", n)
                f, (p, q) = {"<": ("dlt", (x, y)), "<=": ("dle", (x, y)), ">": ("dlt", (y, x)), ">=": ("dle", (y, x))}[op]
                return "(X.%s %s %s)" % (f, atom(p), atom(q)), "bool"
            if ta_ in INT_KINDS:
                lop = {"<": "<", "<=": "≤", ">": ">", ">=": "≥", "==": "=", "!=": "≠"}[op]
                return "(decide (%s %s %s))" % (x, lop, y), "bool"
            self.fail("comparison on %s" % show_ct(ta_), n)
        if op in ("=", ","):
            self.fail("operator `%s` inside an expression" % op, n)
        if t in ("int", "long"):
            f = {"+": "add", "-": "sub", "*": "mul"}.get(op)
            if f is None:
                self.fail("operator `%s` on %s" % (op, t), n)
            x, ta_ = self.ex(a, env, em)
            y, tb_ = self.ex(b, env, em)
            if ta_ != t or tb_ != t:
                self.fail("operand types %s, %s of `%s` on %s" % (show_ct(ta_), show_ct(tb_), op, t), n)
            return self.bind(em, "Int", "%s%s %s %s" % ("i" if t == "int" else "l", f, atom(x), atom(y))), t
        if t in ("u32", "u64"):
            if op in (">>", "<<"):
                x, ta_ = self.ex(a, env, em)
                if ta_ != t:
                    self.fail("shift operand type", n)
                bits = 32 if t == "u32" else 64
                v = self.literal(b)
                if v is not None:
                    if not 0 <= v < bits:
                        self.fail("shift by %d on a %d-bit value (undefined in C)" % (v, bits), n)
                    return "(%s %s %d)" % (x, ">>>" if op == ">>" else "<<<", v), t
                y, tb_ = self.ex(b, env, em)
                if tb_ != t:
                    self.fail("shift amount of type %s on %s" % (show_ct(tb_), show_ct(t)), n)
                return self.bind(em, self.lean_ty(t), "%s%d %s %s" % ("shr" if op == ">>" else "shl", bits, atom(x), atom(y))), t
            x, ta_ = self.ex(a, env, em)
            y, tb_ = self.ex(b, env, em)
            if ta_ != t or tb_ != t:
                self.fail("operand types %s, %s of `%s` on %s" % (show_ct(ta_), show_ct(tb_), op, show_ct(t)), n)
            if op == "%":
                return self.bind(em, self.lean_ty(t), "umod%d %s %s" % (32 if t == "u32" else 64, atom(x), atom(y))), t
            lop = {"+": "+", "-": "-", "*": "*", "^": "^^^", "|": "|||", "&": "&&&"}.get(op)
            if lop is None:
                self.fail("operator `%s` on %s" % (op, show_ct(t)), n)
            return "(%s %s %s)" % (x, lop, y), t
        if t == "double":
            x, ta_ = self.ex(a, env, em)
            y, tb_ = self.ex(b, env, em)
            if ta_ != "double" or tb_ != "double":
                self.fail("operand types of `%s` on double" % op, n)
            if op in ("+", "*"):
                return "(%s %s %s)" % (x, op, y), t
            if op == "/":
                return "(X.ddiv %s %s)" % (atom(x), atom(y)), t
            self.fail("operator `%s` on double" % op, n)
        self.fail("binary operator `%s` on %s" % (op, show_ct(t)), n)

    def cond(self, n, env, em):
        """a C condition as a Lean Bool"""
        term, t = self.ex(n, env, em)
        if t == "bool":
            return term
        if t in ("int", "long"):
            return "(decide (%s ≠ 0))" % term
        self.fail("condition of type %s" % show_ct(t), n)

    def branchy(self, n, env, em, c, left, right, ty):
        """`if c then left else right` where the arms are callbacks (env, em) -> term; variables an arm
        rebinds are returned with the value"""
        ea, eb, ema, emb = env.copy(), env.copy(), Emit(), Emit()
        ta = left(ea, ema)
        tb = right(eb, emb)
        if not ema.lines and not emb.lines:
            return "(if %s then %s else %s)" % (c, ta, tb)
        changed = [v for v in env.vars if env.vars[v].bound and
                   (mangle(v) in self.touched(ema) or mangle(v) in self.touched(emb))]
        tys = [ty] + [self.lean_ty(env.vars[v].cty) for v in changed]
        r = self.fresh()
        em.add("let %s : %s ← (if %s then do" % (r, tuple_type([paren_ty(x) if len(tys) > 1 else x for x in tys]), c))
        for l in ema.lines:
            em.add("    " + l)
        em.add("    pure %s" % tuple_term([ta] + [mangle(v) for v in changed]))
        em.add("  else do")
        for l in emb.lines:
            em.add("    " + l)
        em.add("    pure %s)" % tuple_term([tb] + [mangle(v) for v in changed]))
        for i, v in enumerate(changed):
            em.add("let %s : %s := %s" % (mangle(v), self.lean_ty(env.vars[v].cty), proj(r, i + 1, len(tys))))
        return proj(r, 0, len(tys))

    @staticmethod
    def touched(em):
        out = set()
        for l in em.lines:
            m = re.match(r"\s*let (\S+) :", l)
            if m:
                out.add(m.group(1))
        return out

    def shortcircuit(self, n, env, em):
        a, b = kids(n)
        c = self.cond(a, env, em)
        if n["opcode"] == "||":
            return self.branchy(n, env, em, c, lambda e, m: "true", lambda e, m: self.cond(b, e, m), "Bool"), "bool"
        return self.branchy(n, env, em, c, lambda e, m: self.cond(b, e, m), lambda e, m: "false", "Bool"), "bool"

    def conditional(self, n, env, em):
        c0, a, b = kids(n)
        t = self.cty(n)
        c = self.cond(c0, env, em)

        def arm(x):
            def go(e, m):
                term, tx = self.ex(x, e, m)
                if tx != t:
                    self.fail("arms of ?: have different types", n)
                return term
            return go
        return self.branchy(n, env, em, c, arm(a), arm(b), self.lean_ty(t)), t

    # ---- calls

    def ptr_arg(self, a, env):
        a = strip_parens(a)
        if a.get("kind") == "UnaryOperator" and a["opcode"] == "&":
            a = strip_parens(kids(a)[0])
            if a.get("kind") == "DeclRefExpr":
                return a["referencedDecl"]["name"]
        if a.get("kind") == "ImplicitCastExpr" and a["castKind"] in ("LValueToRValue", "BitCast", "NoOp"):
            return self.ptr_arg(kids(a)[0], env)
        if a.get("kind") == "DeclRefExpr":
            return a["referencedDecl"]["name"]
        self.fail("pointer argument that is neither a variable nor &variable", a)

    def size_arg(self, n, env, em):
        """`count * sizeof(T)` or `sizeof(T)` -> (count term, element size)"""
        n = strip_parens(n)

        def sizeof(x):
            x = strip_parens(x)
            if x.get("kind") == "UnaryExprOrTypeTraitExpr" and x.get("name") == "sizeof" and "argType" in x:
                t = parse_ctype(x["argType"].get("desugaredQualType", x["argType"]["qualType"]), self.tu, x)
                return 8 if is_ptr(t) else SIZEOF.get(t)
            return None
        s = sizeof(n)
        if s:
            return "1", s
        if n.get("kind") == "BinaryOperator" and n["opcode"] == "*":
            a, b = kids(n)
            s = sizeof(b)
            a = strip_parens(a)
            if s and a.get("kind") == "ImplicitCastExpr" and a["castKind"] == "IntegralCast":
                term, t = self.ex(kids(a)[0], env, em)
                if t in ("int", "long"):
                    return term, s
        self.fail("allocation size that is not `count * sizeof(T)` with a signed count", n)

    def alloc_rhs(self, n, env, em):
        """rhs `(T*)malloc(..)` -> lean action, else None"""
        n = strip_parens(n)
        if n.get("kind") == "CStyleCastExpr" and n["castKind"] == "BitCast":
            c = strip_parens(kids(n)[-1])
            if c.get("kind") == "CallExpr" and self.callee(c) == "malloc":
                cnt, sz = self.size_arg(kids(c)[1], env, em)
                t = self.cty(n)
                if not is_ptr(t) or (SIZEOF.get(t[1]) if not is_ptr(t[1]) else 8) != sz:
                    self.fail("malloc of %d-byte elements cast to %s" % (sz, show_ct(t)), n)
                return "malloc %s %d" % (atom(cnt), sz)
        return None

    def realloc_rhs(self, n):
        n = strip_parens(n)
        if n.get("kind") == "CStyleCastExpr" and n["castKind"] == "BitCast":
            c = strip_parens(kids(n)[-1])
            if c.get("kind") == "CallExpr" and self.callee(c) == "realloc":
                return c
        return None

    def call(self, n, env, em, want_value):
        name = self.callee(n)
        args = kids(n)[1:]
        if name in ("malloc", "realloc"):
            self.fail("`%s` outside the forms `x = (T*)%s(..)`" % (name, name), n)
        if name == "free":
            self.free(args[0], env, em)
            return None, "void"
        if name in self.cfg["externs"]:
            spec = self.cfg["externs"][name]
            fn, writes, ret, monadic, fuel, ctx = spec["lean"], spec["writes"], spec["ret"], spec["monadic"], False, ""
            ptys = None
        elif name in self.done and self.done[name]["status"] == "translated":
            d = self.done[name]
            fn, writes, ret, monadic, fuel, ctx = name, d["writes"], d["ret"], True, d["fuel"], d["ctx_args"]
            ptys = d["param_ctys"]
            if d["extra"]:
                self.fail("call of `%s`, which has indeterminate-local parameters" % name, n)
        elif self.helper(name) is not None:
            d = self.helper(name)
            terms, written = self.call_args(n, name, args, d["writes"], d["param_ctys"], env, em)
            comps = ([] if d["ret"] == "void" else [self.lean_ty(d["ret"])]) + [self.lean_ty(env.vars[v].cty) for v in written]
            r = self.fresh()
            em.add("let %s : %s ← (fun %s => show %s from do" % (
                r, tuple_type([paren_ty(c) if len(comps) > 1 else c for c in comps]), d["binders"], d["rty"]))
            for l in d["lines"]:
                em.add("    " + l)
            em.lines[-1] += ") " + " ".join(terms)
            k = 0 if d["ret"] == "void" else 1
            for i, v in enumerate(written):
                em.add("let %s : %s := %s" % (mangle(v), self.lean_ty(env.vars[v].cty), proj(r, k + i, len(comps))))
            return (proj(r, 0, len(comps)) if d["ret"] != "void" else None), d["ret"]
        else:
            self.fail("call of `%s`, which is neither translated nor in the extern table" % name, n)
        if fuel:
            self.fail("call of the unbounded-loop function `%s` outside `return %s(..)`" % (name, name), n)
        terms, written = self.call_args(n, name, args, writes, ptys, env, em)
        return self.finish_call(n, fn, ctx, terms, written, ret, monadic, env, em)

    def helper(self, name):
        """a `static` function of this file that is not in the registry: translated on demand and inlined at its
        call sites as a Lean function applied to the arguments (no loop, no allocation, no unbounded loop; it may
        return early).  Cached in `done` under a key that cannot clash with a registered function."""
        key = "static %s::%s" % (self.cfg.get("file"), name)
        if key not in self.done:
            nodes = self.tu.funcs.get(name, [])
            if len(nodes) != 1 or nodes[0].get("storageClass") != "static":
                self.done[key] = None
            else:
                h = type(self)(self.tu, self.cfg, nodes[0], self.done)
                loops, binders, rty, lines, ptys = h.translate()
                if loops or h.fuel or h.owned or h.extra_params or h.outside:
                    self.fail("static helper `%s` with a loop / allocation / branch outside the fragment" % name, nodes[0])
                pb = binders[len(self.cfg["binders"]):].strip() if self.cfg["binders"] else binders
                self.done[key] = dict(writes=h.writes, ret=h.ret, param_ctys=ptys, binders=pb, rty=rty, lines=lines)
        return self.done[key]

    def call_args(self, n, name, args, writes, ptys, env, em):
        terms, written, seen_ptr = [], [], []
        for i, a in enumerate(args):
            at = self.cty(a)
            if is_ptr(at):
                v = self.ptr_arg(a, env)
                term, vt = self.var_term(env, v, a)
                seen_ptr.append(v)
                if i in writes:
                    written.append(v)
                terms.append(term)
            else:
                term, t = self.ex(a, env, em)
                if ptys is not None and i < len(ptys) and ptys[i] != t:
                    self.fail("argument %d of `%s` has type %s, parameter %s" % (i, name, show_ct(t), show_ct(ptys[i])), a)
                terms.append(atom(term))
        for v in written:
            if seen_ptr.count(v) > 1:
                self.fail("`%s` passed twice to `%s`, which writes it (aliasing)" % (v, name), n)
        return terms, written

    def finish_call(self, n, fn, ctx, terms, written, ret, monadic, env, em):
        comps = ([] if ret == "void" else [self.lean_ty(ret)]) + [self.lean_ty(env.vars[v].cty) for v in written]
        r = self.bind(em, tuple_type([paren_ty(c) if len(comps) > 1 else c for c in comps]),
                      " ".join([fn] + ([ctx] if ctx else []) + terms), monadic)
        k = 0 if ret == "void" else 1
        for i, v in enumerate(written):
            em.add("let %s : %s := %s" % (mangle(v), self.lean_ty(env.vars[v].cty), proj(r, k + i, len(comps))))
        return (proj(r, 0, len(comps)) if ret != "void" else None), ret

    def free(self, a, env, em):
        a = strip_parens(a)
        while a.get("kind") == "ImplicitCastExpr" and a["castKind"] in ("BitCast", "NoOp"):
            a = strip_parens(kids(a)[0])
        if a.get("kind") != "ImplicitCastExpr" or a["castKind"] != "LValueToRValue":
            self.fail("argument of free", a)
        lv = strip_parens(kids(a)[0])
        self.update_lvalue(lv, env, em, lambda cur, t: ("%s.free" % cur(), True))

    # ---- assignment to an lvalue

    def update_lvalue(self, lv, env, em, f, node=None):
        """lv := f(read, type) where `read()` yields (and emits) the current value; f returns (rhs, monadic)"""
        lv = strip_parens(lv)
        k = lv.get("kind")
        t = self.cty(lv)
        if k == "DeclRefExpr":
            name = lv["referencedDecl"]["name"]
            v = env.vars.get(name)
            if v is None:
                self.fail("assignment to `%s`, which is not a parameter or local" % name, lv)
            if v.loopvar:
                self.fail("assignment to the loop counter `%s`" % name, lv)
            rhs, monadic = f(lambda: self.var_term(env, name, lv)[0], t)
            em.add("let %s : %s %s %s" % (mangle(name), self.lean_ty(t), "←" if monadic else ":=", rhs))
            v.bound = True
            return
        if k == "ArraySubscriptExpr":
            base, idx = kids(lv)
            b = strip_parens(base)
            if not (b.get("kind") == "ImplicitCastExpr" and b["castKind"] == "LValueToRValue"):
                self.fail("subscripted pointer expression", lv)
            inner = strip_parens(kids(b)[0])
            if inner.get("kind") == "DeclRefExpr":
                name = inner["referencedDecl"]["name"]
                bterm, bt = self.var_term(env, name, inner)
                i = self.index_term(idx, env, em)
                rhs, monadic = f(lambda: self.bind(em, self.lean_ty(t), "%s.rd %s" % (bterm, i)), t)
                val = rhs if not monadic else self.bind(em, self.lean_ty(t), rhs)
                em.add("let %s : %s ← %s.wr %s %s" % (mangle(name), self.lean_ty(bt), bterm, i, atom(val)))
                return
            if inner.get("kind") == "ArraySubscriptExpr":
                obase, oidx = kids(inner)
                ob = strip_parens(obase)
                if not (ob.get("kind") == "ImplicitCastExpr" and ob["castKind"] == "LValueToRValue"
                        and strip_parens(kids(ob)[0]).get("kind") == "DeclRefExpr"):
                    self.fail("more than two subscripts", lv)
                name = strip_parens(kids(ob)[0])["referencedDecl"]["name"]
                oterm, ot = self.var_term(env, name, ob)
                oi = self.index_term(oidx, env, em)
                rowty = self.lean_ty(ot[1])
                row = self.bind(em, rowty, "%s.rd %s" % (oterm, oi))
                i = self.index_term(idx, env, em)
                rhs, monadic = f(lambda: self.bind(em, self.lean_ty(t), "%s.rd %s" % (row, i)), t)
                val = rhs if not monadic else self.bind(em, self.lean_ty(t), rhs)
                row2 = self.bind(em, rowty, "%s.wr %s %s" % (row, i, atom(val)))
                em.add("let %s : %s ← %s.wr %s %s" % (mangle(name), self.lean_ty(ot), oterm, oi, row2))
                return
            self.fail("subscripted pointer expression", lv)
        if k == "MemberExpr":
            base = strip_parens(kids(lv)[0])
            if lv.get("isArrow") and base.get("kind") == "ImplicitCastExpr" and base["castKind"] == "LValueToRValue":
                base = strip_parens(kids(base)[0])
            if base.get("kind") != "DeclRefExpr":
                self.fail("member assignment on a non-variable", lv)
            name = base["referencedDecl"]["name"]
            sterm, st = self.var_term(env, name, base)
            rhs, monadic = f(lambda: "%s.%s" % (sterm, lv["name"]), t)
            val = rhs if not monadic else self.bind(em, self.lean_ty(t), rhs)
            sty = self.lean_ty(st)
            em.add("let %s : %s := { %s with %s := %s }" % (mangle(name), sty, sterm, lv["name"], val))
            return
        self.fail("assignment to an lvalue of kind %s" % k, lv)

    def arith(self, op, t, x, y, node, em):
        """x op y in C type t -> (rhs, monadic)"""
        if t in ("int", "long"):
            f = {"+": "add", "-": "sub", "*": "mul"}.get(op)
            if f:
                return "%s%s %s %s" % ("i" if t == "int" else "l", f, atom(x), atom(y)), True
        if t in ("u32", "u64"):
            lop = {"+": "+", "-": "-", "*": "*", "^": "^^^", "|": "|||", "&": "&&&"}.get(op)
            if lop:
                return "%s %s %s" % (x, lop, y), False
        if t == "double" and op in ("+", "*"):
            return "%s %s %s" % (x, op, y), False
        self.fail("compound operator `%s=` on %s" % (op, show_ct(t)), node)

    def assign(self, n, env, em):
        lv, rhs = kids(n)
        lvs = strip_parens(lv)
        t = self.cty(lvs)
        if n["kind"] == "CompoundAssignOperator":
            op = n["opcode"][:-1]
            ct = parse_ctype(n["computeResultType"].get("desugaredQualType", n["computeResultType"]["qualType"]), self.tu, n)
            if ct != t:
                self.fail("compound assignment computed in %s on an lvalue of type %s" % (show_ct(ct), show_ct(t)), n)
            # C: the lvalue is read, then combined with the rhs
            def f(read, _t):
                cur = read()
                y, ty = self.ex(rhs, env, em)
                if ty != t:
                    self.fail("operand type of `%s`" % n["opcode"], n)
                return self.arith(op, t, cur, y, n, em)
            self.update_lvalue(lvs, env, em, f)
            return
        if n["kind"] == "BinaryOperator" and lvs.get("kind") == "DeclRefExpr" and lvs["referencedDecl"]["name"] in self.cached:
            return self.def_row(lvs["referencedDecl"]["name"], env, em)
        if is_ptr(t):
            a = self.alloc_rhs(rhs, env, em)
            if a is not None:
                if lvs.get("kind") == "DeclRefExpr":
                    name = lvs["referencedDecl"]["name"]
                    if em is not self.top_em or name not in env.vars:
                        self.fail("malloc into a local pointer inside a branch or loop", n)
                    if env.vars[name].bound:
                        self.fail("malloc stored over the pointer `%s`, which already has a value (leak, or a "
                                  "parameter re-pointed)" % name, n)
                    if name not in self.owned:
                        self.owned.append(name)
                self.update_lvalue(lvs, env, em, lambda read, _t: (a, True))
                return
            c = self.realloc_rhs(rhs)
            if c is not None:
                old = strip_parens(kids(c)[1])
                while old.get("kind") == "ImplicitCastExpr":
                    old = strip_parens(kids(old)[0])
                if self.tu.source(old) != self.tu.source(lvs):
                    self.fail("realloc whose result is not stored over its argument", n)

                def f(read, _t):
                    cur = read()
                    cnt, sz = self.size_arg(kids(c)[2], env, em)
                    return "%s.realloc %s %d" % (cur, atom(cnt), sz), True
                self.update_lvalue(lvs, env, em, f)
                return
            self.fail("pointer assignment other than malloc/realloc", n)

        def g(read, _t):
            y, ty = self.ex(rhs, env, em)
            y, ty = self.bool_int(y, ty, t)
            if ty != t:
                self.fail("assignment of %s to an lvalue of type %s" % (show_ct(ty), show_ct(t)), n)
            return y, False
        # C evaluates the subscripts of the target and the right-hand side in unspecified order; both are
        # side-effect free here except for failing reads — the translation takes target subscripts first
        self.update_lvalue(lvs, env, em, g)

    @staticmethod
    def bool_int(term, ty, want):
        """the value of a comparison / `!` / `&&` / `||` stored in an `int`: 1 or 0"""
        if ty == "bool" and want == "int":
            return "(if %s then 1 else 0)" % term, "int"
        return term, ty

    def incr(self, n, env, em):
        lv = strip_parens(kids(n)[0])
        t = self.cty(lv)
        if n["opcode"] != "++" or t not in ("int", "long", "u32", "u64"):
            self.fail("operator `%s` on %s" % (n["opcode"], show_ct(t)), n)
        self.update_lvalue(lv, env, em, lambda read, _t: self.arith("+", t, read(), "1", n, em))

    # ---- statements

    def stmts(self, ss, env, em, loop_top=False):
        for i, s in enumerate(ss):
            if loop_top and self.is_continue_if(s):
                # `if (c) continue;` among the statements of a loop body: the rest of the body is its else-branch
                return self.if_stmt(dict(kind="IfStmt", range=s.get("range", {}),
                                         inner=[kids(s)[0], dict(kind="CompoundStmt", inner=[]),
                                                dict(kind="CompoundStmt", inner=list(ss[i + 1:]), loop_top=True)]), env, em)
            self.stmt(s, env, em)

    @staticmethod
    def is_continue_if(s):
        if s.get("kind") != "IfStmt" or len(kids(s)) != 2 or s.get("hasElse"):
            return False
        b = kids(s)[1]
        if b.get("kind") == "CompoundStmt" and len(kids(b)) == 1:
            b = kids(b)[0]
        return b.get("kind") == "ContinueStmt"

    def stmt(self, s, env, em):
        k = s.get("kind")
        if k == "CompoundStmt":
            return self.stmts(kids(s), env, em, loop_top=bool(s.get("loop_top")))
        if k == "NullStmt":
            return
        if k == "DeclStmt":
            for d in kids(s):
                if d.get("kind") != "VarDecl":
                    self.fail("declaration of kind %s" % d.get("kind"), d)
                self.decl(d, env, em)
            return
        if k in ("BinaryOperator", "CompoundAssignOperator") and (k == "CompoundAssignOperator" or s["opcode"] == "="):
            return self.assign(s, env, em)
        if k == "UnaryOperator" and s["opcode"] in ("++", "--"):
            return self.incr(s, env, em)
        if k == "CallExpr":
            term, t = self.call(s, env, em, want_value=False)
            return
        if k == "IfStmt":
            return self.if_stmt(s, env, em)
        if k == "ForStmt":
            return self.for_stmt(s, env, em)
        if k == "ReturnStmt":
            self.fail("return that is not the last statement of the function", s)
        self.fail("statement of kind %s" % k, s)

    def decl(self, d, env, em):
        name, t = d["name"], self.cty(d)
        if name in env.vars:
            self.fail("redeclaration of `%s`" % name, d)
        env.vars[name] = Var(name, t, False)
        if kids(d):
            init = kids(d)[-1]
            if name in self.cached:
                self.def_row(name, env, em)
            elif is_ptr(t):
                a = self.alloc_rhs(init, env, em)
                if a is None:
                    self.fail("pointer initialiser other than malloc", d)
                if em is not self.top_em:
                    self.fail("malloc into a local pointer inside a branch or loop", d)
                self.owned.append(name)
                em.add("let %s : %s ← %s" % (mangle(name), self.lean_ty(t), a))
            else:
                y, ty = self.ex(init, env, em)
                y, ty = self.bool_int(y, ty, t)
                if ty != t:
                    self.fail("initialiser of type %s for %s" % (show_ct(ty), show_ct(t)), d)
                em.add("let %s : %s := %s" % (mangle(name), self.lean_ty(t), y))
            env.vars[name].bound = True
        elif is_struct(t):
            if em is not self.top_em:
                self.fail("struct local declared inside a branch or loop", d)
            p = mangle(name) + "_indet"
            self.extra_params.append((p, self.lean_ty(t)))
            em.add("let %s : %s := %s" % (mangle(name), self.lean_ty(t), p))
            env.vars[name].bound = True

    def def_row(self, name, env, em):
        """definition `x = e` of a cached local / `p = a + e` of a row base (find_cached): nothing is emitted here —
        the loads of `e` are performed (and checked) at every use of `x`, not at the definition.  A cached load whose
        value is not used on some path (e.g. hoisted out of a loop that runs zero times) is therefore not checked
        on that path, and that `a + e` stays inside the array is not checked where the pointer is formed, only
        at the accesses through it."""
        c = self.cached[name]
        for v in self.mentioned(c["rhs"]) | ({c["base"]} if c["kind"] == "row" else set()):
            self.var_term(env, v, None)          # everything `e` mentions has a value here
        env.vars[name].bound = True

    def if_stmt(self, s, env, em):
        parts = kids(s)
        c = self.cond(parts[0], env, em)
        arms = [parts[1], parts[2] if len(parts) > 2 else None]
        envs, ems = [], []
        for a in arms:
            e, m = env.copy(), Emit()
            if a is not None:
                try:
                    self.stmt(a, e, m)
                except Untranslatable as err:
                    if em is not self.top_em:
                        raise
                    m = Emit()
                    m.outside = str(err)
                    self.outside.append(str(err))
                    e = env.copy()
            envs.append(e)
            ems.append(m)
        asg = set()
        for a in arms:
            if a is not None:
                asg |= self.assigned(a)
        changed = [v for v in env.vars if env.vars[v].bound and v in asg and all(e.vars[v].bound for e in envs)]
        tys = [self.lean_ty(env.vars[v].cty) for v in changed]
        r = self.fresh()
        ret = "pure " + tuple_term([mangle(v) for v in changed])
        arm_lines = []
        for m in ems:
            if getattr(m, "outside", None):
                arm_lines.append(['outside "%s"' % m.outside.replace('"', "'").replace("\\", "/")])
            else:
                arm_lines.append(m.lines + [ret])
        em.add("let %s : %s ← (if %s then do" % (r if changed else "_", tuple_type([paren_ty(x) if len(tys) > 1 else x for x in tys]), c))
        for l in arm_lines[0]:
            em.add("    " + l)
        em.add("  else do")
        for l in arm_lines[1][:-1]:
            em.add("    " + l)
        em.add("    " + arm_lines[1][-1] + ")")
        for i, v in enumerate(changed):
            em.add("let %s : %s := %s" % (mangle(v), tys[i], proj(r, i, len(changed))))
        for v in env.vars:
            env.vars[v].bound = env.vars[v].bound and all(e.vars[v].bound for e in envs)

    def loop_header(self, s):
        init, _cv, cond, inc, body = (kids(s) + [{}] * 5)[:5]
        if not init and not cond and not inc:
            return None
        # init: v = literal   |   T v = literal
        var, start, declared = None, None, None
        if init.get("kind") == "BinaryOperator" and init.get("opcode") == "=":
            lv = strip_parens(kids(init)[0])
            if lv.get("kind") == "DeclRefExpr":
                var, start = lv["referencedDecl"]["name"], self.literal(strip_casts(kids(init)[1]))
        elif init.get("kind") == "DeclStmt" and len(kids(init)) == 1 and kids(kids(init)[0]):
            d = kids(init)[0]
            var, start, declared = d["name"], self.literal(strip_casts(kids(d)[-1])), d
        if var is None or start is None or start < 0:
            self.fail("for-loop initialisation other than `v = <non-negative literal>`", s)
        if not (cond.get("kind") == "BinaryOperator" and cond.get("opcode") in ("<", "<=")):
            self.fail("for-loop condition other than `v < e` / `v <= e`", s)
        cl = strip_parens(kids(cond)[0])
        if not (cl.get("kind") == "ImplicitCastExpr" and cl["castKind"] == "LValueToRValue"
                and strip_parens(kids(cl)[0]).get("kind") == "DeclRefExpr"
                and strip_parens(kids(cl)[0])["referencedDecl"]["name"] == var):
            self.fail("for-loop condition whose left side is not the counter in its own type "
                      "(a counter narrower than the bound could overflow)", s)
        if not (inc.get("kind") == "UnaryOperator" and inc.get("opcode") == "++"
                and strip_parens(kids(inc)[0]).get("kind") == "DeclRefExpr"
                and strip_parens(kids(inc)[0])["referencedDecl"]["name"] == var):
            self.fail("for-loop increment other than `v++`", s)
        return var, start, declared, cond["opcode"], kids(cond)[1], body

    def for_stmt(self, s, env, em):
        h = self.loop_header(s)
        if h is None:
            self.fail("`for(;;)` that is not the last statement of the function", s)
        var, start, declared, rel, bound, body = h
        if declared is not None:
            if var in env.vars:
                self.fail("redeclaration of `%s`" % var, s)
            env.vars[var] = Var(var, self.cty(declared), False)
        if var not in env.vars:
            self.fail("loop counter `%s` is not a local" % var, s)
        vt = env.vars[var].cty
        if vt not in ("int", "long"):
            self.fail("loop counter of type %s" % show_ct(vt), s)
        asg = self.assigned(body)
        if var in asg:
            self.fail("the loop body assigns its counter `%s`" % var, s)
        mb = self.mentioned(bound)
        if self.assigned(bound) or self.has_call(bound):
            self.fail("the loop bound has a side effect or calls a function (it is evaluated once here)", s)
        if var in mb or (mb & asg):
            self.fail("the loop bound depends on what the body assigns (%s)" % ", ".join(sorted(mb & asg | ({var} & mb))), s)
        bterm, bt = self.ex(bound, env, em)
        if bt != vt:
            self.fail("loop counter of type %s compared with a bound of type %s" % (show_ct(vt), show_ct(bt)), s)
        if rel == "<=":
            bterm = self.bind(em, "Int", "%s %s 1" % ("iadd" if vt == "int" else "ladd", atom(bterm)))
        accs = [v for v in env.vars if env.vars[v].bound and v in asg and not env.vars[v].loopvar]
        acc_tys = [self.lean_ty(env.vars[v].cty) for v in accs]
        # the body as its own definition
        self.loop_counter[self.cur_prefix] = self.loop_counter.get(self.cur_prefix, 0) + 1
        lname = "%s_loop%d" % (self.cur_prefix, self.loop_counter[self.cur_prefix])
        benv = env.copy()
        benv.vars[var].bound, benv.vars[var].loopvar = True, True
        bem = Emit()
        saved_prefix, saved_top = self.cur_prefix, self.top_em
        self.cur_prefix, self.top_em = lname, None
        for i, v in enumerate(accs):
            bem.add("let %s : %s := %s" % (mangle(v), acc_tys[i], proj("acc", i, len(accs))))
        if body.get("kind") == "CompoundStmt":
            self.stmts(kids(body), benv, bem, loop_top=True)
        else:
            self.stmt(body, benv, bem)
        self.cur_prefix, self.top_em = saved_prefix, saved_top
        for v in accs:
            if not benv.vars[v].bound:
                self.fail("`%s` may be without a value at the end of the loop body" % v, s)
        bem.add("pure " + tuple_term([mangle(v) for v in accs]))
        used = self.mentioned(body)
        free = [v for v in env.vars if env.vars[v].bound and v in used and v not in accs and v != var]
        binders = []
        for v in free:
            x = env.vars[v]
            binders.append("(%s : %s)" % (mangle(v), "Nat" if x.loopvar else self.lean_ty(x.cty)))
        acc_ty = tuple_type([paren_ty(x) if len(acc_tys) > 1 else x for x in acc_tys])
        sig = " ".join([x for x in [self.cfg["binders"]] if x] + binders + ["(%s : Nat)" % mangle(var), "(acc : %s)" % acc_ty])
        doc = "/-- body of the loop `%s` of `%s` (line %s): counter `%s`, accumulator (%s) -/" % (
            self.tu.source(s).split("{")[0].strip().replace("\n", " "), self.name, self.tu.line_of(s), var, ", ".join(accs))
        self.loops.append("%s\ndef %s %s : M %s := do\n%s\n" % (doc, lname, sig, paren_ty(acc_ty),
                                                                "\n".join("  " + l for l in bem.lines)))
        self.loop_names.append(lname)
        call = " ".join([lname] + ([self.cfg["args"]] if self.cfg["args"] else []) + [mangle(v) for v in free])
        r = self.fresh()
        em.add("let %s : %s ← forFromM (%s) %d (%s - %d).toNat %s" % (
            r, acc_ty, call, start, bterm, start, tuple_term([mangle(v) for v in accs])))
        for i, v in enumerate(accs):
            em.add("let %s : %s := %s" % (mangle(v), acc_tys[i], proj(r, i, len(accs))))
        # after the loop: the counter and the locals first assigned inside have no value we track
        env.vars[var].bound, env.vars[var].loopvar = False, False
        if declared is not None:
            del env.vars[var]

    # ---- the unbounded loop `for(;;) { ..; if (c) return e; }` as last statement

    def forever(self, s, env, em, finish):
        body = kids(s)[4]
        ss = kids(body) if body.get("kind") == "CompoundStmt" else [body]
        if not ss or ss[-1].get("kind") != "IfStmt" or len(kids(ss[-1])) != 2:
            self.fail("`for(;;)` whose body does not end with `if (c) return e;`", s)
        last = ss[-1]
        rs = kids(last)[1]
        if rs.get("kind") == "CompoundStmt" and len(kids(rs)) == 1:
            rs = kids(rs)[0]
        if rs.get("kind") != "ReturnStmt":
            self.fail("`for(;;)` whose body does not end with `if (c) return e;`", s)
        self.fuel = True
        asg = set()
        for x in ss:
            asg |= self.assigned(x)
        accs = [v for v in env.vars if env.vars[v].bound and v in asg]
        acc_tys = [self.lean_ty(env.vars[v].cty) for v in accs]
        lname = "%s_loop1" % self.name
        benv, bem = env.copy(), Emit()
        saved_top = self.top_em
        self.top_em = None
        for i, v in enumerate(accs):
            bem.add("let %s : %s := %s" % (mangle(v), acc_tys[i], proj("acc", i, len(accs))))
        self.stmts(ss[:-1], benv, bem)
        c = self.cond(kids(last)[0], benv, bem)
        renv, rem = benv.copy(), Emit()
        ret_term, ret_ty = finish(rs, renv, rem)
        self.top_em = saved_top
        acc_ty = tuple_type([paren_ty(x) if len(acc_tys) > 1 else x for x in acc_tys])
        bem.add("if %s then do" % c)
        for l in rem.lines:
            bem.add("    " + l)
        bem.add("    pure (some %s, %s)" % (atom(ret_term), tuple_term([mangle(v) for v in accs])))
        bem.add("  else pure (none, %s)" % tuple_term([mangle(v) for v in accs]))
        used = set()
        for x in ss:
            used |= self.mentioned(x)
        free = [v for v in env.vars if env.vars[v].bound and v in used and v not in accs]
        binders = ["(%s : %s)" % (mangle(v), self.lean_ty(env.vars[v].cty)) for v in free]
        sig = " ".join([x for x in [self.cfg["binders"]] if x] + binders + ["(acc : %s)" % acc_ty])
        doc = "/-- body of the loop `for(;;)` of `%s` (line %s): accumulator (%s); `some r` = `return r` -/" % (
            self.name, self.tu.line_of(s), ", ".join(accs))
        self.loops.append("%s\ndef %s %s : M (Option %s × %s) := do\n%s\n" % (
            doc, lname, sig, paren_ty(ret_ty), paren_ty(acc_ty), "\n".join("  " + l for l in bem.lines)))
        self.loop_names.append(lname)
        call = " ".join([lname] + ([self.cfg["args"]] if self.cfg["args"] else []) + [mangle(v) for v in free])
        em.add("foreverM fuel (%s) %s" % (call, tuple_term([mangle(v) for v in accs])))
        return ret_ty

    # ---- the function

    def translate(self):
        node = self.node
        params = [p for p in kids(node) if p.get("kind") == "ParmVarDecl"]
        body = [c for c in kids(node) if c.get("kind") == "CompoundStmt"][0]
        rt = parse_ctype(node["type"]["qualType"].split("(")[0].strip(), self.tu, node)
        env = Env()
        for p in params:
            env.vars[p["name"]] = Var(p["name"], self.cty(p), True)
        pnames = [p["name"] for p in params]
        # the cached-local normal form is switched on per file (the proofs of that file are written against it)
        self.cached = self.find_cached(body, set(pnames)) if self.cfg.get("cache_locals") else {}
        asg = self.assigned(body)
        for p in params:
            if p["name"] in asg and not is_ptr(env.vars[p["name"]].cty):
                pass          # a scalar parameter assigned locally: a local copy, not returned
        writes = [i for i, p in enumerate(params) if is_ptr(env.vars[p["name"]].cty) and p["name"] in asg]
        self.writes, self.ret = writes, rt
        em = Emit()
        self.top_em, self.cur_prefix = em, self.name
        ss = list(kids(body))
        last = ss[-1] if ss else None
        written = [pnames[i] for i in writes]

        def result_tuple(val):
            return tuple_term(([val] if val is not None else []) + [mangle(v) for v in written])
        comps = ([] if rt == "void" else [self.lean_ty(rt)]) + [self.lean_ty(env.vars[v].cty) for v in written]
        res_ty = tuple_type([paren_ty(c) if len(comps) > 1 else c for c in comps])

        def leak_check(e, m):
            if self.owned:
                flags = []
                for v in self.owned:
                    flags.append("%s.live" % mangle(v))
                    if is_ptr(e.vars[v].cty[1]):
                        flags.append("rowsLive %s" % mangle(v))
                    if not e.vars[v].bound:
                        self.fail("allocated buffer `%s` has no value at the return" % v, node)
                m.add("noLeak [%s]" % ", ".join(flags))

        if last is not None and last.get("kind") == "ForStmt" and self.loop_header(last) is None:
            # for(;;) { ..; if (c) return e; }
            self.stmts(ss[:-1], env, em)
            if self.owned:
                self.fail("unbounded loop in a function that allocates", last)

            def finish(rs, e, m):
                y, ty = self.ex(kids(rs)[0], e, m)
                if ty != rt:
                    self.fail("return of %s from a function returning %s" % (show_ct(ty), show_ct(rt)), rs)
                return tuple_term([y] + [mangle(v) for v in written]), res_ty
            self.forever(last, env, em, finish)
            final_ty = "M (Option %s)" % paren_ty(res_ty)
        elif last is not None and last.get("kind") == "ReturnStmt" and self.tail_fuel_call(last):
            self.stmts(ss[:-1], env, em)
            self.fuel = True
            self.return_fuel_call(last, env, em, rt, written)
            final_ty = "M (Option %s)" % paren_ty(res_ty)
        else:
            def fin(rs, e, m):
                val = None
                if rs is not None and kids(rs):
                    y, ty = self.ex(kids(rs)[0], e, m)
                    y, ty = self.bool_int(y, ty, rt)
                    if ty != rt:
                        self.fail("return of %s from a function returning %s" % (show_ct(ty), show_ct(rt)), rs)
                    val = y
                elif rt != "void":
                    self.fail("control can reach the end of a non-void function", node)
                for v in written:
                    if not e.vars[v].bound:
                        self.fail("`%s` has no value at the return" % v, node)
                leak_check(e, m)
                m.add("pure " + result_tuple(val))
            self.tail(ss, env, em, fin)
            if self.early and self.owned:
                self.fail("early return in a function that allocates", node)
            final_ty = "M %s" % paren_ty(res_ty)
        binders = [x for x in [self.cfg["binders"]] if x]
        if self.fuel:
            binders.append("(fuel : Nat)")
        for p in params:
            binders.append("(%s : %s)" % (mangle(p["name"]), self.lean_ty(env.vars[p["name"]].cty) if p["name"] in env.vars
                                          else "?"))
        # parameter types must come from the declaration, not the final env (a parameter cannot be undeclared)
        binders += ["(%s : %s)" % pt for pt in self.extra_params]
        text = "".join(l + "\n" for l in self.loops)
        return text, " ".join(binders), final_ty, em.lines, [self.cty(p) for p in params]

    @staticmethod
    def returning(b):
        """the statements of a branch that ends with `return`, else None"""
        ss = kids(b) if b.get("kind") == "CompoundStmt" else [b]
        return ss if ss and ss[-1].get("kind") == "ReturnStmt" else None

    def tail(self, ss, env, em, fin):
        """the statements up to the function's return.  `if (c) { ..; return e; }` (no else) followed by more
        statements is `if (c) { ..; return e; } else { the rest }`: both arms end the function"""
        for i, s in enumerate(ss):
            if s.get("kind") == "ReturnStmt":
                if i != len(ss) - 1:
                    self.fail("statements after `return`", s)
                return fin(s, env, em)
            if s.get("kind") == "IfStmt" and len(kids(s)) == 2 and self.returning(kids(s)[1]) is not None:
                self.early = True
                c = self.cond(kids(s)[0], env, em)
                saved_top = self.top_em
                self.top_em = None
                e1, m1, e2, m2 = env.copy(), Emit(), env.copy(), Emit()
                self.tail(self.returning(kids(s)[1]), e1, m1, fin)
                self.tail(ss[i + 1:], e2, m2, fin)
                self.top_em = saved_top
                em.add("if %s then do" % c)
                for l in m1.lines:
                    em.add("    " + l)
                em.add("  else do")
                for l in m2.lines:
                    em.add("    " + l)
                return
            self.stmt(s, env, em)
        fin(None, env, em)

    def tail_fuel_call(self, rs):
        if not kids(rs):
            return False
        e = strip_casts(kids(rs)[0])
        if e.get("kind") == "CallExpr":
            name = self.callee(e)
            return name in self.done and self.done[name]["status"] == "translated" and self.done[name]["fuel"]
        return False

    def return_fuel_call(self, rs, env, em, rt, written):
        e = strip_parens(kids(rs)[0])
        casts = []
        while e.get("kind") in ("ImplicitCastExpr", "CStyleCastExpr"):
            casts.append(e)
            e = strip_parens(kids(e)[-1])
        name = self.callee(e)
        d = self.done[name]
        terms, wr = self.call_args(e, name, kids(e)[1:], d["writes"], d["param_ctys"], env, em)
        comps = [self.lean_ty(d["ret"])] + [self.lean_ty(env.vars[v].cty) for v in wr]
        ty = tuple_type([paren_ty(c) if len(comps) > 1 else c for c in comps])
        r = self.fresh()
        em.add("let %s : Option %s ← %s" % (r, paren_ty(ty), " ".join([name] + ([d["ctx_args"]] if d["ctx_args"] else []) + ["fuel"] + terms)))
        em.add("match %s with" % r)
        em.add("| none => pure none")
        r2 = self.fresh()
        em.add("| some %s => do" % r2)
        em.ind += 2
        for i, v in enumerate(wr):
            em.add("let %s : %s := %s" % (mangle(v), self.lean_ty(env.vars[v].cty), proj(r2, 1 + i, len(comps))))
        term, t = proj(r2, 0, len(comps)), d["ret"]
        for c in reversed(casts):
            if c["castKind"] == "NoOp":
                continue
            if c["castKind"] != "IntegralCast":
                self.fail("cast of kind %s on a returned call" % c["castKind"], c)
            to = self.cty(c)
            term, t = self.cast(term, t, to, c, em), to
        if t != rt:
            self.fail("return of %s from a function returning %s" % (show_ct(t), show_ct(rt)), rs)
        em.add("pure (some %s)" % tuple_term([term] + [mangle(v) for v in written]))
        em.ind -= 2


def strip_casts(n):
    n = strip_parens(n)
    while n.get("kind") in ("ImplicitCastExpr", "CStyleCastExpr") and n["castKind"] in ("IntegralCast", "NoOp"):
        n = strip_parens(kids(n)[-1])
    return n


def atom(term):
    term = term.strip()
    if re.fullmatch(r"[\w.]+", term) or (term.startswith("(") and term.endswith(")") and balanced(term[1:-1])):
        return term
    return "(" + term + ")"


def balanced(s):
    d = 0
    for ch in s:
        if ch == "(":
            d += 1
        elif ch == ")":
            d -= 1
            if d < 0:
                return False
    return d == 0


# ------------------------------------------------------------------------------------------- driver

def gen_struct(tu, cname, lname):
    rec = tu.records.get(cname)
    if rec is None:
        raise Untranslatable("struct %s not found" % cname)
    fields = []
    for f in kids(rec):
        if f.get("kind") == "FieldDecl":
            t = parse_ctype(f["type"].get("desugaredQualType", f["type"]["qualType"]), tu, f)
            if t not in ("u32", "u64", "int", "long"):
                raise Untranslatable("field %s of type %s" % (f["name"], show_ct(t)), f, tu)
            fields.append("  %s : %s" % (mangle(f["name"]), {"u32": "UInt32", "u64": "UInt64"}.get(t, "Int")))
    return ("/-- generated from `struct %s` -/\nstructure %s where\n%s\n  deriving Repr, DecidableEq, Inhabited\n" % (
        cname, lname, "\n".join(fields)))


def translate_all():
    """returns (lean source text, manifest dict)"""
    done, out, manifest = {}, [], {}
    for cfg in FILES:
        path = os.path.join(repo(), cfg["file"])
        tu, tu_err = None, None
        try:
            if not os.path.exists(path):
                raise Untranslatable("source file %s is missing" % cfg["file"])
            tu = TU(path)
        except Untranslatable as err:
            tu_err = str(err)
        out.append("/-! ## %s -/\n" % cfg["file"])
        out.append("section\nopen Qv.KMem Qv.Kernel\n")
        for cname, lname in cfg["gen_structs"]:
            try:
                if tu is None:
                    raise Untranslatable(tu_err)
                out.append(gen_struct(tu, cname, lname))
            except Untranslatable as err:
                out.append("-- struct %s: untranslatable: %s\n" % (cname, err))
        for fname in cfg["functions"]:
            tie = TIE.get(fname, dict(modules=[], props=[], theorems=[]))
            rec = dict(file=cfg["file"], function=fname, lean_name="Qv.GenC." + fname, props=tie["props"],
                       modules=["Qv.Proofs.GenEqC." + m for m in tie["modules"]],
                       theorems=["Qv.GenC." + t for t in tie["theorems"]],
                       source_hash=None, lines=None, loops=[], outside=[])
            info = dict(status=None)
            try:
                if tu is None:
                    raise Untranslatable(tu_err)
                nodes = tu.funcs.get(fname, [])
                if len(nodes) != 1:
                    raise Untranslatable("function %s not defined exactly once" % fname)
                node = nodes[0]
                seg = tu.source(node)
                rec["source_hash"] = hashlib.sha256(seg.encode()).hexdigest()[:16]
                l0 = tu.line_of(node)
                rec["lines"] = [l0, l0 + seg.count("\n")]
                fn = Fn(tu, cfg, node, done)
                loops, binders, rty, lines, ptys = fn.translate()
                info.update(status="translated", writes=fn.writes, ret=fn.ret, fuel=fn.fuel, ctx_args=cfg["args"],
                            param_ctys=ptys, extra=fn.extra_params)
                rec.update(status="translated", loops=["Qv.GenC." + x for x in fn.loop_names], outside=fn.outside)
                out.append(loops)
                out.append("/-- generated from `%s`, `%s`, lines %d-%d, sha256[:16] of its source text %s%s -/\n"
                           "def %s %s : %s := do\n%s\n" % (
                               cfg["file"], fname, rec["lines"][0], rec["lines"][1], rec["source_hash"],
                               "".join("\n(outside the fragment, rendered as `outside`: %s)" % o for o in fn.outside),
                               fname, binders, rty, "\n".join("  " + l for l in lines)))
            except Untranslatable as err:
                rec["status"] = info["status"] = "untranslatable: %s" % err
                out.append("-- %s `%s` (%s): %s\n-- no definition of `%s` is generated; its equivalence theorems cannot compile\n" % (
                    cfg["file"], fname, rec["source_hash"], rec["status"], fname))
            done[fname] = info
            manifest[cfg["file"] + "::" + fname] = rec
        out.append("end\n")
    header = ("import Qv.Model.KernelMem\nimport Qv.Gen.CPrelude\n/-!\n# Qv.Gen.CSource — GENERATED by harness/translate_c.py "
              "from the C sources of the annealing kernels; do not edit.\n\nRegenerated on every `./check C17|C12` run from "
              "the current working tree (`$VERIF_REPO`, default `/repo`)\nthrough clang's JSON AST.  Each definition is "
              "the structural rendering of one C function or of one loop body\n(rules: docstring of "
              "`harness/translate_c.py`; meaning of the primitives: `Qv/Gen/CPrelude.lean`,\n`Qv/Model/KernelMem.lean`).  "
              "`Qv/Proofs/GenEqC/*.lean` proves each equal to the corresponding piece of the\nhand-written models.\n-/\n"
              "set_option linter.unusedVariables false\nnamespace Qv.GenC\n\n")
    return header + "\n".join(out) + "\nend Qv.GenC\n", manifest


def write(gen_dir=GEN_DIR):
    text, manifest = translate_all()
    os.makedirs(gen_dir, exist_ok=True)
    for name, content in (("CSource.lean", text), ("cmanifest.json", json.dumps(manifest, indent=1, sort_keys=True) + "\n")):
        p = os.path.join(gen_dir, name)
        if not os.path.exists(p) or open(p).read() != content:      # keep mtime when nothing changed
            open(p, "w").write(content)
    return manifest


if __name__ == "__main__":
    m = write()
    for k, r in m.items():
        print("%-55s %s  %s  loops=%d" % (k, r["source_hash"], r["status"], len(r["loops"])))
    sys.exit(0)
