"""C14 — model bookkeeping stays consistent under every history of edits (correspondence + oracle).

Families:
  exh   every history of length <= 2 (thorough: also length 3 over a reduced alphabet) over the alphabet
        `alphabet(kind)` for each of the ten model types
  tgt   targeted length-3..5 histories: cancel the most recently labelled variable before a reducing conversion;
        constraint ; refresh/copy/*=dict/**=/clear ; constraint on PCBO/PCSO
  rnd   random histories of length <= 12 (with a bias towards cancelling what was just stored); coefficients also as
        numpy.int64/float64 scalars and bool, labels from Labels.STYLES_X
  mag   coefficients of extreme magnitude (tiny: 2^-60, 3*2^-62, 1/10^18 ...; huge: 2^60, 5*2^58, 10^18+1; models scaled in
        place by 2^-55 / 2^55) in fixed short histories around refresh / clear / copy / round / cancellation on all ten types
        and in random histories over the whole edit language; every history is run with exact numbers (int / Fraction) and,
        where IEEE double arithmetic is provably exact on it (`float_safe`: all values of the history stay integer multiples
        of one power of two below 2^52 times it), also with Python floats and numpy.float64 scalars (vstyle float / npf)
Self-aliased in-place operands (`H -= H`, `H += H`, `H *= H`, `H.update(H)`, control `H -= H.copy()`) are edits of the
history language on all ten types (exhaustive pairs, constraint ; op ; constraint, random).
After every edit the live object's terms (with dict order), mapping, reverse_mapping, variables, degree,
num_binary_variables, max_index, num_ancillas, constraints and the raised exception are compared with the
Lean model (`Qv.Book.trace`); at the end the label sets of to_pubo/to_qubo/to_puso/to_quso.

The direct oracle (clauses O1..O5 below) is the property text evaluated on the live object; it shares no
code with the model.
"""
import copy as _copy, itertools, json, os
from fractions import Fraction
from . import common
from .common import Labels, fs, exc_name, canon_terms, ANC

CEXT = "plain"
RULE = ("edit histories on a fresh model of each of the ten types: all histories of length <=2 over ~45 in-place "
        "edits (item/augmented assignment incl. zero values and fresh labels, keys with repeated labels, "
        "cancellations, +=,-=,*=,/=,**= with dict/scalar, update, clear, refresh, copy, six comparison "
        "constraints on PCBO/PCSO); every copy-like operation after which the history goes on with the result "
        "(round(H[,n]), H.subs, constructors T(H) of the own and of other classes, H+c, c+H, H-c, c-H, H*c, c*H, -H, +H, "
        "H/c, H**e, H+dict, H*dict, set_mapping with a permutation, update(model of the own / another class)) and every "
        "self-aliased in-place operation (H -= H, H += H, H *= H, H.update(H), control H -= H.copy()) paired "
        "in both orders with the in-place edits and with each other; targeted histories (cancel the newest label "
        "before a reducing conversion; constraint ; copy-like ; constraint); random histories of length <=12 over "
        "everything; the same edits with coefficients of extreme magnitude (2^-60 .. 2^60, 1/10^18, 10^18+1, in-place "
        "scaling by 2^-55) as exact numbers and, where IEEE arithmetic is exact on the history, as float / numpy.float64 "
        "(mag); realised with int/str/tuple/mixed labels; non-trivial = at some step a cached quantity is "
        "stale (variables/degree/count differ from the exact ones) or the history contains a dict product, a "
        "copy-like operation, refresh or a constraint after another edit")
ASSUMPTIONS = ["a constructor of another class (PUBO(pcbo), PCSO(pcbo), PCBO(PUBO(pcbo))) and update() with an object of "
               "another class make/use a different model: ancilla-form labels taken over that way count as user labels "
               "(PUBO has no counter; PCBO adopts only a PCBO's) — reported as an observation, not checked as a violation",
               "set_mapping is exercised with a bijection of exactly the current variables onto 0..n-1 (any other "
               "argument breaks the mapping clause by the caller's own input; set_mapping is not among the property's edits)",
               "dict/mapping order is not compared once a model holds more than ten constraint ancillas ('__a10' < '__a9' as strings)",
               "user keys never contain labels of the reserved ancilla form '__a<k>'",
               "float / numpy.float64 coefficients are used only on histories on which IEEE double arithmetic is exact "
               "(small dyadic values, or extreme-magnitude values whose history keeps every value an integer multiple of one "
               "power of two below 2^52 times it); on the extreme-magnitude float histories the reduced forms (whose default "
               "penalty 1 + |v| rounds) are not computed — the same histories run with exact Fractions check them",
               "label sets of reduced forms are compared as: model labels exactly, ancilla labels a contiguous "
               "range from the predicted start (the number of ancillas is C01's subject)"]

# which variant of the Lean model the implementation is compared with: "current" mirrors /repo as it is
# (defects D1, D2, D9 present); switch to "fixed" when the three repairs of the C14 report are applied.
VARIANT = os.environ.get("VERIF_C14_VARIANT", "fixed")

KINDS = ["QUBO", "QUSO", "PUBO", "PUSO", "PCBO", "PCSO", "QUBOMatrix", "QUSOMatrix", "PUBOMatrix", "PUSOMatrix"]
MATRIX = {"QUBOMatrix", "QUSOMatrix", "PUBOMatrix", "PUSOMatrix"}
SPIN = {"QUSO", "PUSO", "PCSO", "QUSOMatrix", "PUSOMatrix"}
PC = {"PCBO", "PCSO"}
BOK = [k for k in KINDS if k not in MATRIX]


class UpperLabels(Labels):
    """string labels that sort before '__a<k>' under ordering_key, as ids < ANC do in the model"""
    def __init__(self, n=64):
        self.style = "upper"
        self.l = ["V%03d" % i for i in range(n)]
        self.inv = {x: i for i, x in enumerate(self.l)}


def labels_for(kind, style):
    if kind in MATRIX:
        return Labels("int")
    if kind in PC:
        # tuples / lower-case strings would sort after '__a<k>' (non-monotone, DESIGN §3.1); ints and floats sort
        # before every string under the library's (str(type), x) order
        if style in ("num", "numstr"):
            return Labels("num")
        return Labels("int") if style in ("int", "mixed", "boolstr") else UpperLabels()
    return Labels(style)


def kinds_in(case):
    """every model class a history passes through: start, cast targets, classes of update() arguments"""
    out = {case["kind"]}
    for e in case["hist"]:
        if e["t"] == "cast":
            out.add(e["kind"])
        elif e["t"] == "updateM":
            out |= kinds_in(e["arg"])
    return out


def labels_for_case(case):
    ks = kinds_in(case)
    if ks & MATRIX:
        return Labels("int")
    if ks & PC:
        return labels_for("PCBO", case["style"])
    return Labels(case["style"])


def cls_of(name):
    import qubovert as qv
    from qubovert import utils
    return getattr(qv, name, None) or getattr(utils, name)


# ------------------------------------------------------------------ alphabet

def S(k, v): return {"t": "set", "k": k, "v": v}
def A(k, a, d): return {"t": "aug", "k": k, "a": a, "d": d}
def C(rel, P, lam="1", lt=True, lo=None, hi=None):
    return {"t": "cons", "rel": rel, "P": P, "lam": lam, "lt": lt, "lo": lo, "hi": hi}


BASE = [
    S([0], "1"), S([0], "0"), S([1], "0"), S([0, 1], "2"), S([1, 0, 0], "3"), S([0, 0], "1"), S([2, 3], "-1"),
    S([0, 1, 2], "1"), S([0, 0, 1, 2, 3], "1"), S([], "5"),
    A([0], "add", "1"), A([0], "sub", "1"), A([4], "add", "0"), A([0, 1], "add", "-2"), A([0, 1], "mul", "0"),
    A([1], "mul", "2"),
    {"t": "iaddD", "q": [[[0], "1"], [[1, 2], "1"]]}, {"t": "isubD", "q": [[[0], "1"], [[1, 2], "1"]]},
    {"t": "iaddD", "q": [[[3, 3], "0"], [[2], "1"]]},
    {"t": "iaddC", "c": "3"}, {"t": "isubC", "c": "3"},
    {"t": "imulD", "q": [[[0], "1"]]}, {"t": "imulD", "q": [[[1], "1"], [[], "-1"]]},
    {"t": "imulD", "q": [[[4], "0"]]}, {"t": "imulD", "q": []},
    {"t": "imulC", "c": "2"}, {"t": "imulC", "c": "0"}, {"t": "idivC", "c": "2"}, {"t": "idivC", "c": "0"},
    {"t": "ipow", "e": 2}, {"t": "ipow", "e": 1}, {"t": "ipow", "e": 0},
    {"t": "update", "q": [[[0], "2"], [[2, 1], "1"]]}, {"t": "update", "q": [[[3], "0"], [[1], "1"]]},
    {"t": "clear"}, {"t": "refresh"}, {"t": "copy"},
]
CONS = [
    C("le", [[[0], "1"], [[1], "1"], [[2], "1"], [[], "-2"]]),
    C("eq", [[[0], "1"], [[1], "-1"]], lam="2"),
    C("ne", [[[0], "1"], [[1], "1"], [[], "-1"]]),
    C("lt", [[[0], "1"], [[1], "2"], [[], "-2"]], lt=False),
    C("ge", [[[2], "1"], [[3], "1"], [[], "-1"]], lam="3/2"),
    C("gt", [[[0, 1], "2"], [[2], "-1"]]),
    C("le", [[[0], "1"], [[3], "1"]], lam="0"),
]
def B(a, **kw): return dict({"t": "bin", "a": a}, **kw)
def UM(kind, hist): return {"t": "updateM", "arg": {"kind": kind, "hist": hist}}


# copy-like operations: the history goes on with the result
COPYLIKE = [
    {"t": "round", "nd": None}, {"t": "round", "nd": -1}, {"t": "round", "nd": 0}, {"t": "subs"},
    B({"t": "addC", "c": "0"}), B({"t": "addC", "c": "3"}, refl=True), B({"t": "subC", "c": "0"}),
    B({"t": "mulC", "c": "1"}), B({"t": "mulC", "c": "2"}, refl=True), B({"t": "mulC", "c": "0"}),
    B({"t": "divC", "c": "1"}), B({"t": "pow", "e": 1}), B({"t": "pow", "e": 2}),
    B({"t": "addD", "q": [[[4, 4], "0"], [[1], "1"]]}), B({"t": "mulD", "q": [[[0], "1"], [[], "1"]]}),
    {"t": "neg"}, {"t": "pos"}, {"t": "rsubC", "c": "1"}, {"t": "remap"},
]
# self-aliased in-place operands (and the un-aliased control)
SELFOPS = [{"t": "isubSelf"}, {"t": "iaddSelf"}, {"t": "imulSelf"}, {"t": "updateSelf"}, {"t": "isubCopy"}]


def cast_targets(kind):
    """`T(H)`: the own class (a copy), the other classes of the family, and the other basis"""
    if kind in MATRIX:
        return [kind, "PUBOMatrix" if kind not in SPIN else "PUSOMatrix", "PUSOMatrix" if kind not in SPIN else "PUBOMatrix",
                "PUBO" if kind not in SPIN else "PUSO"]
    if kind in SPIN:
        return [kind, "PUSO", "PCSO", "QUSO", "PCBO"]
    return [kind, "PUBO", "PCBO", "QUBO", "PCSO"]


def update_args(kind):
    """arguments of `H.update(G)`: a model of the own class (with constraints for PCBO/PCSO), one of another class"""
    own = [CONS[0], S([3], "2")] if kind in PC else [S([1, 2], "1"), S([3], "0"), S([0], "-1")]
    other = "PUSO" if kind in SPIN else "PUBO"
    if kind in MATRIX:
        other = kind
    return [UM(kind, own), UM(other if other != kind else kind, [S([0, 1], "3"), S([4], "1"), S([4], "0")])]


def copylike(kind):
    out = list(COPYLIKE) + [{"t": "cast", "kind": k} for k in dict.fromkeys(cast_targets(kind))] + update_args(kind) \
        + SELFOPS
    if kind in PC:
        out.append(UM(kind, [CONS[2], CONS[0]]))
    return out


SMALL = [BASE[i] for i in (0, 1, 3, 4, 8, 11, 12, 16, 17, 21, 22, 23, 26, 29, 33, 34, 35, 36)]


def alphabet(kind, small=False, new=True):
    a = list(SMALL if small else BASE)
    if kind in PC:
        a += CONS[:3] if small else CONS
    else:
        a += CONS[:1] if not small else []      # AttributeError on the unconstrained types
    if new:
        cl = copylike(kind)
        # small: round(), H * 1, update(model of the own class)
        a += [cl[0], cl[7], cl[len(COPYLIKE) + len(dict.fromkeys(cast_targets(kind)))], SELFOPS[0]] if small else cl
    return a


# ------------------------------------------------------------------ random histories

def rnd_coef(rng):
    r = rng.random()
    if r < 0.2:
        return "0"
    if r < 0.8:
        return str(rng.choice([-3, -2, -1, 1, 2, 3]))
    return rng.choice(["1/2", "-1/2", "3/2", "1/4", "-3/4"])     # dyadic: the float paths of the conversions stay exact


def rnd_key(rng, nlab, deg2):
    ln = rng.choice([0, 1, 1, 2, 2, 2, 3, 3, 4] if not deg2 else [0, 1, 1, 2, 2, 2, 3])
    return [rng.randrange(nlab) for _ in range(ln)]


def rnd_poly(rng, nlab, deg2, lo=0, hi=3):
    seen, out = set(), []
    for _ in range(rng.randint(lo, hi)):
        k = rnd_key(rng, nlab, deg2)
        if tuple(k) in seen:
            continue
        seen.add(tuple(k))
        out.append([k, rnd_coef(rng)])
    return out


def rnd_edit(rng, kind, nlab):
    deg2 = kind in ("QUBO", "QUSO", "QUBOMatrix", "QUSOMatrix")
    ops = ["set"] * 5 + ["aug"] * 5 + ["iaddD", "isubD", "iaddC", "isubC", "imulD", "imulD", "imulC", "idivC",
                                       "ipow", "update", "update", "clear", "refresh", "copy"]
    ops += ["round", "round", "subs", "cast", "cast", "bin", "bin", "bin", "neg", "pos", "rsubC", "remap", "updateM",
            "isubSelf", "iaddSelf", "imulSelf", "updateSelf", "isubCopy"]
    if kind in PC:
        ops += ["cons"] * 5 + ["round", "updateM", "bin"]
    t = rng.choice(ops)
    if t == "round":
        return {"t": t, "nd": rng.choice([None, None, 0, -1])}
    if t == "cast":
        return {"t": t, "kind": rng.choice(cast_targets(kind))}
    if t == "bin":
        a = rng.choice(["addC", "addC", "subC", "mulC", "mulC", "divC", "pow", "addD", "subD", "mulD"])
        if a in ("addC", "subC", "mulC"):
            return B({"t": a, "c": rng.choice(["0", "1"]) if rng.random() < 0.5 else rnd_coef(rng)}, refl=rng.random() < 0.4)
        if a == "divC":
            return B({"t": a, "c": rng.choice(["1", "2", "-2", "0"])})
        if a == "pow":
            return B({"t": a, "e": rng.choice([1, 1, 2, 0])})
        return B({"t": a, "q": rnd_poly(rng, nlab, deg2, 0, 2)})
    if t == "rsubC":
        return {"t": t, "c": rnd_coef(rng)}
    if t == "updateM":
        gk = kind if rng.random() < 0.7 else rng.choice(cast_targets(kind))
        sub = [rnd_edit(rng, gk, nlab) for _ in range(rng.randint(1, 3))]
        sub = [x for x in sub if x["t"] in ("set", "aug", "iaddD", "iaddC", "cons", "update", "isubD")]
        if gk in PC and rng.random() < 0.7:
            sub.insert(rng.randrange(len(sub) + 1), rng.choice(CONS[:5]))
        return UM(gk, sub)
    if t == "set":
        return S(rnd_key(rng, nlab, deg2), rnd_coef(rng))
    if t == "aug":
        a = rng.choice(["add", "add", "sub", "sub", "mul", "div"])
        d = rnd_coef(rng) if a != "div" else rng.choice(["2", "-2", "4", "1", "0"])
        return A(rnd_key(rng, nlab, deg2), a, d)
    if t in ("iaddD", "isubD", "update"):
        return {"t": t, "q": rnd_poly(rng, nlab, deg2)}
    if t == "imulD":
        return {"t": t, "q": rnd_poly(rng, nlab, deg2, 0, 2)}
    if t in ("iaddC", "isubC", "imulC"):
        return {"t": t, "c": rnd_coef(rng)}
    if t == "idivC":
        return {"t": t, "c": rng.choice(["2", "-2", "4", "1", "1/2", "0"])}
    if t == "ipow":
        return {"t": t, "e": rng.choice([2, 2, 1, 3, 0, -1])}
    if t == "cons":
        P = []
        seen = set()
        for _ in range(rng.randint(1, 3)):
            k = sorted(set(rng.randrange(nlab) for _ in range(rng.choice([1, 1, 1, 2]))))
            if tuple(k) in seen:
                continue
            seen.add(tuple(k))
            P.append([k, str(rng.choice([-2, -1, 1, 1, 2]))])
        if rng.random() < 0.7:
            P.append([[], str(rng.choice([-2, -1, 1]))])
        lt = rng.random() < 0.6
        if not lt:
            # unary slack: one ancilla per unit of range (twice that on spins) — keep the range small
            P = [[k, "1" if Fraction(v) > 0 else "-1"] for k, v in P[:3]]
        return C(rng.choice(["eq", "ne", "lt", "le", "gt", "ge"]), P,
                 lam=rng.choice(["1", "2", "1/2", "0"] if rng.random() < 0.2 else ["1", "2", "1/2"]), lt=lt)
    return {"t": t}


def rnd_history(rng, kind):
    """sizes are kept small: at most two dict products (`*=` dict, `**=`), one if the history has constraints,
    `**= 3` only without constraints, at most three constraints (two next to a dict product)"""
    nlab = rng.choice([3, 4, 5])
    n = rng.randint(3, 12)
    hist, ncons, nmul = [], 0, 0
    for _ in range(n):
        e = rnd_edit(rng, kind, nlab)
        if e["t"] == "cons":
            if ncons >= (3 if nmul == 0 else 2) or nmul > 1:
                continue
            ncons += 1
        if e["t"] == "updateM":
            k2 = sum(1 for x in e["arg"]["hist"] if x["t"] == "cons")
            if ncons + k2 > 3 or nmul > 1:
                continue
            ncons += k2
        if e["t"] == "cast":
            kind = e["kind"]              # the edits that follow are drawn for the new class
        if e["t"] == "imulSelf":
            e2 = {"t": "ipow", "e": 2}
        elif e["t"] == "bin" and e["a"]["t"] in ("pow", "mulD"):
            e2 = {"t": "ipow", "e": e["a"].get("e", 1)} if e["a"]["t"] == "pow" else {"t": "imulD"}
        else:
            e2 = e
        if e2["t"] in ("ipow", "imulD"):
            if e2["t"] == "ipow" and e2["e"] > 1 and ncons:
                continue      # squaring a model that holds slack ancillas explodes (exhaustive/targeted families
                              # cover constraint ; **= on the small constraints)
            if e2["t"] == "imulD" or e2["e"] > 1:
                if nmul >= (1 if ncons else 2) or ncons > 2:
                    continue
                nmul += 1
        hist.append(e)
        if e["t"] == "set" and e["v"] != "0" and rng.random() < 0.25:
            # cancel what was just stored: its freshly labelled variables become stale with the largest labels
            hist.append(S(list(e["k"]), "0") if rng.random() < 0.5 else A(list(e["k"]), "sub", e["v"]))
    return hist


# ------------------------------------------------------------------ extreme magnitudes

MAG_DYADIC = ["1/1152921504606846976", "3/4611686018427387904", "1/36028797018963968", "1152921504606846976",
              "1441151880758558720", "1/1267650600228229401496703205376"]   # 2^-60, 3*2^-62, 2^-55, 2^60, 5*2^58, 2^-100
MAG_OTHER = ["1/1000000000000000000", "1000000000000000001", "7/10000000000000000"]      # 1/10^18, 10^18+1, 7/10^16
MAG_FACTORS = ["1/36028797018963968", "36028797018963968", "1/1152921504606846976"]      # in-place scaling: 2^-55, 2^55, 2^-60


def _v2(f):
    """2-adic valuation of a non-zero Fraction"""
    n, d, e = abs(f.numerator), f.denominator, 0
    while n % 2 == 0:
        n //= 2; e += 1
    while d % 2 == 0:
        d //= 2; e -= 1
    return e if d == 1 else None


def _pow2(f):
    return f != 0 and abs(f).numerator & (abs(f).numerator - 1) == 0 and abs(f).denominator & (abs(f).denominator - 1) == 0


class _Unsafe(Exception):
    pass


def _lit(st, vals):
    """literals enter the model additively: the grid gets finer, the bound on every (partial) sum grows"""
    G, A = st
    for v in vals:
        f = Fraction(v)
        if f == 0:
            continue
        e = _v2(f)
        if e is None or Fraction(float(f)) != f:
            raise _Unsafe()
        G = e if G is None else min(G, e)
        A += abs(f)
    return G, A


def _mulpoly(st, q, keep_old):
    G, A = st
    Gq, Aq = _lit((None, Fraction(0)), [v for _, v in q])
    if Aq == 0 or A == 0:
        return (G, A) if keep_old else (None, Fraction(0))
    return (min(G, G + Gq) if keep_old else G + Gq), (max(A, A * Aq) if keep_old else A * Aq)


def _abs_step(st, e):
    """abstract effect of one edit on (G, A): every coefficient the real code computes while executing the edit (partial sums
    included) is an integer multiple of 2^G and at most A in magnitude.  Raises _Unsafe where that cannot be guaranteed."""
    G, A = st
    t = e["t"]
    if t == "set":
        return _lit(st, [e["v"]])
    if t == "aug":
        d = Fraction(e["d"])
        if e["a"] in ("add", "sub"):
            return _lit(st, [d])
        if d == 0:
            return st
        if e["a"] == "div":
            if not _pow2(d):
                raise _Unsafe()
            d = 1 / d
        ev = _v2(d)
        if ev is None or Fraction(float(d)) != d:
            raise _Unsafe()
        return (None if G is None else G + min(0, ev)), A * max(1, abs(d))
    if t in ("iaddD", "isubD", "update"):
        return _lit(st, [v for _, v in e["q"]])
    if t in ("iaddC", "isubC", "rsubC"):
        return _lit(st, [e["c"]])
    if t == "imulD":
        return _mulpoly(st, e["q"], True)          # may raise half way (degree): the old grid stays in the bound
    if t in ("imulC", "idivC"):
        c = Fraction(e["c"])
        if c == 0:
            return st                              # *= 0 empties the model; /= 0 raises
        if t == "idivC":
            if not _pow2(c):
                raise _Unsafe()
            c = 1 / c
        ev = _v2(c)
        if ev is None or Fraction(float(c)) != c:
            raise _Unsafe()
        return (None if G is None else G + ev), A * abs(c)
    if t in ("ipow", "imulSelf"):
        ex = 2 if t == "imulSelf" else e["e"]
        if ex <= 1 or G is None:
            return st
        return min(G, G * ex), max(A, A ** ex)
    if t in ("clear", "refresh", "copy", "subs", "remap", "pos", "neg", "cast", "updateSelf", "isubSelf", "isubCopy"):
        return st
    if t == "iaddSelf":
        return G, 2 * A
    if t == "round":
        if A >= 2 ** 50:
            raise _Unsafe()                        # round(float, -1) goes through a decimal string
        return (None if G is None else min(G, 0)), 2 * A
    if t == "bin":
        a = e["a"]
        m = {"addC": "iaddC", "subC": "isubC", "mulC": "imulC", "divC": "idivC", "addD": "iaddD", "subD": "isubD",
             "mulD": "imulD"}
        if a["t"] == "pow":
            return _abs_step(st, {"t": "ipow", "e": a["e"]})
        return _abs_step(st, dict(a, t=m[a["t"]]))
    if t == "updateM":
        sub = (None, Fraction(0))
        for x in e["arg"]["hist"]:
            sub = _abs_step(sub, x)
        G2, A2 = sub
        return (G if G2 is None else G2 if G is None else min(G, G2)), A + A2
    raise _Unsafe()                                # constraints: lam * (P + slack)^2 mixes scales


def safe_prefix(hist):
    """length of the longest prefix of the history on which IEEE double arithmetic is exact (see _abs_step): every value is
    an integer multiple of 2^G below 2^52 * 2^G, far from overflow and underflow"""
    st = (None, Fraction(0))
    for i, e in enumerate(hist):
        try:
            st = _abs_step(st, e)
        except _Unsafe:
            return i
        G, A = st
        if G is not None and A > 0 and not (-900 < G < 900 and A < Fraction(2) ** 900 and A < Fraction(2) ** (G + 52)):
            return i
    return len(hist)


def float_safe(case):
    return safe_prefix(case["hist"]) == len(case["hist"]) and not any(zero_div(e) for e in case["hist"])


def _sc(v, s):
    return fs(Fraction(v) * s)


def rescale(e, s, rng, exact):
    """the edit with its additive literals multiplied by the scale `s` (multiplicative scalars keep their size, or become
    one of MAG_FACTORS); returns (edit, new scale)"""
    t = e["t"]
    e = dict(e)
    if t == "set":
        e["v"] = _sc(e["v"], s)
    elif t == "aug" and e["a"] in ("add", "sub"):
        e["d"] = _sc(e["d"], s)
    elif t in ("iaddD", "isubD", "update"):
        e["q"] = [[k, _sc(v, s)] for k, v in e["q"]]
    elif t in ("iaddC", "isubC", "rsubC"):
        e["c"] = _sc(e["c"], s)
    elif t in ("imulC", "idivC") and rng.random() < 0.4:
        c = Fraction(rng.choice(MAG_FACTORS))
        e["c"] = fs(c)
        s = s * c if t == "imulC" else s / c
    elif t == "cons" and exact:
        e["lam"] = _sc(e["lam"], s)
    elif t == "bin":
        a = dict(e["a"])
        if a["t"] in ("addC", "subC"):
            a["c"] = _sc(a["c"], s)
        elif a["t"] in ("addD", "subD"):
            a["q"] = [[k, _sc(v, s)] for k, v in a["q"]]
        elif a["t"] == "mulC" and rng.random() < 0.3:
            c = Fraction(rng.choice(MAG_FACTORS))
            a["c"] = fs(c)
            s = s * c
        e["a"] = a
    elif t == "updateM":
        sub = []
        for x in e["arg"]["hist"]:
            x2, _ = rescale(x, s, rng, exact)
            sub.append(x2)
        e["arg"] = dict(e["arg"], hist=sub)
    return e, s


def mag_fixed(kind):
    """short histories around the operations that rebuild or scale a model; `s` is substituted by each scale"""
    deg2 = kind in ("QUBO", "QUSO", "QUBOMatrix", "QUSOMatrix")
    hi = [0, 1] if deg2 else [1, 2, 3]
    return [
        lambda s: [S([0], _sc(1, s)), S(hi, _sc(2, s)), {"t": "refresh"}, A([0], "add", _sc(1, s))],
        lambda s: [S([0], "1"), S(hi, "3/2"), {"t": "imulC", "c": fs(s)}, {"t": "refresh"}, {"t": "iaddC", "c": _sc(3, s)}],
        lambda s: [{"t": "iaddD", "q": [[[0], _sc(1, s)], [hi, _sc(-1, s)]]}, {"t": "copy"}, A([0], "sub", _sc(1, s)),
                   {"t": "refresh"}],
        lambda s: [S([2], _sc(1, s)), {"t": "clear"}, S([1], _sc(-3, s)), {"t": "refresh"}],
        lambda s: [S(hi, _sc(1, s)), {"t": "idivC", "c": "2"}, {"t": "imulC", "c": "4"}, {"t": "neg"}, {"t": "refresh"}],
        lambda s: [S([2], _sc(1, s)), {"t": "round", "nd": None}, S([0], _sc(5, s)), {"t": "refresh"}],
        lambda s: [{"t": "update", "q": [[[0], _sc(1, s)], [[3], "0"]]}, {"t": "isubD", "q": [[[0], _sc(1, s)]]},
                   S([1], _sc(2, s)), {"t": "refresh"}],
        lambda s: [S([0], _sc(1, s)), {"t": "imulD", "q": [[[1], "1"], [[], "1"]]}, {"t": "refresh"},
                   B({"t": "mulC", "c": "2"}, refl=True)],
        lambda s: [S([0], _sc(3, s)), {"t": "cast", "kind": kind}, {"t": "idivC", "c": fs(s)}, {"t": "refresh"}],
        lambda s: [S([0], _sc(1, s)), S([1], _sc(1, s)), {"t": "iaddSelf"}, {"t": "updateSelf"}, {"t": "refresh"},
                   {"t": "isubSelf"}, {"t": "refresh"}],
    ]


def mag_cases(ctx, nrand):
    rng = ctx.rng
    out, i = [], 0
    for kind in KINDS:
        for s in MAG_DYADIC[:5] + MAG_OTHER[:2]:
            for h in mag_fixed(kind):
                hist = h(Fraction(s))
                base = dict(kind=kind, hist=hist, style=STYLES[(i + ctx.seed) % len(STYLES)], mag=True, vstyle="frac")
                out.append(base)
                if s in MAG_DYADIC:
                    c = dict(base, vstyle=("float", "npf")[i % 2], noconv=True)
                    if float_safe(c):
                        out.append(c)
                i += 1
    for j in range(nrand):
        kind = KINDS[j % len(KINDS)]
        exact = j % 2 == 0
        s = Fraction(rng.choice(MAG_DYADIC + (MAG_OTHER if exact else [])))
        hist, cur = [], kind
        for e in rnd_history(rng, kind):
            if not exact and e["t"] in ("cons", "ipow", "imulSelf"):
                continue
            # float paths of the library that no choice of number type avoids (they round next to extreme magnitudes):
            # round() returns ints, which `/` turns into floats; PCSO constraints go through pubo_to_puso
            if e["t"] == "round" or (e["t"] == "cons" and cur == "PCSO"):
                continue
            if e["t"] == "updateM" and e["arg"]["kind"] == "PCSO":
                e = dict(e, arg=dict(e["arg"], hist=[x for x in e["arg"]["hist"] if x["t"] != "cons"]))
            if e["t"] == "cast":
                cur = e["kind"]
            e, s = rescale(e, s, rng, exact)
            hist.append(e)
            if e["t"] in ("set", "aug", "iaddD", "imulC") and rng.random() < 0.3:
                hist.append({"t": rng.choice(["refresh", "refresh", "copy", "clear"])})
        c = dict(kind=kind, hist=hist, style=rng.choice(STYLES), mag=True, vstyle="frac")
        if not exact:
            c["hist"] = hist = hist[:safe_prefix(hist)]
            if len(hist) < 2 or any(zero_div(e) for e in hist):
                continue
            c.update(vstyle=rng.choice(["float", "npf"]), noconv=True)
        out.append(c)
    return out


# ------------------------------------------------------------------ implementation side

_VS = ["plain"]


def num(s):
    """a coefficient: int / Fraction; `np`: numpy.int64 / numpy.float64 (dyadic values) scalars, whose zero is falsy
    like 0; `bool`: True / False for 1 / 0 (bool is an int: True == 1, and `if value:` decides what is stored)"""
    f = Fraction(s)
    if _VS[0] == "bool" and f in (0, 1):
        return bool(f)
    if _VS[0] == "frac":
        return f                 # every number a Fraction: `v / 2`, `v / 4` of the conversions stay exact at any magnitude
    if _VS[0] in ("float", "npf") and f.denominator & (f.denominator - 1) == 0 and Fraction(float(f)) == f:
        # every (dyadic) number of the history is a float: Python float / numpy.float64 (a float subclass)
        if _VS[0] == "npf":
            import numpy as np
            return np.float64(float(f))
        return float(f)
    if _VS[0] == "np":
        import numpy as np
        if f.denominator == 1 and abs(f) < 2 ** 40:
            return np.int64(int(f))
        if f.denominator & (f.denominator - 1) == 0:
            return np.float64(float(f))
    return int(f) if f.denominator == 1 else f


def real_dict(q, L):
    return {L.key(k): num(v) for k, v in q}


def apply_edit(H, e, L):
    t = e["t"]
    if t == "set":
        H[L.key(e["k"])] = num(e["v"])
    elif t == "aug":
        k, d = L.key(e["k"]), num(e["d"])
        if e["a"] == "add":
            H[k] += d
        elif e["a"] == "sub":
            H[k] -= d
        elif e["a"] == "mul":
            H[k] *= d
        else:
            H[k] /= d
    elif t == "iaddD":
        H += real_dict(e["q"], L)
    elif t == "isubD":
        H -= real_dict(e["q"], L)
    elif t == "iaddC":
        H += num(e["c"])
    elif t == "isubC":
        H -= num(e["c"])
    elif t == "imulD":
        H *= real_dict(e["q"], L)
    elif t == "imulC":
        H *= num(e["c"])
    elif t == "idivC":
        H /= num(e["c"])
    elif t == "ipow":
        H **= e["e"]
    elif t == "update":
        H.update(real_dict(e["q"], L))
    elif t == "clear":
        H.clear()
    elif t == "refresh":
        H.refresh()
    elif t == "copy":
        H = H.copy()
    elif t == "cons":
        f = getattr(H, "add_constraint_%s_zero" % e["rel"])
        kw = dict(lam=num(e["lam"]), suppress_warnings=True)
        if e["lo"] is not None or e["hi"] is not None:
            kw["bounds"] = (None if e["lo"] is None else num(e["lo"]), None if e["hi"] is None else num(e["hi"]))
        if e["rel"] != "eq":
            kw["log_trick"] = e["lt"]
        f(real_dict(e["P"], L), **kw)
    elif t == "round":
        H = round(H) if e["nd"] is None else round(H, e["nd"])
    elif t == "subs":
        import sympy
        H = H.subs({sympy.Symbol("not_in_H"): 1})
    elif t == "cast":
        H = cls_of(e["kind"])(H)
    elif t == "bin":
        a, refl = e["a"], e.get("refl", False)
        if a["t"] == "addC":
            H = (num(a["c"]) + H) if refl else (H + num(a["c"]))
        elif a["t"] == "subC":
            H = H - num(a["c"])
        elif a["t"] == "mulC":
            H = (num(a["c"]) * H) if refl else (H * num(a["c"]))
        elif a["t"] == "divC":
            H = H / num(a["c"])
        elif a["t"] == "pow":
            H = H ** a["e"]
        elif a["t"] == "addD":
            H = H + real_dict(a["q"], L)
        elif a["t"] == "subD":
            H = H - real_dict(a["q"], L)
        elif a["t"] == "mulD":
            H = H * real_dict(a["q"], L)
        else:
            raise common.Infra("bad arith " + a["t"])
    elif t == "neg":
        H = -H
    elif t == "pos":
        H = +H
    elif t == "rsubC":
        H = num(e["c"]) - H
    elif t == "remap":
        m = H.mapping
        H.set_mapping({l: len(m) - 1 - i for l, i in m.items()})
    elif t == "updateM":
        H.update(build_arg(e["arg"], L))
    elif t == "iaddSelf":
        H += H
    elif t == "isubSelf":
        H -= H
    elif t == "imulSelf":
        H *= H
    elif t == "updateSelf":
        H.update(H)
    elif t == "isubCopy":
        H -= H.copy()
    else:
        raise common.Infra("bad edit " + t)
    return H


def build_arg(arg, L):
    """the model `G` of `H.update(G)`: its own history on a fresh object (exceptions are swallowed, as in a history)"""
    G = cls_of(arg["kind"])()
    for x in arg["hist"]:
        try:
            G = apply_edit(G, x, L)
        except common.Infra:
            raise
        except Exception:
            pass
    return G


def snap(H, kind, L, err):
    is_bo = kind not in MATRIX
    d = H.degree
    out = {
        "terms": canon_terms(H, L),
        "order": [[sorted(L.ids(k)), fs(v)] for k, v in H.items()],
        "variables": sorted(L.ident(x) for x in H.variables),
        "degree": None if d == -float("inf") else int(d),
        "n": H.num_binary_variables,
        "max_index": None if H.max_index is None else (H.max_index if is_bo else L.ident(H.max_index)),
        "anc": H.num_ancillas if kind in PC else None,
        "err": err,
    }
    if is_bo:
        m, r = H.mapping, H.reverse_mapping
        out["mapping"] = sorted([L.ident(k), v] for k, v in m.items())
        out["reverse"] = sorted([k, L.ident(v)] for k, v in r.items())
        out["maporder"] = [L.ident(k) for k in m]
    else:
        out["mapping"], out["reverse"], out["maporder"] = [], [], []
    if kind in PC:
        out["cons"] = {rel: [canon_terms(P, L) for P in lst] for rel, lst in H.constraints.items()}
    else:
        out["cons"] = {}
    return out


def group_cons(flat):
    out = {}
    for rel, terms in flat:
        out.setdefault(rel, []).append(terms)
    return out


# ------------------------------------------------------------------ direct oracle (from the property text)

def true_vars(H):
    return {i for k in H for i in k}


def true_degree(H):
    return max((len(k) for k in H), default=-float("inf"))


def is_anc(x):
    return isinstance(x, str) and x[:3] == "__a"


def oracle_step(H, kind, foreign=frozenset()):
    """clauses O1..O4 on the live object; returns (clause, why) of the first failing clause or None"""
    tv, td = true_vars(H), true_degree(H)
    # O1: upper bounds
    if not tv <= H.variables:
        return "O1-variables", "variables %r misses %r" % (H.variables, tv - H.variables)
    if not H.degree >= td:
        return "O1-degree", "degree %r < true degree %r" % (H.degree, td)
    if not H.num_binary_variables >= len(tv):
        return "O1-count", "num_binary_variables %r < %d" % (H.num_binary_variables, len(tv))
    n = H.num_binary_variables
    if kind not in MATRIX:
        # O2: mutually inverse bijections between exactly the reported variables and 0..n-1
        m, r = H.mapping, H.reverse_mapping
        if any(r.get(i, r) != l for l, i in m.items()) or any(m.get(l, m) != i for i, l in r.items()):
            return "O2-inverse", "mapping %r and reverse_mapping %r are not mutually inverse" % (m, r)
        if set(m) != H.variables:
            extra, miss = set(m) - H.variables, H.variables - set(m)
            return ("O2-mapping-has-non-variables" if extra else "O2-variables-unmapped",
                    "mapping domain %r != variables %r" % (sorted(map(repr, m)), sorted(map(repr, H.variables))))
        if set(r) != set(range(n)):
            return "O2-range", "reverse_mapping keys %r != 0..%d" % (sorted(r), n - 1)
    # O3: refresh() leaves the function unchanged and makes everything exact (on a faithful clone)
    G = _copy.deepcopy(H)
    if dict(G) != dict(H) or G.variables != H.variables or G.degree != H.degree or (
            kind not in MATRIX and (G.mapping != H.mapping or G.reverse_mapping != H.reverse_mapping)):
        raise common.Infra("deepcopy is not a faithful clone")
    G.refresh()
    if dict(G) != dict(H):
        return "O3-refresh-function", "refresh changed the terms: %r -> %r" % (dict(H), dict(G))
    if G.variables != tv or G.degree != td or G.num_binary_variables != len(tv):
        return "O3-refresh-exact", "after refresh variables=%r degree=%r n=%r, exact %r %r %d" % (
            G.variables, G.degree, G.num_binary_variables, tv, td, len(tv))
    if kind not in MATRIX:
        m, r = G.mapping, G.reverse_mapping
        if set(m) != tv or set(r) != set(range(len(tv))) or any(r[i] != l for l, i in m.items()):
            return "O3-refresh-mapping", "after refresh mapping=%r reverse=%r, variables %r" % (m, r, tv)
        if G.max_index != len(tv) - 1:
            return "O3-refresh-max-index", "after refresh max_index=%r" % (G.max_index,)
    # O4: every constraint-ancilla name the model mentions was handed out by the current counter
    if kind in PC:
        names = {x for x in tv | H.variables | set(H.mapping) if is_anc(x) and x not in foreign}
        bad = sorted(x for x in names if int(x[3:]) >= H.num_ancillas)
        if bad:
            return "O4-ancilla-not-fresh", ("labels %r are in the model but num_ancillas=%d: the next constraint "
                                            "reuses them" % (bad, H.num_ancillas))
    return None


def poly_value(D, x, spin_target=None):
    tot = 0
    for k, v in D.items():
        p = v
        for i in k:
            p = p * x[i]
        tot += p
    return tot


_conv_cache = {}


def puso_float_exact(H, margin=False):
    """`pubo_to_puso` multiplies every coefficient by the float 2.0**-len(key) and sums in floats (the only float path of the
    four forms when the coefficients are Fractions): exact iff all of that stays on one power-of-two grid within 52 bits.
    margin: the coefficients themselves are ints / floats, so `v / 2`, `v / 4` of qubo_to_quso and the default reduction
    penalty 1 + |v| are float operations too."""
    vals = [Fraction(v) for v in H.values()]
    if not vals:
        return True
    es = [_v2(v) for v in vals]
    if any(e is None for e in es) or any(Fraction(float(v)) != v for v in vals):
        return False
    G = min(es) - max(len(k) for k in H)
    A = sum(abs(v) for v in vals)
    if margin:
        G, A = min(G, 0) - 4, 8 * (A + len(vals))
    return -900 < G < 900 and A < Fraction(2) ** (G + 52)


def conv_skip(H, kind):
    """extreme magnitudes: which of the four forms run through inexact float arithmetic on this model (they are skipped)"""
    if all(isinstance(v, Fraction) for v in H.values()):
        return () if kind in SPIN or puso_float_exact(H) else ("to_puso",)
    return () if puso_float_exact(H, margin=True) else ("to_pubo", "to_puso", "to_qubo", "to_quso")


def conv_outputs(H, skip=()):
    """the four enumerated / reduced forms of the live object (or the exception raised), computed once"""
    outs = {}
    for conv in ("to_pubo", "to_puso", "to_qubo", "to_quso"):
        if conv in skip:
            continue
        try:
            outs[conv] = getattr(H, conv)()
        except Exception as ex:
            outs[conv] = ex
    return outs


def oracle_conv(H, kind, outs=None):
    """O5: enumerated and reduced forms use only mapping labels for model variables and strictly larger,
    previously unused labels for ancillas — and therefore represent the model's function: for every
    assignment of the model's variables, the minimum over the ancillas equals the model's value."""
    tv = sorted(true_vars(H), key=repr)
    m, r, n = H.mapping, H.reverse_mapping, H.num_binary_variables
    key = (kind in SPIN, tuple(sorted(((tuple(sorted(map(repr, k))), fs(v)) for k, v in H.items()))),
           tuple(sorted((repr(l), i) for l, i in m.items())), n, H.degree,
           tuple(sorted({type(v).__name__ for v in H.values()})), tuple(sorted(outs)) if outs is not None else None)
    if key in _conv_cache:
        return _conv_cache[key]
    res = None
    top = max(r, default=-1)
    src_spin = kind in SPIN
    outs = conv_outputs(H) if outs is None else outs
    for conv in ("to_pubo", "to_puso", "to_qubo", "to_quso"):
        if conv not in outs:
            continue
        out = outs[conv]
        if isinstance(out, Exception):
            res = ("O5-" + conv + "-raises", "%s() raised %r" % (conv, out)); break
        labs = {i for k in out for i in k}
        model_labs = {m[t] for t in tv}
        anc = sorted(labs - model_labs)
        if any(a <= top for a in anc):
            res = ("O5-" + conv + "-labels", "%s() uses labels %r that are neither mapping labels of model variables "
                   "%r nor larger than every mapping label (max %d)" % (conv, anc, sorted(model_labs), top)); break
        if len(tv) > 7 or len(anc) > 9:
            continue
        dst_spin = conv in ("to_puso", "to_quso")
        ok = True
        for bits in itertools.product((0, 1), repeat=len(tv)):
            xs = {t: ((1 - 2 * b) if src_spin else b) for t, b in zip(tv, bits)}
            want = poly_value(H, xs)
            base = {m[t]: ((1 - 2 * b) if dst_spin else b) for t, b in zip(tv, bits)}
            best = None
            for abits in itertools.product((0, 1), repeat=len(anc)):
                y = dict(base)
                y.update({a: ((1 - 2 * b) if dst_spin else b) for a, b in zip(anc, abits)})
                val = poly_value(out, y)
                best = val if best is None or val < best else best
            if best != want:
                ok = False
                res = ("O5-" + conv + "-function",
                       "%s() = %r does not represent the model %r (mapping %r, num_binary_variables %d): at %r the "
                       "model is %r, the form's minimum over its ancillas %r is %r" % (
                           conv, dict(out), dict(H), m, n, xs, want, anc, best))
                break
        if not ok:
            break
    _conv_cache[key] = res
    return res


def conv_labels(outs):
    return {conv: ("err:" + exc_name(o)) if isinstance(o, Exception) else sorted({i for k in o for i in k})
            for conv, o in outs.items()}


def run_impl(case, with_oracle=True):
    """returns (steps, conv label sets, first oracle failure or None, stale flag)"""
    kind, L = case["kind"], labels_for_case(case)
    _VS[0] = case.get("vstyle", "plain")
    H = cls_of(kind)()
    steps, fail, stale = [], None, False
    allocated, drop, foreign = set(), None, set()
    for idx, e in enumerate(case["hist"]):
        err = None
        anc0 = H.num_ancillas if kind in PC else 0
        kind0 = kind
        try:
            H = apply_edit(H, e, L)
        except common.Infra:
            raise
        except Exception as ex:
            err = exc_name(ex)
        kind = type(H).__name__
        steps.append(snap(H, kind, L, err))
        if e["t"] == "updateM" and e["arg"]["kind"] != kind and kind in PC:
            # update() with an object that is not an instance of the model's class is update() with a plain dict:
            # ancilla-form labels in it are user-supplied labels (outside the property, see ASSUMPTIONS)
            foreign = foreign | {x for x in true_vars(H) | H.variables if is_anc(x) and int(x[3:]) >= H.num_ancillas}
        if kind != kind0:
            # a constructor of another class made a model of that class: the ancilla-form labels it took over
            # are ordinary labels of the new model (PUBO has no counter; PCBO(x) only adopts a PCBO's counter)
            foreign = {x for x in true_vars(H) | H.variables if is_anc(x)}
            allocated = set()
        elif kind in PC and drop is None and H.num_ancillas < anc0 and e["t"] != "clear":
            drop = e["t"]
        counter_back = kind == kind0 and kind in PC and e["t"] != "clear" and H.num_ancillas < anc0
        if true_vars(H) != H.variables or true_degree(H) != H.degree:
            stale = True
        if with_oracle and fail is None:
            bad = oracle_step(H, kind, foreign)
            if bad is None and counter_back:
                # O4 (counter form): names are "__a%d" % counter, so a counter that goes backwards (other than by
                # clear(), which empties the model) hands the names between the new and the old value out again
                bad = ("O4-counter-decreased", "num_ancillas went back from %d to %d: the next ancilla-creating "
                       "constraint hands out __a%d..__a%d a second time" % (anc0, H.num_ancillas, H.num_ancillas, anc0 - 1))
            if bad is None and kind in PC:
                # O4 (history form): names handed out by a constraint were never handed out before
                if e["t"] == "clear":
                    allocated, foreign = set(), set()
                elif e["t"] == "cons" and err is None:
                    new = set(range(anc0, H.num_ancillas))
                    if new & allocated or H.num_ancillas < anc0:
                        bad = ("O4-ancilla-reused", "constraint handed out __a%s again" % sorted(new & allocated))
                    allocated |= new
                elif e["t"] == "updateM":
                    allocated |= {int(x[3:]) for x in true_vars(H) | H.variables if is_anc(x) and x not in foreign}
            if bad:
                fail = dict(step=idx, clause=bad[0], why=bad[1], edit=e, counter_dropped_by=drop, kind=kind)
    conv = None
    if kind not in MATRIX and not case.get("noconv"):
        # extreme magnitudes (exact numbers): to_puso of a boolean model runs through floats (see puso_float_exact)
        outs = conv_outputs(H, conv_skip(H, kind) if case.get("mag") else ())
        conv = conv_labels(outs)
        if with_oracle and fail is None:
            bad = oracle_conv(H, kind, outs)
            if bad:
                fail = dict(step=len(case["hist"]), clause=bad[0], why=bad[1], edit=None,
                            stale_count=len(true_vars(H)) < H.num_binary_variables)
    return steps, conv, fail, stale


# ------------------------------------------------------------------ classification of oracle failures

def raw_labels(e):
    ks = []
    if "k" in e:
        ks.append(e["k"])
    for f in ("q", "P"):
        if f in e:
            ks += [k for k, _ in e[f]]
    return {i for k in ks for i in k}


def minimise(case, fail):
    """drop edits while the first oracle failure keeps its clause"""
    hist = list(case["hist"])
    changed = True
    while changed:
        changed = False
        for i in range(len(hist)):
            h2 = hist[:i] + hist[i + 1:]
            c2 = dict(case, hist=h2)
            try:
                _, _, f2, _ = run_impl(c2)
            except common.Infra:
                continue
            if f2 and f2["clause"] == fail["clause"]:
                hist, fail, changed = h2, f2, True
                break
    return dict(case, hist=hist), fail


def signature(case, fail):
    """one narrow signature per root cause, from the first failing step of the minimised history"""
    cl, e = fail["clause"], fail["edit"]
    kind = case["kind"]
    if cl == "O2-mapping-has-non-variables" and e is not None:
        # D1: BO.__setitem__ gave an integer to a label of a raw key that was not stored (zero value, or the
        # label was squashed away)
        L = labels_for_case(case)
        H = cls_of(kind)()
        for x in case["hist"][:fail["step"] + 1]:
            try:
                H = apply_edit(H, x, L)
            except Exception:
                pass
        extra = {L.ident(x) for x in set(H.mapping) - H.variables if not is_anc(x)}
        touched = set()
        for x in case["hist"][:fail["step"] + 1]:
            touched |= raw_labels(x)
        if e["t"] in ("set", "aug", "iaddD", "isubD", "imulD", "update", "ipow", "cons", "iaddC", "isubC") \
                and extra and extra <= touched:
            return "C14:D1-setitem-registers-unstored-label"
    kind = fail.get("kind", kind)
    if cl in ("O4-ancilla-not-fresh", "O4-ancilla-reused", "O4-counter-decreased") and fail.get("counter_dropped_by") == "round":
        # before 0d891c4 round() kept constraints and __a* terms but restarted the counter
        return "C14:round-ancilla-counter"
    if cl == "O4-ancilla-not-fresh" and e is not None and e["t"] == "updateM" and e["arg"]["kind"] == kind:
        # before 1495eb6 update(model) merged the argument's constraints and __a* terms, not its counter
        return "C14:D10-update-model-leaves-ancilla-counter"
    if cl in ("O4-ancilla-not-fresh", "O4-ancilla-reused", "O4-counter-decreased") and fail.get("counter_dropped_by") in ("imulD", "ipow"):
        return "C14:D2-imul-dict-resets-pcbo-ancilla-and-constraints"
    if cl.startswith("O5-") and kind in ("PUSO", "PCSO") and cl.split("-")[1] in ("to_qubo", "to_quso", "to_pubo", "to_puso") \
            and (cl.endswith("-function") or cl.endswith("-labels")) and fail.get("stale_count"):
        # the temporary PUBO of PUSO._create_pubo counts only the live variables, the mapping has more labels
        return "C14:D9-puso-reduction-ancilla-collides-with-mapped-label"
    return "C14:%s:%s:%s" % (cl, e["t"] if e else "conversion", kind)


# ------------------------------------------------------------------ correspondence

def model_line(case):
    return {"op": "book", "kind": case["kind"], "fix": VARIANT, "hist": case["hist"]}


STEP_FIELDS = ("terms", "order", "mapping", "reverse", "maporder", "variables", "degree", "n", "max_index", "anc", "err")


def compare(case, steps, conv, model):
    """first difference between implementation and model, or None"""
    if "driver_error" in model:
        return ("driver", None, model)
    ms = model["steps"]
    if not model.get("fresh", True):
        # the hypothesis Op.Fresh of the Lean theorem anc_history_partial fails for a constraint of this history
        return ("consfresh", None, "ConsFresh false")
    if len(ms) != len(steps):
        return ("length", len(steps), len(ms))
    loose = False
    for i, (a, b) in enumerate(zip(steps, ms)):
        # DESIGN §3.1: '__a10' < '__a9' as strings while ANC+9 < ANC+10 — the one non-monotone spot of the label
        # map; once a model has more than ten ancillas, dict/mapping *order* is exempt (contents still compared)
        loose = loose or (a["anc"] is not None and a["anc"] > 10)
        for f in STEP_FIELDS:
            if loose and f in ("order", "maporder"):
                continue
            if a[f] != b[f]:
                return ("step%d:%s" % (i, f), a[f], b[f])
        if a["cons"] != group_cons(b["cons"]):
            return ("step%d:cons" % i, a["cons"], b["cons"])
    if conv is not None:
        base, start = set(model["conv"]["base"]), model["conv"]["ancStart"]
        collide = any(x >= start for x in base)
        for name, labs in conv.items():
            if collide and name in ("to_qubo", "to_quso"):
                # the model itself predicts that the first ancilla is a label the mapping already uses
                # (defects D1/D9; the direct oracle reports them): which labels survive the collision is
                # C01's reduction algorithm, not bookkeeping
                continue
            if isinstance(labs, str):
                return ("conv:" + name, labs, sorted(base))
            labs = set(labs)
            extras = labs - base
            okay = base <= labs and all(x >= start for x in extras) and all(
                x in labs for x in range(start, max(extras) + 1)) if extras else base == labs
            if name in ("to_pubo", "to_puso") and extras:
                okay = False
            if not okay:
                return ("conv:" + name, sorted(labs), {"base": sorted(base), "ancStart": start})
    return None


def process(ctx, cases, family):
    models = common.run_driver([model_line(c) for c in cases])
    for c, m in zip(cases, models):
        try:
            steps, conv, fail, stale = run_impl(c)
        except common.Infra:
            raise
        except Exception as ex:      # the harness itself must not die on a changed tree: a broken correspondence
            ctx.case(c, False); ctx.traces += 1
            ctx.diff(family + ":harness-exception", c, "%s: %s" % (type(ex).__name__, ex), None)
            continue
        nontrivial = len(c["hist"]) >= 2 and (stale or any(
            e["t"] in ("imulD", "ipow", "copy", "refresh", "cons", "round", "subs", "cast", "bin", "neg", "pos", "rsubC",
                       "updateM", "remap", "isubSelf", "iaddSelf", "imulSelf", "updateSelf", "isubCopy") for e in c["hist"][1:]))
        ctx.case(c, nontrivial)
        ctx.count("%s:%s" % (family, c["kind"]))
        ctx.count("len:%d" % len(c["hist"]))
        for s in steps:
            if s["err"]:
                ctx.count("err:" + s["err"])
        ctx.traces += 1
        d = compare(c, steps, conv, m)
        if d:
            ctx.diff(family + ":" + d[0].split(":")[-1], c, d[1], d[2])
        if fail:
            sig0 = signature(c, fail)
            ctx.count("oracle:" + sig0)
            if sig0 in _seen_sigs:
                continue                      # this root cause already has a minimised failing input
            c2, f2 = minimise(c, fail)
            sig = signature(c2, f2)
            _seen_sigs.add(sig0); _seen_sigs.add(sig)
            if not any(v["signature"] == sig for v in ctx.violations):
                ctx.violation(sig, c2, "first failing edit #%d %s: %s" % (
                    f2["step"], json.dumps(f2["edit"]), f2["why"]))


_seen_sigs = set()

STYLES = Labels.STYLES_X      # int, str, tuple, mixed, num (floats+ints), numstr, boolstr (False/True + strings)
VSTYLES = ("plain", "plain", "plain", "np", "bool")


def exhaustive_cases(ctx):
    """quick: all singles; all pairs over the in-place alphabet; every copy-like operation paired (both orders) with
    the small in-place alphabet and with every copy-like operation.  thorough: all pairs over everything, all triples
    over the small alphabet (incl. round(), H * 1, update(model))."""
    cases = []
    i = 0
    for kind in KINDS:
        full = alphabet(kind)
        if ctx.tier == "thorough":
            hs = [[a] for a in full] + [[a, b] for a in full for b in full]
            sm = alphabet(kind, small=True)
            hs += [[a, b, c] for a in sm for b in sm for c in sm]
        else:
            old, cl, part = alphabet(kind, new=False), copylike(kind), alphabet(kind, small=True, new=False)
            hs = [[a] for a in full] + [[a, b] for a in old for b in old]
            part = part[::2] + (CONS[:3] if kind in PC else [])
            key = [cl[i] for i in (0, 1, 3, 7, 12, 15, 18)] + cl[len(COPYLIKE):]
            hs += [[a, b] for a in cl for b in part] + [[a, b] for a in part for b in cl] + [[a, b] for a in key for b in key]
        for h in hs:
            cases.append(dict(kind=kind, hist=h, style=STYLES[(i + ctx.seed) % len(STYLES)]))
            i += 1
    return cases


def targeted_cases(ctx):
    """length-3/4 histories aimed at stale *top* labels and at the constraint state across rebuilds:
    (base of degree >= 3) ; (introduce a fresh label, so it gets the largest mapping label) ; (cancel it) —
    then the reducing conversions must still start their ancillas above every mapping label;
    (constraint) ; (refresh | copy | *= dict | **= | clear) ; (constraint) on PCBO/PCSO."""
    bases = [S([0, 1, 2], "1"), S([0, 0, 1, 2, 3], "1"), {"t": "iaddD", "q": [[[0, 1, 2], "2"], [[1, 3], "1"]]},
             S([1, 2, 3, 0], "-1")]
    intros = [(S([5], "1"), [S([5], "0"), A([5], "sub", "1"), {"t": "isubD", "q": [[[5], "1"]]}, A([5], "mul", "0")]),
              (S([4, 5], "2"), [S([5, 4], "0"), A([4, 5], "add", "-2"), {"t": "update", "q": [[[4, 5], "0"]]}]),
              (A([0, 5], "add", "3"), [A([5, 0], "sub", "3"), S([0, 5], "0")]),
              ({"t": "iaddD", "q": [[[5], "1"], [[6], "1"]]}, [{"t": "isubD", "q": [[[6], "1"]]}, S([6], "0")])]
    out, i = [], 0
    for kind in ("PUBO", "PUSO", "PCBO", "PCSO", "QUBO", "QUSO"):
        for b in bases:
            if kind in ("QUBO", "QUSO"):
                b = S([0, 1], "1")
            for intro, cancels in intros:
                for c in cancels:
                    for tail in ([], [{"t": "copy"}], [A([1], "add", "1")]):
                        if tail and tail[0]["t"] == "copy":
                            continue          # a copy re-enumerates: nothing stale afterwards
                        out.append(dict(kind=kind, hist=[b, intro, c] + tail, style=STYLES[(i + ctx.seed) % len(STYLES)]))
                        i += 1
            if kind in ("QUBO", "QUSO"):
                break
    mids = [{"t": "refresh"}, {"t": "copy"}, {"t": "imulD", "q": [[[0], "1"], [[], "1"]]}, {"t": "ipow", "e": 2},
            {"t": "clear"}, {"t": "imulC", "c": "0"},
            {"t": "round", "nd": None}, {"t": "round", "nd": 0}, {"t": "subs"}, B({"t": "addC", "c": "0"}, refl=True),
            B({"t": "mulC", "c": "1"}), B({"t": "pow", "e": 1}), B({"t": "pow", "e": 2}), {"t": "neg"}, {"t": "pos"},
            {"t": "rsubC", "c": "0"}, B({"t": "divC", "c": "1"}), {"t": "remap"},
            B({"t": "mulD", "q": [[[0], "1"], [[], "1"]]})] + SELFOPS
    for kind in ("PCBO", "PCSO"):
        for c1 in CONS[:5]:
            for mid in mids + [{"t": "cast", "kind": kind}, UM(kind, [CONS[0]]), UM(kind, [CONS[2], S([5], "1")])]:
                for c2 in (CONS[0], CONS[2]):
                    out.append(dict(kind=kind, hist=[c1, mid, c2], style=STYLES[(i + ctx.seed) % len(STYLES)]))
                    out.append(dict(kind=kind, hist=[c1, A([7], "add", "3"), A([7], "sub", "3"), mid, c2],
                                    style=STYLES[(i + ctx.seed) % len(STYLES)]))
                    i += 1
    return out


def random_cases(ctx, n):
    rng = ctx.rng
    out = []
    for i in range(n):
        kind = KINDS[i % len(KINDS)] if rng.random() < 0.6 else rng.choice(["PCBO", "PCSO", "PUBO", "PUSO"])
        c = dict(kind=kind, hist=rnd_history(rng, kind), style=rng.choice(STYLES))
        vs = rng.choice(VSTYLES)
        if vs != "plain" and not any(zero_div(e) for e in c["hist"]):
            c["vstyle"] = vs           # numpy scalars divide by zero to inf instead of raising
        out.append(c)
    return out


def zero_div(e):
    if e["t"] == "idivC" or (e["t"] == "aug" and e["a"] == "div"):
        return Fraction(e.get("c", e.get("d"))) == 0
    if e["t"] == "bin" and e["a"]["t"] == "divC":
        return Fraction(e["a"]["c"]) == 0
    if e["t"] == "updateM":
        return any(zero_div(x) for x in e["arg"]["hist"])
    return False


def probes(ctx):
    """minimal public-API reproductions of the recorded defects, run first (labelled realisation 'str')"""
    return [
        dict(kind="PUBO", style="str", hist=[S([0], "0")]),
        dict(kind="PUSO", style="str", hist=[S([0, 0, 1], "1")]),
        dict(kind="PCBO", style="int", hist=[CONS[0], {"t": "imulD", "q": [[[0], "1"]]}]),
        dict(kind="PCSO", style="int", hist=[CONS[0], {"t": "ipow", "e": 2}]),
        dict(kind="PUSO", style="str", hist=[S([0], "1"), S([1, 2, 3], "1"), S([0], "0")]),
    ]


def check(ctx):
    ctx.exhaustive = True
    ctx.notes.append("model variant compared with the implementation: " + VARIANT)
    process(ctx, probes(ctx), "probe")
    ex = exhaustive_cases(ctx)
    for i in range(0, len(ex), 4000):
        process(ctx, ex[i:i + 4000], "exh")
    process(ctx, targeted_cases(ctx), "tgt")
    process(ctx, random_cases(ctx, ctx.scale(1100, 12000)), "rnd")
    process(ctx, mag_cases(ctx, ctx.scale(300, 4000)), "mag")       # generated last: the earlier streams are unchanged
    if ctx.diffs and not ctx.violations:
        search(ctx)


def search(ctx):
    """failing-input search around correspondence differences: every one-edit extension of the differing
    histories, through the direct oracle"""
    seen = 0
    for d in ctx.diffs[:30]:
        c = d["case"]
        for e in alphabet(c["kind"]):
            c2 = dict(c, hist=c["hist"] + [e])
            _, _, fail, _ = run_impl(c2)
            seen += 1
            if fail:
                c3, f3 = minimise(c2, fail)
                ctx.violation(signature(c3, f3), c3, "first failing edit #%d %s: %s" % (
                    f3["step"], json.dumps(f3["edit"]), f3["why"]))
                return
    ctx.notes.append("search: %d one-edit extensions of differing histories, no oracle failure" % seen)


def replay(ctx, payload):
    c = payload.get("case") or (payload.get("first_difference") or {}).get("case")
    if not c:
        ctx.notes.append("replay file has no case; re-running the full check")
        return check(ctx)
    process(ctx, [c], "replay")
