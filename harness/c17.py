"""C17 — the C annealing kernels are memory-safe on every valid call (sanitised runs + correspondence).

The parent process works on the plain staged copy (case generation needs the staged tree importable; an
ASan-instrumented `_canneal` cannot be imported by a Python that was not started under the ASan runtime).  The
sanitised build (`-fsanitize=address,undefined`, built from the *staged* C sources with common.build_ext) lives in
a second copy that only child processes import, started with
`LD_PRELOAD=$(clang -print-file-name=libclang_rt.asan-x86_64.so) ASAN_OPTIONS=detect_leaks=0:abort_on_error=0`.

Families:
  api      calls of anneal_quso/puso/qubo/pubo through the public API in ONE long-lived child process (a history
           of several hundred calls): the C11 generator's inputs + the C17 shapes (single variable, isolated
           variables, Matrix labels with gaps, terms of high degree, no couplings, cancelled terms, larger N);
           schedules incl. [] and zeros, num_anneals >= 1, with/without initial state, both visiting orders.
           The arguments the front end hands to `c_anneal_*` are recorded in the child (before the call) and fed
           to the Lean checked-memory model (`c17_quso` / `c17_puso`), which must say `wf` and `ok`, and — for
           seed >= 0 — must reproduce the C output (states, bit patterns of the values) exactly.
  schedtype (inside `api`) explicit schedules whose entries are numbers but not Python floats — int, bool, Fraction, Decimal,
           numpy.int64/int32/uint8/float32/float16/float64/bool_, objects offering only __index__; exactly representable
           values, uniform or mixed, as list / tuple / ndarray / iterator — on the C11 and C17 model shapes.  The wrapper
           must CONVERT every entry to a C double.  Each such call is followed in the same child by the call with the equal
           schedule [float(t) for t in schedule] under the same seed: the two C outputs must be identical (an entry read
           through the wrong C type — its object memory taken for a double — is undefined behaviour that no sanitizer
           flags, but it makes the result depend on the Python type of equal numbers); the recorded C arguments
           (temperatures as float(entry)) go through the Lean checked model like every `api` call.  A failed assertion of
           CPython's inline accessors in the sanitised build (compiled without -DNDEBUG) aborts the child: a crash.
  fresh    a sample of the same calls, each in a fresh child process: same output as inside the history.
  reorder  the sampled history again in reversed order in another child: same per-call output.
  objhist  histories on ONE model object (PUSOMatrix / QUSOMatrix / PUBOMatrix / QUBOMatrix and the labelled types):
           in-place growth (`H[k] = v`, `+=` with new, larger labels), cancellation, `*=` (scalar and by a model),
           refresh(), clear(), reads of max_index / num_binary_variables / variables / degree, interleaved with
           anneal_* calls on the same object; every C call of the history is recorded and judged like an `api` call
           (stale bookkeeping such as a cached size that sizes the C buffers too small shows up here).
  swap     (a kind of `objhist`) several rounds on ONE object: anneal, REPLACE the variable set in place, anneal again.  The new
           set is drawn from a grid — same number of variables / more / fewer x larger / smaller / equal maximum label, always
           other labels — and installed by clear() + refill, by cancelling every term (+ refresh()) + refill, by `*= 0` + refill,
           or by `H *= {monomial: c}` (spin types: the product IS the relabelled term); all four annealers, the four Matrix
           types and the six labelled types.  A size, maximum, count or enumeration remembered from the first anneal (however it
           is keyed) meets another variable set in the second: an under-sized C buffer is an ASan report on that call.
  direct   calls of the private `c_anneal_*` with arguments *outside* WF, each in its own child: the model's
           `MemErr` is compared with the sanitizer's verdict (validates that the model's errors are real).

The oracle is the sanitizer (AddressSanitizer / UndefinedBehaviorSanitizer report, or a crashed child) on the real
code; it shares nothing with the Lean model.  A sanitizer report on an `api` call is a concrete failing input.
"""
import json, os, shutil, struct, subprocess, sys, warnings
from . import common
from . import c11
from .c11 import bits

CEXT = "plain"
RULE = ("public-API calls of the four annealers under ASan+UBSan in one child process (history), inputs from the C11 "
        "generator plus single-variable / isolated / gapped-Matrix / high-degree / no-coupling / cancelled / larger-N "
        "shapes, schedules incl. [] and zeros, num_anneals>=1 (a few <=0), with/without initial state, both orders; "
        "plus the same shapes with explicit schedules whose entries are int / bool / Fraction / Decimal / numpy scalars / __index__ "
        "objects equal to floats (each followed by the call with the equal float schedule under the same seed); "
        "plus histories on one model object (in-place growth, cancellation, *=, refresh, clear, bookkeeping reads, "
        "several anneals; non-trivial = >= 2 C calls); plus histories that replace the variable set of one object in place between "
        "anneals (same / more / fewer variables x larger / smaller / equal maximum label; by clear, cancellation (+ refresh), *= 0, "
        "*= monomial) on Matrix and labelled types, several rounds; "
        "non-trivial = the call reached the C kernel with N>=2, >=1 coupling of degree>=2 and a non-empty schedule; "
        "distinct = distinct case JSON")
ASSUMPTIONS = [
    "PARTIAL: ASan/UBSan observe only the executed cases; compiler-level undefined behaviour, CPython's C API "
    "(reference counts, error indicators), the allocator and libm are outside the Lean model",
    "leaks are checked by the model only (`noLeak`); the sanitised runs use detect_leaks=0 because CPython itself "
    "does not free everything at exit",
    "uninitialised reads are checked by the model only (ASan does not detect them; no MSan runtime for CPython here)",
    "the parent stages the plain build (CEXT='plain'); the sanitised build is a second copy of the same staged "
    "sources, imported only by child processes started under the ASan runtime",
]

SAN_MARKS = ("ERROR: AddressSanitizer", "runtime error:", "ERROR: UndefinedBehaviorSanitizer", "AddressSanitizer:DEADLYSIGNAL")
MARK = "@@C17 "

# ------------------------------------------------------------------ the sanitised copy

_asan = {}

def clang():
    return "/usr/bin/clang"

def asan_env(asan_dir):
    if "rt" not in _asan:
        r = subprocess.run([clang(), "-print-file-name=libclang_rt.asan-x86_64.so"], capture_output=True, text=True)
        rt = r.stdout.strip()
        if r.returncode != 0 or not os.path.isabs(rt) or not os.path.exists(rt):
            raise common.Infra("no ASan runtime: " + (r.stdout + r.stderr)[-300:])
        _asan["rt"] = rt
    env = dict(os.environ)
    env.update(LD_PRELOAD=_asan["rt"], ASAN_OPTIONS="detect_leaks=0:abort_on_error=0:allocator_may_return_null=1",
               UBSAN_OPTIONS="print_stacktrace=1", C17_ASAN_DIR=asan_dir, PYTHONDONTWRITEBYTECODE="1")
    return env

def asan_dir():
    """second copy of the staged package with `_canneal` built with -fsanitize=address,undefined"""
    if "dir" in _asan:
        return _asan["dir"]
    if not common._stage_dir:
        raise common.Infra("stage() has not run")
    d = os.path.join(common._stage_dir, "asan")
    shutil.rmtree(d, ignore_errors=True)
    os.makedirs(d)
    shutil.copytree(os.path.join(common._stage_dir, "qubovert"), os.path.join(d, "qubovert"),
                    ignore=shutil.ignore_patterns("__pycache__", "*.pyc", "*.so", "*.o"))
    common.build_ext(os.path.join(d, "qubovert"), sanitize=True)
    _asan["dir"] = d
    return d

# ------------------------------------------------------------------ child process (runs under ASan)

def _run_objhist(case, sim, cur):
    """child side of family `objhist`: the steps of one history on one object; a step that raises is recorded and the
    history goes on (the object keeps whatever state the failed step left)"""
    L = c11.Labels(case["labels"])
    num = lambda v: c11.num_of(v, case["num"])
    H = c11.cls_of(case["kind"])()
    log = []
    for k, st in enumerate(case["steps"]):
        cur["k"] = k
        op = st["op"]
        try:
            if op == "set":
                H[L.key(st["key"])] = num(st["v"])
            elif op == "iadd":
                H[L.key(st["key"])] += num(st["v"])
            elif op == "cancel":
                key = L.key(st["key"])
                H[key] -= H[key]
            elif op == "imul":
                H *= num(st["c"])
            elif op == "imul_poly":
                H *= {L.key(k_): num(v) for k_, v in st["terms"]}
            elif op == "iadd_poly":
                H += {L.key(k_): num(v) for k_, v in st["terms"]}
            elif op == "refresh":
                H.refresh()
            elif op == "clear":
                H.clear()
            elif op == "read":
                x = getattr(H, st["attr"])
                log.append({"k": k, "read": st["attr"], "v": repr(sorted(x, key=repr) if isinstance(x, (set, dict)) else x)[:80]})
                continue
            elif op == "anneal":
                init = None if st["init"] is None else {L.lab(j): v for j, v in st["init"]}
                res = getattr(sim, "anneal_" + st["fn"])(
                    H, num_anneals=st["num_anneals"], initial_state=init, in_order=st["in_order"], seed=st["seed"],
                    schedule=list(st["Ts"]))
                log.append({"k": k, "n": len(res)})
                continue
            else:
                raise ValueError("unknown step " + op)
            log.append({"k": k, "ok": op})
        except Exception as e:
            log.append({"k": k, "err": common.exc_name(e), "detail": repr(e)[:160]})
    cur["k"] = None
    return {"steps": log}


def _child_main():
    d = os.environ["C17_ASAN_DIR"]
    sys.path.insert(0, d)
    import qubovert
    import qubovert.sim as sim
    import qubovert.sim._anneal as A
    if not os.path.abspath(A.__file__).startswith(d):
        print(MARK + "FATAL wrong qubovert " + A.__file__, flush=True); return 3
    orig = (A.c_anneal_quso, A.c_anneal_puso)
    cur = {"i": None, "k": None}

    def say(tag, obj):
        sys.stdout.write(MARK + tag + " " + json.dumps(obj, separators=(",", ":")) + "\n"); sys.stdout.flush()

    def rec_quso(h, nn, nb, J, Ts, na, in_order, init, seed):
        say("CALL", {"i": cur["i"], "k": cur["k"], "kind": "quso", "h": [bits(x) for x in h], "nn": [int(x) for x in nn],
                     "nb": [int(x) for x in nb], "J": [bits(x) for x in J], "Ts": [bits(x) for x in Ts],
                     "num_anneals": int(na), "in_order": bool(in_order), "init": [int(x) for x in init], "seed": int(seed)})
        out = orig[0](h, nn, nb, J, Ts, na, in_order, init, seed)
        say("OUT", {"i": cur["i"], "out": [[[int(x) for x in st], bits(v)] for st, v in zip(out[0], out[1])]})
        return out

    def rec_puso(N, nc, terms, cs, Ts, na, in_order, init, seed):
        say("CALL", {"i": cur["i"], "k": cur["k"], "kind": "puso", "N": int(N), "nc": [int(x) for x in nc], "terms": [int(x) for x in terms],
                     "cs": [bits(x) for x in cs], "Ts": [bits(x) for x in Ts], "num_anneals": int(na),
                     "in_order": bool(in_order), "init": [int(x) for x in init], "seed": int(seed)})
        out = orig[1](N, nc, terms, cs, Ts, na, in_order, init, seed)
        say("OUT", {"i": cur["i"], "out": [[[int(x) for x in st], bits(v)] for st, v in zip(out[0], out[1])]})
        return out

    A.c_anneal_quso, A.c_anneal_puso = rec_quso, rec_puso
    unb = lambda l: [struct.unpack("<d", struct.pack("<Q", b))[0] for b in l]
    for line in sys.stdin:
        line = line.strip()
        if not line:
            continue
        item = json.loads(line)
        i, case = item["i"], item["case"]
        cur["i"], cur["k"] = i, None
        sys.stderr.write(MARK + "BEGIN %d\n" % i); sys.stderr.flush()
        say("BEGIN", {"i": i})
        try:
            with warnings.catch_warnings():
                warnings.simplefilter("ignore")
                if case["family"] == "objhist":
                    api = _run_objhist(case, sim, cur)
                elif case["family"] == "direct":
                    a = case["args"]
                    if case["kind"] == "quso":
                        rec_quso(unb(a["h"]), a["nn"], a["nb"], unb(a["J"]), unb(a["Ts"]), a["num_anneals"],
                                 int(a["in_order"]), a["init"], a["seed"])
                    else:
                        rec_puso(a["N"], a["nc"], a["terms"], unb(a["cs"]), unb(a["Ts"]), a["num_anneals"],
                                 int(a["in_order"]), a["init"], a["seed"])
                    api = {"n": a["num_anneals"]}
                else:
                    if case["family"] == "kernel":
                        from qubovert.utils import QUSOMatrix, PUSOMatrix
                        H = (QUSOMatrix if case["fn"] == "quso" else PUSOMatrix)()
                        for k, v in case["ops"]:
                            H[tuple(k)] += v
                        N = 0 if H.max_index is None else H.max_index + 1
                        init = None if case["init"] is None else {j: (case["init"] + [1] * 64)[j] for j in range(N)}
                        res = getattr(sim, "anneal_" + case["fn"])(
                            H, num_anneals=case["num_anneals"], initial_state=init, in_order=case["in_order"],
                            seed=case["seed"], schedule=list(case["Ts"]))
                    else:
                        obj, L = c11.build_obj(case)
                        kw, _ = c11.schedule_args(case, obj)
                        init = None if case["init"] is None else {L.lab(j): v for j, v in case["init"]}
                        res = getattr(sim, "anneal_" + case["fn"])(
                            obj, num_anneals=case["num_anneals"], initial_state=init, in_order=case["in_order"],
                            seed=case["seed"], **kw)
                        if case["sched"].get("types"):
                            # family schedtype: the same call with the equal float schedule, same seed, same process
                            tw = dict(case, sched={k: v for k, v in case["sched"].items() if k not in ("types", "container")})
                            obj2, L2 = c11.build_obj(tw)
                            kw2, _ = c11.schedule_args(tw, obj2)
                            init2 = None if tw["init"] is None else {L2.lab(j): v for j, v in tw["init"]}
                            twin = getattr(sim, "anneal_" + tw["fn"])(
                                obj2, num_anneals=tw["num_anneals"], initial_state=init2, in_order=tw["in_order"],
                                seed=tw["seed"], **kw2)
                    api = {"n": len(res), "values": [common.fs(r.value) if isinstance(r.value, (int, float)) and
                                                     r.value == r.value and abs(r.value) != float("inf") else repr(r.value)
                                                     for r in res],
                           "states": [[int(v) for _, v in sorted(r.state.items(), key=lambda kv: repr(kv[0]))] for r in res]}
                    if case["family"] == "anneal" and case["sched"].get("types"):
                        api["twin"] = [[[int(v) for _, v in sorted(r.state.items(), key=lambda kv: repr(kv[0]))], repr(r.value)]
                                       for r in twin]
                        api["typed"] = [[[int(v) for _, v in sorted(r.state.items(), key=lambda kv: repr(kv[0]))], repr(r.value)]
                                        for r in res]
        except Exception as e:
            api = {"err": common.exc_name(e), "detail": repr(e)[:300]}
        say("RES", {"i": i, "api": api})
        sys.stderr.write(MARK + "END %d\n" % i); sys.stderr.flush()
    say("BYE", {})
    return 0

# ------------------------------------------------------------------ parent: running children

def run_child(items, timeout):
    """one child over `items` = [(i, case)]; returns (records, died_at)"""
    inp = "".join(json.dumps({"i": i, "case": c}, separators=(",", ":"), default=str) + "\n" for i, c in items)
    try:
        r = subprocess.run(["/venv/bin/python", "-u", "-m", "harness.c17", "--child"], input=inp, capture_output=True,
                           text=True, cwd=common.ROOT, env=asan_env(asan_dir()),
                           timeout=timeout)
    except subprocess.TimeoutExpired:
        raise common.Infra("sanitised child timed out after %ds" % timeout)
    recs, order, bye = {}, [], False
    for line in r.stdout.splitlines():
        if not line.startswith(MARK):
            continue
        tag, _, rest = line[len(MARK):].partition(" ")
        if tag == "FATAL":
            raise common.Infra("child: " + rest)
        if tag == "BYE":
            bye = True; continue
        o = json.loads(rest)
        if tag == "BEGIN":
            recs[o["i"]] = {"call": None, "out": None, "api": None, "san": "", "calls": []}; order.append(o["i"])
        elif tag == "CALL":
            i = o.pop("i"); k = o.pop("k", None); recs[i]["call"] = o
            recs[i]["calls"].append({"k": k, "call": o, "out": None})
        elif tag == "OUT":
            recs[o["i"]]["out"] = o["out"]
            if recs[o["i"]]["calls"]:
                recs[o["i"]]["calls"][-1]["out"] = o["out"]
        elif tag == "RES":
            recs[o["i"]]["api"] = o["api"]
    seg, curi = {}, None
    for line in r.stderr.splitlines():
        if line.startswith(MARK):
            p = line[len(MARK):].split()
            curi = int(p[1]) if p[0] == "BEGIN" else None
            continue
        if curi is not None:
            seg.setdefault(curi, []).append(line)
        else:
            seg.setdefault(-1, []).append(line)
    for i, lines in seg.items():
        if i in recs:
            recs[i]["san"] = "\n".join(lines)
    cases_by_i = dict(items)
    for i, rec in recs.items():
        c = cases_by_i.get(i) or {}
        if c.get("family") == "anneal" and (c.get("sched") or {}).get("types") and rec["calls"]:
            # family schedtype: the first C call is the typed one (it is the call that is judged), the second its float twin
            rec["call"], rec["out"] = rec["calls"][0]["call"], rec["calls"][0]["out"]
            rec["twin_out"] = rec["calls"][1]["out"] if len(rec["calls"]) > 1 else None
            rec["has_twin"] = len(rec["calls"]) > 1
    died = None
    if not bye:
        unfinished = [i for i in order if recs[i]["api"] is None]
        if unfinished:
            died = unfinished[-1]
            recs[died]["died"] = r.returncode
        elif not order and items:
            raise common.Infra("sanitised child produced nothing (rc=%s): %s" % (r.returncode, r.stderr[-800:]))
        else:
            raise common.Infra("sanitised child ended between cases (rc=%s): %s" % (r.returncode, r.stderr[-800:]))
    return recs, died

def run_history(items, timeout=600, cap=40):
    """the items as ONE history; a child killed by a sanitizer report is restarted after the failing call;
    after `cap` restarts the rest of the history is not run (there are `cap` concrete failing inputs by then)."""
    out, pending, restarts = {}, list(items), 0
    while pending:
        recs, died = run_child(pending, timeout)
        out.update(recs)
        if died is None:
            break
        k = [i for i, _ in pending].index(died)
        pending = pending[k + 1:]
        restarts += 1
        if restarts >= cap:
            for i, _ in pending:
                out[i] = {"call": None, "out": None, "api": None, "san": "", "calls": [], "not_run": True}
            break
    return out, restarts

def san_report(rec):
    """(kind, excerpt) of a sanitizer finding on this call, or None"""
    s = rec.get("san", "")
    hit = [m for m in SAN_MARKS if m in s]
    if not hit and "died" not in rec:
        return None
    lines = s.splitlines()
    head = next((l for l in lines if any(m in l for m in SAN_MARKS)),
                "child died with rc=%s%s" % (rec.get("died"), "".join(": " + l.strip() for l in lines if "Assertion" in l)[:300]))
    acc = next((l.strip() for l in lines if l.strip().startswith(("WRITE of size", "READ of size"))), "")
    frames = [l.strip() for l in lines if l.strip().startswith("#") and ("qubovert" in l or "anneal" in l)][:3]
    kind = "assertion-failed-abort" if (not hit and "Assertion" in s) else "asan"
    for w in ("heap-buffer-overflow", "heap-use-after-free", "double-free", "attempting free", "SEGV", "stack-buffer-overflow",
              "global-buffer-overflow", "signed integer overflow", "runtime error", "requested allocation size",
              "allocation-size-too-big", "bad-free"):
        if w in s:
            kind = w.replace(" ", "-"); break
    return kind, " | ".join([head.strip(), acc] + frames)[:700]

# ------------------------------------------------------------------ model side

def py_wf(call):
    """WF written from DESIGN.md §4 C17 / the docstrings of _canneal.c, independent of the Lean definition"""
    na, init = call["num_anneals"], call["init"]
    I = 2 ** 31 - 1
    spins = all(x in (1, -1) for x in init)
    if call["kind"] == "quso":
        N = len(call["h"])
        return (N >= 1 and len(call["nn"]) == N and all(x >= 0 for x in call["nn"]) and
                sum(call["nn"]) == len(call["J"]) == len(call["nb"]) and all(0 <= x < N for x in call["nb"]) and
                (len(init) == 0 or (len(init) == N and spins)) and na >= 1 and na * N <= I and
                len(call["J"]) <= I and len(call["Ts"]) <= I)
    N = call["N"]
    return (N >= 1 and len(call["nc"]) == len(call["cs"]) and all(x >= 1 for x in call["nc"]) and
            sum(call["nc"]) == len(call["terms"]) and all(0 <= x < N for x in call["terms"]) and
            (len(init) == 0 or (len(init) == N and spins)) and na >= 1 and na * N <= I and
            len(call["terms"]) < I and len(call["Ts"]) <= I)

def model_line(call):
    l = dict(call, op="c17_" + call["kind"], guard=True)
    l["seed"] = max(call["seed"], 0)        # seed < 0: clock seeding; only the verdict is compared
    return l

def d5_shape(call):
    return call is not None and call["kind"] == "puso" and len(call["cs"]) == 0 and call["N"] >= 1

# ------------------------------------------------------------------ generation

def gen_c17(rng, big=False):
    """the shapes named in the property text, as c11-format cases on Matrix / labelled inputs"""
    fn = rng.choice(["quso", "puso", "puso", "qubo", "pubo"])
    deg2 = fn in ("quso", "qubo")
    kind = rng.choice(c11.KINDS[fn])
    if kind in c11.DEG2:
        deg2 = True
    matrix = kind in c11.MATRIX
    shape = rng.choice(["single", "isolated", "gaps", "highdeg", "nocoupling", "cancelled", "dense", "dense"])
    top = rng.randint(9, 40) if big else rng.randint(2, 12)
    ops = []
    C = c11.COEFS
    if shape == "single":
        ids = [rng.randrange(top)]
        ops = [[[ids[0]], rng.choice(C)]]
    elif shape == "nocoupling":
        ids = sorted(rng.sample(range(top), rng.randint(1, min(top, 6))))
        ops = [[[i], rng.choice(C)] for i in ids]
    else:
        ids = sorted(rng.sample(range(top), rng.randint(2, min(top, 14 if big else 7))))
        maxdeg = 2 if deg2 else (min(len(ids), 9) if shape == "highdeg" else 4)
        for _ in range(rng.randint(1, 24 if big else 8)):
            ln = rng.randint(2 if shape == "highdeg" else 1, max(2, maxdeg)) if not deg2 else rng.choice([1, 2, 2])
            ops.append([rng.sample(ids, min(ln, len(ids))), rng.choice(C)])
        if shape == "isolated":
            ops.append([[top + 1], rng.choice(C)])
        if shape == "cancelled" and kind != "dict":
            allc = rng.random() < 0.5
            for k, v in list(ops):
                if allc or rng.random() < 0.5:
                    ops.append([list(k), common.fs(-c11.Fraction(v))])
    if rng.random() < 0.3:
        ops.append([[], rng.choice(C)])
    if kind == "dict":
        seen, o2 = set(), []
        for k, v in ops:
            if tuple(k) not in seen:
                seen.add(tuple(k)); o2.append([k, v])
        ops = o2
    dur = rng.choice([0, 1, 2, 3, 5, 8, 13, 30 if big else 20])
    mode = rng.choice(["zero", "mixed", "hot", "cool"])
    if mode == "zero":
        Ts = [0.0] * dur
    elif mode == "mixed":
        Ts = [rng.choice([0.0, 0.3, 1.0, 2.5, rng.uniform(0.01, 5)]) for _ in range(dur)]
    elif mode == "hot":
        Ts = [rng.uniform(2, 50) for _ in range(dur)]
    else:
        Ts = sorted((rng.uniform(0.01, 8) for _ in range(dur)), reverse=True)
    used = sorted({i for k, _ in ops for i in k})
    spinfn = fn in c11.SPIN_FNS
    init = None
    if rng.random() < 0.5 and used:
        dom = range(max(used) + 1) if matrix else used
        init = [[i, rng.choice([1, -1] if spinfn else [0, 1])] for i in dom]
    return {"family": "anneal", "fn": fn, "kind": kind, "shape": "c17-" + shape, "ops": ops, "labels": "int",
            "num": rng.choice(["int", "frac", "float"]), "sched": {"t": "explicit", "Ts": Ts}, "init": init,
            "in_order": rng.random() < 0.5, "seed": rng.choice([0, 1, rng.randrange(2 ** 31), rng.randrange(2 ** 31), None]),
            "num_anneals": rng.choice([1, 1, 2, 3, 5])}

def d5_cases():
    """regression inputs of the repaired defect D5 (DESIGN.md §10, /repo 958732b) through the public API: N >= 1 but no
    term reaches `c_anneal_puso`; they must run clean under ASan (signature C17:D5-puso-index-write-with-zero-terms)"""
    base = {"family": "anneal", "labels": "int", "num": "int", "init": None, "in_order": True, "seed": 0,
            "sched": {"t": "explicit", "Ts": [1.0, 0.5]}, "num_anneals": 1, "shape": "D5"}
    return [dict(base, fn="puso", kind="PUSOMatrix", ops=[[[0, 1, 2], "1"], [[0, 1, 2], "-1"]]),
            dict(base, fn="puso", kind="PUSO", ops=[[[0], "1"], [[0], "-1"]])]

def direct_cases(full):
    """arguments outside WF handed to the private extension functions; the model must flag each"""
    one, half = bits(1.0), bits(0.5)
    q = {"h": [one, 0, 0], "nn": [1, 2, 1], "nb": [1, 0, 2, 1], "J": [one, one, half, half], "Ts": [one, half],
         "num_anneals": 2, "in_order": True, "init": [], "seed": 1}
    p = {"N": 4, "nc": [2, 3, 1], "terms": [0, 1, 1, 2, 3, 2], "cs": [one, half, one], "Ts": [one, half],
         "num_anneals": 2, "in_order": False, "init": [], "seed": 1}
    out = [("quso-neighbor-eq-N", "quso", dict(q, nb=[1, 0, 3, 1])),
           ("puso-label-eq-N", "puso", dict(p, terms=[0, 1, 1, 2, 4, 2])),
           ("quso-zero-spins", "quso", dict(q, h=[], nn=[], nb=[], J=[]))]

    if full:
        out += [("quso-nn-sum-too-big", "quso", dict(q, nn=[1, 2, 9])),
                ("puso-nc-sum-too-big", "puso", dict(p, nc=[2, 3, 9])),
                ("quso-negative-neighbor", "quso", dict(q, nb=[1, 0, -1, 1])),
                ("puso-negative-label", "puso", dict(p, terms=[0, 1, 1, -1, 3, 2]))]
    res = [{"family": "direct", "name": n, "kind": k, "args": a} for n, k, a in out]
    # D5 regression input, directly: N >= 1 and no term is inside WF since the repair 958732b
    res.append({"family": "direct", "name": "puso-zero-terms-valid", "kind": "puso", "valid": True,
                "args": dict(p, nc=[], terms=[], cs=[])})
    return res

# ------------------------------------------------------------------ the check

def nontrivial(case, rec):
    c = rec.get("call")
    if not c or rec.get("out") is None or not c["Ts"]:
        return False
    if c["kind"] == "quso":
        return len(c["h"]) >= 2 and len(c["J"]) >= 1
    return c["N"] >= 2 and any(x >= 2 for x in c["nc"])

def judge(ctx, case, rec, m, family="api"):
    """one call: sanitizer verdict (the oracle) against the model's verdict; returns True if a finding was recorded"""
    call, rep = rec.get("call"), san_report(rec)
    found = False
    if rep:
        kind, excerpt = rep
        if d5_shape(call) and kind == "heap-buffer-overflow" and "WRITE of size 8" in excerpt:
            sig = "C17:D5-puso-index-write-with-zero-terms"
            why = ("regression of the repaired defect D5 (/repo 958732b): anneal_puso.c writes `index[0]` into "
                   "malloc(num_terms * sizeof(long)) with num_terms == 0; c_anneal_puso was reached with N=%d and no term "
                   "(all terms cancelled). " % call["N"]) + excerpt
        else:
            sig = "C17:sanitizer:" + kind
            why = "sanitizer report during the call (%s): %s" % (
                "C arguments " + json.dumps({k: v for k, v in call.items() if k not in ("Ts",)})[:300] if call else "before the C call",
                excerpt)
        ctx.violation(sig, case, why)
        found = True
    if call is not None and rec.get("has_twin") and not rep:
        api = rec.get("api") or {}
        if rec.get("twin_out") != rec.get("out") or api.get("twin") != api.get("typed"):
            sch = c11.typed_schedule(case["sched"])
            ctx.violation("C17:schedule-entry-type-dependence", case,
                          "anneal_%s(..., schedule=%r, in_order=%s, seed=%r, num_anneals=%d): the C extension returns %s, but for "
                          "the equal schedule %r (every entry == the float it stands for), same seed, same process, it returns "
                          "%s.  The temperature the kernel used is not float(entry): the wrapper read the entry's object memory "
                          "as a C double instead of converting it (an object accessed through the wrong C type is undefined "
                          "behaviour; no sanitizer flags it because the read stays inside the foreign object)"
                          % (case["fn"], list(sch) if not isinstance(sch, (list, tuple)) else sch, case["in_order"], case["seed"],
                             case["num_anneals"], json.dumps(rec.get("out"))[:260], [float(t) for t in case["sched"]["Ts"]],
                             json.dumps(rec.get("twin_out"))[:260]))
            found = True
    if call is None:
        return found
    if m is None:
        return found
    wf = py_wf(call)
    if m.get("wf") != wf:
        ctx.diff("wf", case, {"py_wf": wf, "call": call}, m)
    if not wf and not rep and "memerr" not in m:
        # outside WF, nothing observed, nothing predicted: the front end left the documented argument shape
        ctx.diff("front-end-outside-WF", case, {"call": call}, m)
    if "memerr" in m and not rep:
        ctx.diff("predicted-not-observed", case, {"call": call, "sanitizer": "clean"}, m)
    if "ok" in m and rep:
        ctx.diff("observed-not-predicted", case, {"call": call, "sanitizer": rep[1]}, {"wf": m.get("wf"), "ok": True})
    if "ok" in m and m.get("refines") is not True:
        # the checked model and the unchecked kernel model of C11/C12 (same control flow) must agree whenever the
        # checked one returns
        ctx.diff("refinement", case, {"call": call}, {"refines": m.get("refines")})
    if "ok" in m and not rep and call["seed"] >= 0 and rec.get("out") is not None and m["ok"] != rec["out"]:
        ctx.diff("replay", case, {"out": rec["out"]}, {"ok": m["ok"]})
    return found

def process(ctx, cases, sample_fresh):
    items = list(enumerate(cases))
    hist, restarts = run_history(items, cap=ctx.scale(40, 150))
    ctx.count("children-restarted-after-report", restarts)
    nnot = sum(1 for r in hist.values() if r.get("not_run"))
    if nnot:
        ctx.notes.append("%d calls were not run: the history was cut after %d sanitizer reports" % (nnot, restarts))
    lines, idx = [], []
    for i, c in items:
        rec = hist.get(i)
        if rec and rec.get("call"):
            lines.append(model_line(rec["call"])); idx.append(i)
    models = dict(zip(idx, common.run_driver(lines)))
    good = []
    for i, c in items:
        rec = hist.get(i)
        if rec is None:
            raise common.Infra("case %d was not run" % i)
        if rec.get("not_run"):
            ctx.count("not-run-after-restart-cap"); continue
        ctx.case(c, nontrivial(c, rec))
        call = rec.get("call")
        ctx.count("%s:%s" % (c.get("fn", c.get("kind")), "kernel" if call else "early"))
        ctx.count("shape:" + str(c.get("shape", c["family"])))
        if (c.get("sched") or {}).get("types"):
            for ty in set(c["sched"]["types"]):
                ctx.count("schedtype:entry:" + ty)
            ctx.count("schedtype:%s" % ("twin-compared" if rec.get("has_twin") else "no-C-call"))
        if call:
            ctx.traces += 1
            ctx.count("Ts:" + ("empty" if not call["Ts"] else "zeros" if all(t == 0 for t in call["Ts"]) else "mixed"))
            ctx.count("init:" + ("given" if call["init"] else "random"))
            ctx.count("order:" + ("in" if call["in_order"] else "random"))
        api = rec.get("api") or {}
        if "err" in api:
            ctx.count("api-err:" + api["err"])
        bad = judge(ctx, c, rec, models.get(i))
        if call and not bad and rec.get("out") is not None and call["seed"] >= 0:
            good.append(i)
    # later calls unaffected by earlier ones: fresh-process runs and a reversed history
    pick = good if len(good) <= sample_fresh else ctx.rng.sample(good, sample_fresh)
    for i in pick:
        recs, _ = run_child([(i, cases[i])], 120)
        ctx.count("fresh")
        if recs[i].get("out") != hist[i]["out"] or recs[i].get("api") != hist[i]["api"]:
            ctx.diff("fresh", cases[i], {"history": hist[i]["out"], "api": hist[i]["api"]},
                     {"fresh": recs[i].get("out"), "api": recs[i].get("api")})
            ctx.violation("C17:history-dependence", cases[i],
                          "the call returns %r inside a history of %d calls but %r in a fresh process"
                          % (hist[i]["out"], len(cases), recs[i].get("out")))
        judge(ctx, cases[i], recs[i], None)
    rev = [(i, cases[i]) for i in reversed(good[: 8 * sample_fresh])]
    if rev:
        recs, _ = run_history(rev)
        for i, _c in rev:
            ctx.count("reordered")
            if recs[i].get("out") != hist[i]["out"]:
                ctx.diff("reorder", cases[i], {"history": hist[i]["out"]}, {"reversed": recs[i].get("out")})
                ctx.violation("C17:history-dependence", cases[i],
                              "the call returns %r in one history and %r in the reversed history"
                              % (hist[i]["out"], recs[i].get("out")))
            judge(ctx, cases[i], recs[i], None)

# ------------------------------------------------------------------ family `objhist`: histories on one object

HIST_KINDS = {"PUSOMatrix": ["puso"], "QUSOMatrix": ["quso", "puso"], "PUBOMatrix": ["pubo"], "QUBOMatrix": ["qubo", "pubo"],
              "PUSO": ["puso"], "QUSO": ["quso", "puso"], "PCSO": ["puso"], "PUBO": ["pubo"], "QUBO": ["qubo", "pubo"],
              "PCBO": ["pubo"]}

def _anneal_step(rng, fn, dom, give_init=None):
    dur = rng.choice([0, 1, 2, 3, 5, 8])
    Ts = [rng.choice([0.0, 0.5, 1.0, 2.5]) for _ in range(dur)]
    spin = fn in c11.SPIN_FNS
    if give_init is None:
        give_init = rng.random() < 0.4
    # the initial state covers every label the history can ever use (a superset of the variables is a valid argument)
    init = [[i, rng.choice([1, -1] if spin else [0, 1])] for i in dom] if give_init else None
    return {"op": "anneal", "fn": fn, "num_anneals": rng.choice([1, 1, 2, 3]), "Ts": Ts, "in_order": rng.random() < 0.5,
            "seed": rng.randrange(2 ** 31), "init": init}

def gen_objhist(rng, big=False):
    kind = rng.choice(["PUSOMatrix"] * 4 + ["QUSOMatrix"] * 3 + ["PUBOMatrix", "QUBOMatrix", "PUSO", "QUSO", "PCSO", "PUBO",
                                                                  "QUBO", "PCBO"])
    fns = HIST_KINDS[kind]
    deg2 = kind in c11.DEG2
    matrix = kind in c11.MATRIX
    top = rng.randint(12, 40) if big else rng.randint(5, 14)
    dom = list(range(top))
    C = c11.COEFS
    lo = rng.randint(1, max(1, top // 3))            # the first phase only uses labels < lo
    def key(pool, maxdeg):
        ln = rng.randint(1, max(1, min(maxdeg, len(pool))))
        return sorted(rng.sample(pool, ln))
    maxdeg = 2 if deg2 else rng.choice([3, 4, 6])
    steps = []
    def edits(pool, n):
        for _ in range(n):
            steps.append({"op": rng.choice(["set", "iadd", "iadd"]), "key": key(pool, maxdeg), "v": rng.choice(C)})
    def reads():
        for a in rng.sample(["max_index", "num_binary_variables", "variables", "degree"], rng.randint(0, 3)):
            if a == "max_index" and not matrix:
                continue
            steps.append({"op": "read", "attr": a})
    pool = dom[:lo]
    edits(pool, rng.randint(1, 4))
    for phase in range(rng.randint(2, 4)):
        reads()
        steps.append(_anneal_step(rng, rng.choice(fns), dom))
        r = rng.random()
        if r < 0.55:                                   # growth in place: new, larger labels
            hi = min(top, len(pool) + rng.randint(1, max(1, top // 2)))
            new = dom[len(pool):hi] or dom
            pool = dom[:hi]
            for _ in range(rng.randint(1, 3)):
                k = sorted(set(key(pool, maxdeg - 1 if maxdeg > 1 else 1) + [rng.choice(new)]))[:maxdeg]
                steps.append({"op": rng.choice(["set", "iadd"]), "key": k, "v": rng.choice(C)})
        elif r < 0.7:                                  # cancellation of existing terms (bookkeeping goes stale)
            for st in [x for x in steps if x["op"] in ("set", "iadd")][-rng.randint(1, 3):]:
                steps.append({"op": "cancel", "key": st["key"]})
        elif r < 0.8:
            steps.append({"op": "imul", "c": rng.choice(["2", "-1", "1/2", "0"])})
        elif r < 0.87:
            steps.append({"op": "imul_poly", "terms": [[[rng.choice(pool)], rng.choice(C)], [[], rng.choice(C)]]})
        elif r < 0.93:
            steps.append({"op": "refresh"})
        else:
            steps.append({"op": "clear"})
            pool = dom[:rng.randint(1, top)]
            edits(pool, rng.randint(1, 3))
        if rng.random() < 0.3:
            steps.append({"op": "iadd_poly", "terms": [[key(pool, maxdeg), rng.choice(C)] for _ in range(rng.randint(1, 3))]})
    reads()
    steps.append(_anneal_step(rng, rng.choice(fns), dom))
    return {"family": "objhist", "kind": kind, "labels": "int" if matrix else rng.choice(c11.Labels.STYLES),
            "num": rng.choice(["int", "frac", "float"]), "steps": steps}

def fixed_objhist():
    """the shapes a cached / stale size would break: evaluate the size (by an anneal or a read), grow in place, anneal"""
    import random
    r = random.Random(17)
    dom = list(range(8))
    out = []
    for kind, fn, reader in (("PUSOMatrix", "puso", "anneal"), ("PUSOMatrix", "puso", "max_index"),
                             ("QUSOMatrix", "puso", "anneal"), ("QUSOMatrix", "quso", "max_index"),
                             ("PUSOMatrix", "puso", "num_binary_variables"), ("PUSO", "puso", "anneal"),
                             ("QUSO", "quso", "anneal"), ("PUBOMatrix", "pubo", "anneal")):
        deg2 = kind in c11.DEG2
        steps = [{"op": "set", "key": [0, 1], "v": "1"}, {"op": "set", "key": [1, 2], "v": "-1"}]
        steps.append(_anneal_step(r, fn, dom, False) if reader == "anneal" else {"op": "read", "attr": reader})
        steps += [{"op": "set", "key": [2, 5] if deg2 else [2, 4, 5], "v": "-1"}, {"op": "iadd", "key": [6], "v": "2"}]
        steps.append(_anneal_step(r, fn, dom, False))
        steps.append(_anneal_step(r, fn, dom, True))
        steps += [{"op": "cancel", "key": [6]}, {"op": "refresh"}, _anneal_step(r, fn, dom, False),
                  {"op": "clear"}, {"op": "set", "key": [3], "v": "1"}, _anneal_step(r, fn, dom, True)]
        out.append({"family": "objhist", "kind": kind, "labels": "int", "num": "int", "steps": steps})
    return out

SPIN_KINDS = {"PUSOMatrix", "QUSOMatrix", "PUSO", "QUSO", "PCSO"}

def gen_swaphist(rng, big=False):
    """family `swap` (a kind of `objhist`): several rounds on ONE object — anneal, then REPLACE the variable set in place, then
    anneal again.  The replacement V -> V' is drawn from a grid: number of variables (same / more / fewer) x maximum label
    (larger / smaller / same), always with other labels than before, and carried out in one of the ways the API offers:
    clear() + refill; cancelling every term (`H[k] -= H[k]`: the entries go, the bookkeeping stays) + refresh() + refill;
    cancelling without refresh; `H *= 0` + refill; `H *= {key: c}` (spin types: the product with a monomial over V xor V' IS
    the relabelled term; boolean types: it adds labels).  Whatever the object remembers from the first anneal (sizes, maxima,
    counts, enumerations, a cache keyed on anything that happens to coincide) meets a different variable set in the second."""
    kind = rng.choice(["PUSOMatrix"] * 4 + ["QUSOMatrix"] * 3 + ["PUBOMatrix"] * 2 + ["QUBOMatrix"] * 2 +
                      ["PUSO", "QUSO", "PCSO", "PUBO", "QUBO", "PCBO"])
    fns = HIST_KINDS[kind]
    deg2 = kind in c11.DEG2
    matrix = kind in c11.MATRIX
    spin = kind in SPIN_KINDS
    top = rng.randint(24, 48) if big else rng.randint(8, 20)
    dom = list(range(top))
    C = c11.COEFS
    nmax = 4 if deg2 else 5

    def cover(V):
        """keys whose labels are exactly V (each label in one key)"""
        V = list(V)
        rng.shuffle(V)
        if not deg2 and len(V) <= 5 and rng.random() < 0.6:
            return [sorted(V)]
        out, size = [], (2 if deg2 else 3)
        while V:
            n = rng.randint(1, size)
            out.append(sorted(V[:n])); V = V[n:]
        return out

    def fill(keys):
        return [{"op": rng.choice(["set", "iadd"]), "key": k, "v": rng.choice(C)} for k in keys]

    def reads():
        out = []
        for a in rng.sample(["max_index", "num_binary_variables", "variables", "degree"], rng.randint(0, 2)):
            if a != "max_index" or matrix:
                out.append({"op": "read", "attr": a})
        return out

    n = rng.randint(1, nmax)
    V = sorted(rng.sample(dom[:max(n, top // 2)], n))
    keys = cover(V)
    steps = fill(keys) + reads() + [_anneal_step(rng, rng.choice(fns), dom)]
    grid = []
    for _ in range(rng.randint(2, 4)):
        cm = rng.choice(["same", "same", "same", "more", "fewer"])
        mm = rng.choice(["larger", "larger", "smaller", "same"])
        n2 = len(V) if cm == "same" else min(nmax + 1, len(V) + rng.randint(1, 2)) if cm == "more" else max(1, len(V) - 1)
        mx = max(V)
        if mm == "larger" and mx + 1 < top:
            m2 = rng.randint(mx + 1, top - 1)
        elif mm == "smaller" and mx > n2 - 1:
            m2 = rng.randint(n2 - 1, mx - 1)
        else:
            m2 = mx
        m2 = max(m2, n2 - 1)
        below = [i for i in range(m2) if i not in V]
        if len(below) < n2 - 1:
            below = list(range(m2))
        V2 = sorted(rng.sample(below, n2 - 1) + [m2])
        way = rng.choice(["clear", "clear", "cancel+refresh", "cancel", "zero", "monomial"])
        if way == "monomial" and not (len(keys) == 1 and (spin or set(V) < set(V2))):
            way = "clear"
        if way == "clear":
            keys = cover(V2)
            steps += [{"op": "clear"}] + fill(keys)
        elif way in ("cancel+refresh", "cancel"):
            steps += [{"op": "cancel", "key": k} for k in keys]
            if way == "cancel+refresh":
                steps.append({"op": "refresh"})
            keys = cover(V2)
            steps += fill(keys)
            if way == "cancel" and rng.random() < 0.5:
                steps.append({"op": "refresh"})
        elif way == "zero":
            steps.append({"op": "imul", "c": "0"})
            if rng.random() < 0.5:
                steps.append({"op": "refresh"})
            keys = cover(V2)
            steps += fill(keys)
        else:
            # one term over V times one monomial: spin labels met twice cancel, boolean labels merge
            ko = sorted(set(V) ^ set(V2)) if spin else sorted(set(V2) - set(V))
            steps.append({"op": "imul_poly", "terms": [[ko, rng.choice(["1", "-1", "2", "-3"])]]})
            keys = [V2]
        rel = lambda a, b, names: names[0] if a == b else names[1] if a > b else names[2]
        grid.append("%s/%s/%s" % (way, rel(len(V2), len(V), ("same", "more", "fewer")), rel(max(V2), max(V), ("same", "larger", "smaller"))))
        V = V2
        steps += reads()
        for fn in rng.sample(fns, rng.randint(1, len(fns))):
            steps.append(_anneal_step(rng, fn, dom))
    return {"family": "objhist", "shape": "swap", "kind": kind, "labels": "int" if matrix else rng.choice(c11.Labels.STYLES),
            "num": rng.choice(["int", "frac", "float"]), "steps": steps, "grid": grid}

def process_objhist(ctx, cases):
    items = list(enumerate(cases))
    hist, restarts = run_history(items, cap=ctx.scale(40, 150))
    ctx.count("objhist-children-restarted-after-report", restarts)
    lines, where = [], []
    for i, c in items:
        for j, cl in enumerate(hist[i].get("calls", [])):
            lines.append(model_line(cl["call"])); where.append((i, j))
    models = dict(zip(where, common.run_driver(lines)))
    for i, c in items:
        rec = hist[i]
        if rec.get("not_run"):
            ctx.count("not-run-after-restart-cap"); continue
        calls = rec.get("calls", [])
        n_anneal = sum(1 for s in c["steps"] if s["op"] == "anneal")
        ctx.case(c, len(calls) >= 2)
        ctx.count("objhist:" + c["kind"])
        if c.get("shape") == "swap":
            ctx.count("objhist-swap")
            for g in c.get("grid", []):
                ctx.count("swap:" + g)
        ctx.count("objhist-C-calls", len(calls)); ctx.count("objhist-anneal-steps", n_anneal)
        for st in ((rec.get("api") or {}).get("steps") or []):
            if "err" in st:
                ctx.count("objhist-step-err:%s:%s" % (c["steps"][st["k"]]["op"], st["err"]))
        rep_case = san_report(rec)
        blamed = False
        for j, cl in enumerate(calls):
            ctx.traces += 1
            unfinished = cl["out"] is None and (rep_case is not None) and j == len(calls) - 1
            pseudo = {"call": cl["call"], "out": cl["out"], "san": rec.get("san", "") if unfinished else ""}
            if unfinished and "died" in rec:
                pseudo["died"] = rec["died"]
            # (the history is reported up to the call that did not return)
            sub = dict(c, steps=c["steps"][:cl["k"] + 1], failing_step=cl["k"]) if unfinished and cl["k"] is not None else c
            if judge(ctx, sub, pseudo, models.get((i, j))):
                blamed = True
        if rep_case and not blamed:
            # a report that is not attached to an unfinished C call (non-fatal UBSan message, or a crash outside the kernel)
            ctx.violation("C17:sanitizer:" + rep_case[0], c, "sanitizer report during the history: " + rep_case[1])

def process_direct(ctx, cases):
    lines = [model_line(dict(c["args"], kind=c["kind"])) for c in cases]
    models = common.run_driver(lines)
    for c, m in zip(cases, models):
        recs, _ = run_child([(0, c)], 120)
        rep = san_report(recs[0])
        ctx.case(c, False); ctx.count("direct:" + c["name"])
        if c.get("valid"):
            # arguments inside WF handed directly to the extension (the D5 regression input): ok on both sides
            judge(ctx, c, recs[0], m)
            continue
        if "memerr" not in m or m.get("wf"):
            ctx.diff("direct", c, {"expected": "MemErr and not wf"}, m)
        if not rep:
            ctx.diff("direct-predicted-not-observed", c, {"sanitizer": "clean", "api": recs[0].get("api")}, m)
        else:
            ctx.count("direct-confirmed:" + rep[0])

def check(ctx):
    rng = ctx.rng
    asan_dir()
    cases = d5_cases() + [c for c in c11.fixed_cases()]
    n_c11, n_c17, n_big, n_k = ctx.scale(260, 15000), ctx.scale(220, 12000), ctx.scale(30, 1800), ctx.scale(60, 3600)
    for _ in range(n_c11):
        c = c11.gen_case(rng)
        if c["num_anneals"] <= 0 and rng.random() < 0.8:
            c["num_anneals"] = rng.choice([1, 2, 3])
        cases.append(c)
    cases += [gen_c17(rng) for _ in range(n_c17)]
    cases += [gen_c17(rng, big=True) for _ in range(n_big)]
    cases += [c11.gen_kernel_case(rng) for _ in range(n_k)]
    # family schedtype: C11 / C17 shapes with explicit schedules whose entries are numbers that are not Python floats
    for _ in range(ctx.scale(120, 6000)):
        c = c11.gen_case(rng) if rng.random() < 0.5 else gen_c17(rng)
        if c["num_anneals"] <= 0:
            c["num_anneals"] = rng.choice([1, 2, 3])
        if c["seed"] is None:
            c["seed"] = rng.randrange(2 ** 31)
        c["sched"] = c11.gen_typed_schedule(rng, 20)
        c["shape"] = "schedtype"
        cases.append(c)
    head, tail = cases[:2], cases[2:]
    rng.shuffle(tail)
    process(ctx, head + tail, ctx.scale(6, 40))
    hists = fixed_objhist() + [gen_objhist(rng) for _ in range(ctx.scale(70, 2500))]
    hists += [gen_objhist(rng, big=True) for _ in range(ctx.scale(10, 300))]
    hists += [gen_swaphist(rng) for _ in range(ctx.scale(70, 2500))]
    hists += [gen_swaphist(rng, big=True) for _ in range(ctx.scale(20, 600))]
    process_objhist(ctx, hists)
    process_direct(ctx, direct_cases(ctx.tier == "thorough"))

def replay(ctx, payload):
    c = payload.get("case") or (payload.get("first_difference") or {}).get("case")
    if not c:
        ctx.notes.append("replay file has no case; re-running the full check")
        return check(ctx)
    asan_dir()
    if c.get("family") == "direct":
        return process_direct(ctx, [c])
    if c.get("family") == "objhist":
        c = {k: v for k, v in c.items() if k != "failing_step"}
        return process_objhist(ctx, [c])
    process(ctx, [c], 1)

if __name__ == "__main__":
    if "--child" in sys.argv:
        sys.exit(_child_main())
