"""C13 — AnnealResults keeps `best` equal to the minimum under every list operation.

Families:
  tree   exhaustive: every operation sequence of length <= 3 (quick) / <= 4 (thorough) over a fixed alphabet,
         from several initial collections (empty, singleton, duplicated values, spin results), compared node
         by node with the Lean machine (`Qv.Res.step impl`)
  seq    random sequences of length <= 15 with random operands (indices, slices, operand collections,
         user functions), incl. a stream with ill-typed states (conversion KeyError path)
  inf    values from the extended rationals Q u {+inf, -inf} (`float('inf')` is the usual tag of an infeasible state),
         ties between infinite values and huge finite values (+-2^80), on every path that recomputes `best`
         (pop / remove of the best, item and slice assignment and deletion) and through the derived collections:
         `inftree` = every sequence of length <= 3 over 22 core operations + 17 operations with infinite / huge
         operands from 4 initial collections in which +inf / -inf / ties occur; `infseq` = random sequences in which
         most values are infinite (so that "every remaining value is +inf" is reached); and 12% infinite / huge values
         in the ordinary `seq` stream.  NaN is excluded: `x < nan` and `nan < x` are both False, so "an element with
         the smallest value" is not defined on a collection holding a NaN and the property states nothing there.

Two collections are kept (`cur`, the receiver, and `aux`, a second AnnealResults object that serves as
operand of extend / += / +), so that operands with their own history occur.

Direct oracle (written from the property text, shares nothing with the Lean model), after each step:
  (a) `best is None` iff the collection is empty, otherwise best is an element (==) of least value;
  (b) no exception where a plain `list` holding the same elements accepts the same call (decided by running
      the call on a shadow plain list); operations without list counterpart must not raise at all (except the
      conversions on states outside their domain);
  (c) derived collections are AnnealResults and leave the receiver untouched;
  (d) to_boolean / to_spin keep values, set the flag, and are mutually inverse on states;
  (e) sort orders by value and permutes.
A violation is attributed to the operation that turns a state satisfying (a) into one that does not (or
that raises from such a state); its signature names that operation and the kind of failure, so a different
root cause gets a different signature.  The seven defects repaired upstream (fix: commits 98630c1, 99d9853,
0225de2) keep their signatures — C13:setitem-stale-best, C13:delitem-stale-best, C13:slice-assign-stale-best,
C13:slice-delete-stale-best, C13:extend-with-empty-AnnealResults, C13:iadd-with-empty-AnnealResults,
C13:rmul-returns-plain-list — so a relapse is reported under the same name; their minimal histories are the
regression inputs corpus/C13/*.json (run first on every check).
"""
import json
from fractions import Fraction
from . import common
from .common import exc_name

CEXT = "plain"
RULE = ("operation histories on AnnealResults: all sequences of length <=3 over a 61-operation alphabet (thorough: "
        "also length <=4 over its 35-operation core) from 5 initial collections (<=3 results, duplicated values, empty operands), "
        "all sequences of length <=3 over 22 core operations + 17 operations with +inf / -inf / +-2^80 operands from 4 initial collections "
        "holding infinite values and ties, plus "
        "random sequences of length <=15 with random operands (12% infinite / huge values; a second stream with 70%); a history is non-trivial when some step changes "
        "the best value / emptiness or raises; distinct = distinct (initial collection, sequence) JSON")
ASSUMPTIONS = [
    "states are dicts with int labels, compared as label-sorted association lists; values are int / Fraction / "
    "dyadic float (exact) / float('inf') / -float('inf'); NaN values are outside the property (no least element)",
    "user functions passed to filter / filter_states / apply_function / convert_states are drawn from a small "
    "named family (the Lean theorems quantify over arbitrary functions)",
    "`res *= n` is modelled as `res = res * n` (Python resolves it to AnnealResults.__mul__); object identity / "
    "aliasing between collections is not modelled (AnnealResult.__eq__ is structural)",
]

# ------------------------------------------------------------------ results pool / alphabet

A = [[[0, 0], [1, 1]], "1", False]
B = [[[0, 1], [1, 1]], "2", False]
C = [[[0, 1], [1, 0]], "1", False]       # same value as A, different state
Z = [[[0, 0], [1, 0]], "0", False]       # a new minimum
S = [[[0, 1], [1, -1]], "1", True]       # spin result
H = [[[0, 1]], "1/2", False]
N = [[[0, -1], [1, 1]], "-1", True]
# the extended values: +inf (two different states), -inf, huge finite values (2^80: exact as int, Fraction and float)
P = [[[0, 1], [1, 0]], "inf", False]
P2 = [[[0, 0], [1, 0]], "inf", False]
PS = [[[0, -1], [1, 1]], "inf", True]
M = [[[0, 1], [1, 1]], "-inf", False]
HUGE = str(2 ** 80)
HG = [[[0, 0]], HUGE, False]
HN = [[[0, 1]], "-" + HUGE, False]

INITS = [[], [A], [B, A], [A, B, C], [S, Z, S]]

def sl(a=None, b=None, c=None):
    return [a, b, c]

CORE = [
    {"o": "append", "r": Z}, {"o": "append", "r": B}, {"o": "add_state", "r": C},
    {"o": "insert", "i": 0, "r": Z}, {"o": "insert", "i": -1, "r": B},
    {"o": "remove", "r": A}, {"o": "remove", "r": Z},
    {"o": "pop", "i": 0}, {"o": "pop", "i": -1},
    {"o": "extend_list", "l": [Z, B]}, {"o": "extend_ar", "l": []}, {"o": "extend_ar", "l": [A]},
    {"o": "extend_aux"},
    {"o": "iadd_ar", "l": [Z]}, {"o": "iadd_ar", "l": []}, {"o": "iadd_list", "l": []},
    {"o": "add", "l": [C]}, {"o": "mul", "i": 2}, {"o": "imul", "i": 0}, {"o": "rmul", "i": 2},
    {"o": "getslice", "sl": sl(1)},
    {"o": "setitem", "i": 0, "r": B}, {"o": "setitem", "i": -1, "r": Z}, {"o": "delitem", "i": 0},
    {"o": "setslice", "sl": sl(0, 1), "l": [B]}, {"o": "setslice", "sl": sl(None, 0), "l": [Z]},
    {"o": "delslice", "sl": sl(None, 1)}, {"o": "delslice", "sl": sl(None, None, 2)},
    {"o": "clear"}, {"o": "sort"}, {"o": "copy"},
    {"o": "filter", "f": "value_gt", "c": "1"}, {"o": "apply_function", "f": "neg"},
    {"o": "swap"}, {"o": "stash"},
]
EXTRA = [
    {"o": "insert", "i": 7, "r": A}, {"o": "pop", "i": 1}, {"o": "getitem", "i": 1},
    {"o": "extend_self"}, {"o": "iadd_self"}, {"o": "iadd_aux"}, {"o": "add_aux"},
    {"o": "getslice", "sl": sl(None, None, -1)}, {"o": "setslice", "sl": sl(None, None, -1), "l": [Z, B]},
    {"o": "setslice", "sl": sl(None, None, 0), "l": []}, {"o": "delslice", "sl": sl(-1, None, -1)},
    {"o": "sort", "rev": True}, {"o": "reverse"},
    {"o": "filter_states", "f": "has", "k": 0, "v": 1}, {"o": "convert_states", "f": "relabel", "k": 1},
    {"o": "to_boolean"}, {"o": "to_spin"}, {"o": "construct", "l": [B, Z]}, {"o": "mul", "i": -1},
    {"o": "mul", "i": 0}, {"o": "rmul", "i": 0}, {"o": "rmul", "i": -1},
    # one-shot iterables (generators) as operands: a plain list consumes them exactly once
    {"o": "extend_iter", "l": [Z, B]}, {"o": "iadd_iter", "l": [B, Z]}, {"o": "extend_iter", "l": []},
    {"o": "setslice_iter", "sl": sl(1, None), "l": [Z]},
]

# the `inf` tree: initial collections in which removing / replacing the best leaves only infinite values (or ties of them)
INF_INITS = [[A, P], [P, A, P2], [M, P, M], [HG, PS, HN]]
INF_OPS = [
    {"o": "append", "r": P}, {"o": "append", "r": M}, {"o": "add_state", "r": P2}, {"o": "insert", "i": 0, "r": P},
    {"o": "remove", "r": P}, {"o": "remove", "r": M},
    {"o": "setitem", "i": 0, "r": P}, {"o": "setitem", "i": -1, "r": P2}, {"o": "setitem", "i": 0, "r": M},
    {"o": "setslice", "sl": sl(0, 1), "l": [P]}, {"o": "setslice", "sl": sl(None, None, 2), "l": [P2]},
    {"o": "extend_ar", "l": [P]}, {"o": "iadd_ar", "l": [M]}, {"o": "extend_list", "l": [P, HG]},
    {"o": "apply_function", "f": "setvalue", "c": "inf"}, {"o": "apply_function", "f": "penalise", "k": 0, "v": 1},
    {"o": "filter", "f": "value_gt", "c": HUGE},
]

# the part of the core alphabet that goes into the `inf` tree (one representative per kind of operation)
INF_CORE = [op for op in CORE if op in (
    {"o": "append", "r": Z}, {"o": "insert", "i": 0, "r": Z}, {"o": "remove", "r": A}, {"o": "pop", "i": 0}, {"o": "pop", "i": -1},
    {"o": "extend_aux"}, {"o": "iadd_ar", "l": [Z]}, {"o": "add", "l": [C]}, {"o": "mul", "i": 2}, {"o": "getslice", "sl": sl(1)},
    {"o": "setitem", "i": 0, "r": B}, {"o": "delitem", "i": 0}, {"o": "setslice", "sl": sl(0, 1), "l": [B]},
    {"o": "delslice", "sl": sl(None, 1)}, {"o": "delslice", "sl": sl(None, None, 2)}, {"o": "clear"}, {"o": "sort"},
    {"o": "copy"}, {"o": "filter", "f": "value_gt", "c": "1"}, {"o": "apply_function", "f": "neg"}, {"o": "swap"},
    {"o": "stash"})]

# ------------------------------------------------------------------ implementation side

INF = float("inf")

def num(s, style="frac"):
    if s == "inf":
        return INF
    if s == "-inf":
        return -INF
    f = Fraction(s)
    if style == "float" and (f.denominator & (f.denominator - 1)) == 0:
        return float(f)
    if f.denominator == 1:
        return int(f)
    return f

def vs(v):
    if isinstance(v, int):
        return str(v)
    if isinstance(v, float) and v in (INF, -INF):
        return "inf" if v > 0 else "-inf"
    f = Fraction(v)
    return str(f.numerator) if f.denominator == 1 else "%d/%d" % (f.numerator, f.denominator)

class Impl:
    """the real classes, plus the named user-function families"""
    def __init__(self, style="frac"):
        from qubovert.sim import AnnealResult, AnnealResults
        self.R, self.AR, self.style = AnnealResult, AnnealResults, style
        self._cache = {}

    def mk(self, rj):
        # one AnnealResult object per use (no sharing between operands)
        return self.R({k: v for k, v in rj[0]}, num(rj[1], self.style), rj[2])

    def mkl(self, lj):
        return [self.mk(r) for r in lj]

    def clone(self, x):
        y = self.AR()
        list.extend(y, x)
        y.best = x.best
        return y

    def result_pred(self, op):
        f = op["f"]
        if f == "value_le":
            c = num(op["c"]); return lambda r: r.value <= c
        if f == "value_gt":
            c = num(op["c"]); return lambda r: r.value > c
        if f == "spin": return lambda r: r.spin
        if f == "nospin": return lambda r: not r.spin
        if f == "all": return lambda r: True
        if f == "none": return lambda r: False
        raise ValueError(f)

    def state_pred(self, op):
        f = op["f"]
        if f == "has":
            k, v = op["k"], op["v"]; return lambda st: k in st and st[k] == v
        if f == "len_le":
            k = op["k"]; return lambda st: len(st) <= k
        if f == "all": return lambda st: True
        if f == "none": return lambda st: False
        raise ValueError(f)

    def result_fn(self, op):
        f, R = op["f"], self.R
        if f == "neg": return lambda r: R(r.state, -r.value, r.spin)
        if f == "shift":
            c = num(op["c"]); return lambda r: R(r.state, r.value + c, r.spin)
        if f == "setvalue":
            c = num(op["c"]); return lambda r: R(r.state, c, r.spin)
        if f == "square": return lambda r: R(r.state, r.value * r.value, r.spin)
        if f == "penalise":      # tag the states holding k = v as infeasible
            k, v = op["k"], op["v"]; return lambda r: R(r.state, INF if r.state.get(k) == v else r.value, r.spin)
        if f == "id": return lambda r: r
        raise ValueError(f)

    def state_fn(self, op):
        f = op["f"]
        if f == "relabel":
            k = op["k"]; return lambda st: {kk + k: v for kk, v in st.items()}
        if f == "drop":
            k = op["k"]; return lambda st: {kk: v for kk, v in st.items() if kk != k}
        if f == "id": return lambda st: dict(st)
        raise ValueError(f)

def pyslice(s):
    return slice(s[0], s[1], s[2])

MUTATORS = {"append", "add_state", "insert", "remove", "pop", "extend_list", "extend_ar", "extend_self",
            "extend_aux", "iadd_list", "iadd_ar", "iadd_self", "iadd_aux", "setitem", "delitem", "setslice",
            "delslice", "clear", "sort", "reverse", "extend_iter", "iadd_iter", "setslice_iter"}
DERIVED = {"construct", "add", "add_aux", "mul", "imul", "rmul", "getslice", "copy", "filter", "filter_states",
           "apply_function", "convert_states", "to_boolean", "to_spin"}
NO_LIST_COUNTERPART = {"filter", "filter_states", "apply_function", "convert_states", "to_boolean", "to_spin",
                       "add_state", "construct", "stash", "swap"}

def call(I, op, cur, aux):
    """perform the operation through the public API.  Returns (cur', aux', returned element, derived object or None).
    Raises whatever the code raises."""
    o = op["o"]
    if o == "construct":
        d = I.AR(iter(I.mkl(op["l"]))); return d, aux, None, d
    if o == "append":
        cur.append(I.mk(op["r"])); return cur, aux, None, None
    if o == "add_state":
        r = op["r"]; cur.add_state({k: v for k, v in r[0]}, num(r[1], I.style), r[2]); return cur, aux, None, None
    if o == "insert":
        cur.insert(op["i"], I.mk(op["r"])); return cur, aux, None, None
    if o == "remove":
        cur.remove(I.mk(op["r"])); return cur, aux, None, None
    if o == "pop":
        return cur, aux, cur.pop(op["i"]), None
    if o == "getitem":
        return cur, aux, cur[op["i"]], None
    if o == "extend_list":
        cur.extend(I.mkl(op["l"])); return cur, aux, None, None
    if o == "extend_iter":
        cur.extend(x for x in I.mkl(op["l"])); return cur, aux, None, None
    if o == "iadd_iter":
        c0 = cur; cur += (x for x in I.mkl(op["l"])); assert cur is c0; return cur, aux, None, None
    if o == "setslice_iter":
        cur[pyslice(op["sl"])] = (x for x in I.mkl(op["l"])); return cur, aux, None, None
    if o == "extend_ar":
        cur.extend(I.AR(I.mkl(op["l"]))); return cur, aux, None, None
    if o == "extend_self":
        cur.extend(cur); return cur, aux, None, None
    if o == "extend_aux":
        cur.extend(aux); return cur, aux, None, None
    if o == "iadd_list":
        c0 = cur; cur += I.mkl(op["l"]); assert cur is c0; return cur, aux, None, None
    if o == "iadd_ar":
        c0 = cur; cur += I.AR(I.mkl(op["l"])); assert cur is c0; return cur, aux, None, None
    if o == "iadd_self":
        c0 = cur; cur += cur; assert cur is c0; return cur, aux, None, None
    if o == "iadd_aux":
        c0 = cur; cur += aux; assert cur is c0; return cur, aux, None, None
    if o == "add":
        d = cur + (I.mkl(op["l"]) if op.get("plain") else I.AR(I.mkl(op["l"]))); return d, aux, None, d
    if o == "add_aux":
        d = cur + aux; return d, aux, None, d
    if o == "mul":
        d = cur * op["i"]; return d, aux, None, d
    if o == "imul":
        d = cur; d *= op["i"]; return d, aux, None, d
    if o == "rmul":
        d = op["i"] * cur; return d, aux, None, d
    if o == "getslice":
        d = cur[pyslice(op["sl"])]; return d, aux, None, d
    if o == "setitem":
        cur[op["i"]] = I.mk(op["r"]); return cur, aux, None, None
    if o == "delitem":
        del cur[op["i"]]; return cur, aux, None, None
    if o == "setslice":
        cur[pyslice(op["sl"])] = I.mkl(op["l"]); return cur, aux, None, None
    if o == "delslice":
        del cur[pyslice(op["sl"])]; return cur, aux, None, None
    if o == "clear":
        cur.clear(); return cur, aux, None, None
    if o == "sort":
        if op.get("rev"): cur.sort(reverse=True)
        else: cur.sort()
        return cur, aux, None, None
    if o == "reverse":
        cur.reverse(); return cur, aux, None, None
    if o == "copy":
        d = cur.copy(); return d, aux, None, d
    if o == "filter":
        d = cur.filter(I.result_pred(op)); return d, aux, None, d
    if o == "filter_states":
        d = cur.filter_states(I.state_pred(op)); return d, aux, None, d
    if o == "apply_function":
        d = cur.apply_function(I.result_fn(op)); return d, aux, None, d
    if o == "convert_states":
        d = cur.convert_states(I.state_fn(op)); return d, aux, None, d
    if o == "to_boolean":
        d = cur.to_boolean(); return d, aux, None, d
    if o == "to_spin":
        d = cur.to_spin(); return d, aux, None, d
    if o == "swap":
        return aux, cur, None, None
    if o == "stash":
        return cur, cur.copy(), None, None
    raise ValueError("unknown op " + o)

def shadow_raises(I, op, items, aux_items):
    """the same call on a plain list of the same elements: the exception it raises, or None"""
    o = op["o"]
    l = list(items)
    try:
        if o == "remove": l.remove(I.mk(op["r"]))
        elif o == "pop": l.pop(op["i"])
        elif o == "getitem": l[op["i"]]
        elif o == "insert": l.insert(op["i"], I.mk(op["r"]))
        elif o == "append": l.append(I.mk(op["r"]))
        elif o in ("extend_list", "extend_ar"): l.extend(I.mkl(op["l"]))
        elif o == "extend_iter": l.extend(x for x in I.mkl(op["l"]))
        elif o == "iadd_iter": l += (x for x in I.mkl(op["l"]))
        elif o == "setslice_iter": l[pyslice(op["sl"])] = (x for x in I.mkl(op["l"]))
        elif o == "extend_self": l.extend(l)
        elif o == "extend_aux": l.extend(list(aux_items))
        elif o in ("iadd_list", "iadd_ar"): l += I.mkl(op["l"])
        elif o == "iadd_self": l += l
        elif o == "iadd_aux": l += list(aux_items)
        elif o == "add": l + I.mkl(op["l"])
        elif o == "add_aux": l + list(aux_items)
        elif o == "mul": l * op["i"]
        elif o == "imul": l *= op["i"]
        elif o == "rmul": op["i"] * l
        elif o == "getslice": l[pyslice(op["sl"])]
        elif o == "setitem": l[op["i"]] = I.mk(op["r"])
        elif o == "delitem": del l[op["i"]]
        elif o == "setslice": l[pyslice(op["sl"])] = I.mkl(op["l"])
        elif o == "delslice": del l[pyslice(op["sl"])]
        elif o == "clear": l.clear()
        elif o == "sort": l.sort(reverse=bool(op.get("rev")))
        elif o == "reverse": l.reverse()
        elif o == "copy": l.copy()
        else: return None
    except Exception as e:
        return exc_name(e)
    return None

# ------------------------------------------------------------------ canonical observation (same format as Qv.Drv.stepStr)

def rstr(r):
    st = r.state
    return "%s:%d:%s" % (vs(r.value), 1 if r.spin else 0, ",".join(["%d=%d" % (k, st[k]) for k in sorted(st)]))

def cstr(c):
    b = c.best
    if b is None:
        return ";".join([rstr(r) for r in c]) + "|N|0"
    mem = 0
    for r in list.__iter__(c):
        if r is b or r == b:
            mem = 1; break
    return "%s|%s|%d" % (";".join([rstr(r) for r in c]), vs(b.value), mem)

# ------------------------------------------------------------------ direct oracle

def inv_fail(c):
    """clause (a) of the property on one collection; None if it holds"""
    if not hasattr(c, "best"):
        return "no best attribute"
    b = c.best
    n = list.__len__(c)
    if n == 0:
        return None if b is None else "collection is empty but best is %r" % (b,)
    if b is None:
        return "collection has %d elements but best is None" % n
    items = list(list.__iter__(c))
    if not any(r is b or r == b for r in items):
        return "best (value %s) is not an element of the collection (values %s)" % (vs(b.value), [vs(r.value) for r in items])
    mn = min(r.value for r in items)
    if b.value != mn:
        return "best.value is %s but the minimum is %s (values %s)" % (vs(b.value), vs(mn), [vs(r.value) for r in items])
    return None

def well_typed(items):
    for r in items:
        dom = (1, -1) if r.spin else (0, 1)
        if any(v not in dom for v in r.state.values()):
            return False
    return True

def list_accepts(I, op, items0, aux0):
    """would a plain list accept the call (the hypothesis of T13.2; compared with the model's `listAccepts`)"""
    o = op["o"]
    if o == "to_boolean":
        return all(v in (1, -1) for r in items0 if r.spin for v in r.state.values())
    if o == "to_spin":
        return all(v in (0, 1) for r in items0 if not r.spin for v in r.state.values())
    if o in NO_LIST_COUNTERPART:
        return True
    return shadow_raises(I, op, items0, aux0) is None

def opclass(o):
    return {"extend_ar": "extend", "extend_self": "extend", "extend_aux": "extend", "extend_list": "extend-list",
            "iadd_ar": "iadd", "iadd_self": "iadd", "iadd_aux": "iadd", "iadd_list": "iadd-list",
            "setslice": "slice-assign", "delslice": "slice-delete", "getslice": "slicing",
            "extend_iter": "extend-iterator", "iadd_iter": "iadd-iterator", "setslice_iter": "slice-assign",
            "add_aux": "add", "imul": "mul"}.get(o, o)      # `res *= n` resolves to AnnealResults.__mul__

def step_impl(I, op, cur, aux, pre_ok):
    """one step on the real objects.  Returns (cur', aux', observation string, [(signature, why)], post_ok)"""
    o = op["o"]
    bad = []
    items0 = list(list.__iter__(cur)); best0 = cur.best
    aux0 = list(list.__iter__(aux)); auxbest0 = aux.best
    derived = None
    try:
        c2, a2, ret, derived = call(I, op, cur, aux)
        out = "ok#" + (rstr(ret) if ret is not None else "")
    except Exception as e:
        en = exc_name(e)
        c2, a2 = cur, aux
        out = "E:%s#" % en
        sh = None if o in NO_LIST_COUNTERPART else shadow_raises(I, op, items0, aux0)
        spurious = sh is None
        if o in ("to_boolean", "to_spin") and not well_typed(items0):
            spurious = False       # KeyError of spin_to_boolean / boolean_to_spin outside their domain
        if spurious and (pre_ok or o in DERIVED):
            if opclass(o) in ("extend", "iadd") and (len(items0) == 0 or operand_empty(op, items0, aux0)):
                sig = "C13:%s-with-empty-AnnealResults" % opclass(o)
            else:
                sig = "C13:%s-raises-%s" % (opclass(o), en)
            bad.append((sig, "%s raises %s (%s) although a plain list with the same %d elements accepts the call"
                        % (o, en, e, len(items0))))
    if derived is not None:
        if not isinstance(derived, I.AR):
            bad.append(("C13:%s-returns-plain-list" % opclass(o),
                        "%s returns a %s, not an AnnealResults" % (o, type(derived).__name__)))
            out = "plain:%s#" % ";".join(rstr(r) for r in derived)
            c2 = cur                               # the history goes on with the receiver
        else:
            f = inv_fail(derived)
            if f:
                bad.append(("C13:%s-derived-stale-best" % opclass(o), "collection returned by %s: %s" % (o, f)))
        if o != "construct" and (list(list.__iter__(cur)) != items0 or any(x is not y for x, y in zip(cur, items0))
                                 or cur.best is not best0):
            bad.append(("C13:%s-modifies-receiver" % opclass(o), "%s changed the receiver" % o))
        if isinstance(derived, I.AR) and o in ("to_boolean", "to_spin"):
            f = conv_fail(o, items0, derived)
            if f:
                bad.append(("C13:%s-wrong-result" % o, f))
    if o == "sort" and out.startswith("ok"):
        vals = [r.value for r in c2]
        want = sorted(vals, reverse=bool(op.get("rev")))
        if vals != want:
            bad.append(("C13:sort-not-sorted", "after sort the values are %s" % [vs(v) for v in vals]))
        if sorted(map(id, c2)) != sorted(map(id, items0)):
            bad.append(("C13:sort-not-a-permutation", "sort changed the multiset of elements"))
    fc, fa = inv_fail(c2), inv_fail(a2)
    post_ok = fc is None and fa is None
    if not post_ok and pre_ok and o in MUTATORS | {"swap", "stash"}:
        which = fc or fa
        bad.append(("C13:%s-stale-best" % opclass(o), "after %s: %s" % (json.dumps(op), which)))
    acc = "A1" if list_accepts(I, op, items0, aux0) else "A0"
    return c2, a2, "%s#%s#%s#%s" % (out, cstr(c2), cstr(a2), acc), bad, post_ok

def operand_empty(op, items0, aux0):
    o = op["o"]
    if o in ("extend_ar", "iadd_ar"):
        return len(op["l"]) == 0
    if o in ("extend_aux", "iadd_aux"):
        return len(aux0) == 0
    return len(items0) == 0

def conv_fail(o, items0, derived):
    out = list(derived)
    if len(out) != len(items0):
        return "%s changed the number of results" % o
    for r, t in zip(items0, out):
        if t.value != r.value:
            return "%s changed a value: %s -> %s" % (o, vs(r.value), vs(t.value))
        if t.spin != (o == "to_spin"):
            return "%s left spin flag %s" % (o, t.spin)
        if not well_typed([r]):
            continue        # outside the domain of the conversions: nothing to invert
        back = t.to_boolean() if o == "to_spin" else t.to_spin()
        if r.spin == (o == "to_boolean"):
            # r was of the other kind: converting back must give r's state
            if back.state != r.state or back.value != r.value:
                return "%s is not inverted by the opposite conversion: %s -> %s -> %s" % (o, r.state, t.state, back.state)
        else:
            if t.state != r.state:
                return "%s changed the state of a result already of that kind" % o
        again = back.to_spin() if o == "to_spin" else back.to_boolean()
        if again.state != t.state:
            return "conversions are not mutually inverse on %s" % (t.state,)
    return None

# ------------------------------------------------------------------ comparison
#
# Which of several minimal elements is `best` is left open by the property.  The compared observation (best
# value, best in items, emptiness) does not depend on that choice in any state satisfying clause (a), and with
# the code as it is (model table `Impl.fixed`) every reachable state does (theorem inv_sequence) — so the
# observations are compared exactly.  (Before the upstream fix, stale states made the choice observable and a
# masked re-comparison was used for them; it is gone.)

def same_obs(ctx, impl, model):
    return impl == model

# ------------------------------------------------------------------ running whole sequences

def run_seq(I, case, upto=None):
    """the real code on one case; returns (observations, [(step index, signature, why)])"""
    cur, aux = I.AR(I.mkl(case["init"])), I.AR(I.mkl(case.get("aux", [])))
    ok = inv_fail(cur) is None and inv_fail(aux) is None
    obs, bad = [], []
    if not ok:
        bad.append((-1, "C13:construct-derived-stale-best", "constructor: %s" % (inv_fail(cur) or inv_fail(aux))))
    for k, op in enumerate(case["seq"][:upto]):
        cur, aux, s, b, ok = step_impl(I, op, cur, aux, ok)
        obs.append(s)
        bad += [(k, sig, why) for sig, why in b]
    return obs, bad

def line(case):
    d = {"op": "c13", "init": case["init"], "seq": case["seq"]}
    if case.get("aux"):
        d["aux"] = case["aux"]
    return d

def pycode(case):
    """the history as Python source (public API only), for the report of a failing input"""
    def R(r):
        return "AnnealResult({%s}, %s, %s)" % (", ".join("%d: %d" % (k, v) for k, v in r[0]),
                                                "float('%s')" % r[1] if "inf" in r[1] else
                                                r[1] if "/" not in r[1] else "Fraction(%s)" % r[1].replace("/", ", "), r[2])
    def L(l):
        return "[" + ", ".join(R(r) for r in l) + "]"
    def SL(s):
        return ":".join("" if x is None else str(x) for x in (s if s[2] is not None else s[:2]))
    out = ["res = AnnealResults(%s)" % L(case["init"]), "aux = AnnealResults(%s)" % L(case.get("aux", []))]
    for op in case["seq"]:
        o = op["o"]
        fam = {"filter": "lambda r: <%s>", "filter_states": "lambda st: <%s>", "apply_function": "lambda r: <%s>",
               "convert_states": "lambda st: <%s>"}
        out.append({
            "construct": lambda: "res = AnnealResults(iter(%s))" % L(op["l"]),
            "append": lambda: "res.append(%s)" % R(op["r"]),
            "add_state": lambda: "res.add_state(%s)" % R(op["r"])[13:-1],
            "insert": lambda: "res.insert(%d, %s)" % (op["i"], R(op["r"])),
            "remove": lambda: "res.remove(%s)" % R(op["r"]),
            "pop": lambda: "res.pop(%d)" % op["i"],
            "getitem": lambda: "res[%d]" % op["i"],
            "extend_list": lambda: "res.extend(%s)" % L(op["l"]),
            "extend_ar": lambda: "res.extend(AnnealResults(%s))" % L(op["l"]),
            "extend_iter": lambda: "res.extend(x for x in %s)" % L(op["l"]),
            "iadd_iter": lambda: "res += (x for x in %s)" % L(op["l"]),
            "setslice_iter": lambda: "res[%s] = (x for x in %s)" % (SL(op["sl"]), L(op["l"])),
            "extend_self": lambda: "res.extend(res)",
            "extend_aux": lambda: "res.extend(aux)",
            "iadd_list": lambda: "res += %s" % L(op["l"]),
            "iadd_ar": lambda: "res += AnnealResults(%s)" % L(op["l"]),
            "iadd_self": lambda: "res += res",
            "iadd_aux": lambda: "res += aux",
            "add": lambda: "res = res + %s" % (L(op["l"]) if op.get("plain") else "AnnealResults(%s)" % L(op["l"])),
            "add_aux": lambda: "res = res + aux",
            "mul": lambda: "res = res * %d" % op["i"],
            "imul": lambda: "res *= %d" % op["i"],
            "rmul": lambda: "res = %d * res" % op["i"],
            "getslice": lambda: "res = res[%s]" % SL(op["sl"]),
            "setitem": lambda: "res[%d] = %s" % (op["i"], R(op["r"])),
            "delitem": lambda: "del res[%d]" % op["i"],
            "setslice": lambda: "res[%s] = %s" % (SL(op["sl"]), L(op["l"])),
            "delslice": lambda: "del res[%s]" % SL(op["sl"]),
            "clear": lambda: "res.clear()",
            "sort": lambda: "res.sort(reverse=True)" if op.get("rev") else "res.sort()",
            "reverse": lambda: "res.reverse()",
            "copy": lambda: "res = res.copy()",
            "to_boolean": lambda: "res = res.to_boolean()",
            "to_spin": lambda: "res = res.to_spin()",
            "swap": lambda: "res, aux = aux, res",
            "stash": lambda: "aux = res.copy()",
        }.get(o, lambda: "res = res.%s(%s)" % (o, fam.get(o, "%s") % json.dumps({k: v for k, v in op.items() if k != "o"})))())
    return "; ".join(out)

class Finder:
    """keeps, per signature, the smallest failing history; minimises it at the end"""
    def __init__(self):
        self.best = {}
        self.count = {}

    def add(self, sig, case, why):
        self.count[sig] = self.count.get(sig, 0) + 1
        size = len(json.dumps(case))
        if sig not in self.best or size < self.best[sig][0]:
            self.best[sig] = (size, case, why)

    def emit(self, ctx, I):
        for sig, (_, case, why) in sorted(self.best.items()):
            case, why = minimise(I, case, sig, why)
            ctx.violation(sig, case, "%s  [minimal history: %s ; %d failing histories with this signature in this run]"
                          % (why, pycode(case), self.count[sig]))

def fails_with(I, case, sig):
    try:
        _, bad = run_seq(I, case)
    except Exception:
        return None
    last = len(case["seq"]) - 1
    for k, s, why in bad:
        if s == sig and k == last:
            return why
    return None

def minimise(I, case, sig, why):
    """greedy: drop earlier steps, initial elements and operand elements while the last step still fails with `sig`"""
    case = json.loads(json.dumps(case))
    changed = True
    while changed:
        changed = False
        cands = []
        for k in range(len(case["seq"]) - 1):
            cands.append(dict(case, seq=case["seq"][:k] + case["seq"][k + 1:]))
        for key in ("init", "aux"):
            l = case.get(key, [])
            for k in range(len(l)):
                cands.append(dict(case, **{key: l[:k] + l[k + 1:]}))
        for c in cands:
            w = fails_with(I, c, sig)
            if w:
                case, why, changed = c, w, True
                break
    return case, why

def nontrivial_obs(obs):
    prev = None
    for s in obs:
        if s.startswith("E:"):
            return True
        b = s.split("#")[2].rsplit("|", 2)[1]
        if prev is not None and b != prev:
            return True
        prev = b
    return False

def process_seqs(ctx, I, cases, finder, family="seq"):
    models = common.run_driver([line(c) for c in cases])
    for c, m in zip(cases, models):
        obs, bad = run_seq(I, c)
        ctx.case(c, nontrivial_obs(obs)); ctx.traces += 1
        ctx.count("%s:len%02d" % (family, len(c["seq"])))
        for s in obs:
            ctx.count("outcome:" + s.split("#")[0].split(":")[0] + (":" + s.split("#")[0].split(":")[1] if s.startswith("E:") else ""))
        ms = m.get("steps") if isinstance(m, dict) else None
        if ms is None or len(ms) != len(obs):
            ctx.diff(family, c, obs, m)
        else:
            for k, (x, y) in enumerate(zip(obs, ms)):
                if not same_obs(ctx, x, y):
                    ctx.diff(family, dict(c, seq=c["seq"][:k + 1]), x, y)
                    break
        for k, sig, why in bad:
            finder.add(sig, dict(c, seq=c["seq"][:k + 1]), why)

# ------------------------------------------------------------------ exhaustive trees

def explore(ctx, I, finder, init, aux, prefix, alphabet, depth):
    req = {"op": "c13tree", "init": init, "aux": aux, "prefix": prefix, "alphabet": alphabet, "depth": depth}
    model = common.run_driver([req])[0]
    nodes = model.get("nodes")
    if nodes is None:
        raise common.Infra("driver: %s" % model)
    cur, auxc = I.AR(I.mkl(init)), I.AR(I.mkl(aux))
    ok = inv_fail(cur) is None and inv_fail(auxc) is None
    pre_obs = []
    for op in prefix:
        cur, auxc, o, _, ok = step_impl(I, op, cur, auxc, ok)
        pre_obs.append(o)
    pos = [0]
    ndiff = [0]
    path = list(prefix)

    def walk(cur, auxc, ok, d, compare=True):
        for op in alphabet:
            c2, a2 = I.clone(cur), I.clone(auxc)
            c2, a2, s, bad, ok2 = step_impl(I, op, c2, a2, ok)
            path.append(op)
            i = pos[0]; pos[0] += 1
            ctx.evaluations += 1
            eq = (i < len(nodes) and same_obs(ctx, s, nodes[i])) if compare else None
            if eq is False:
                ndiff[0] += 1
                if ndiff[0] <= 20:
                    ctx.diff("tree", {"init": init, "aux": aux, "seq": list(path)}, s, nodes[i] if i < len(nodes) else None)
            for sig, why in bad:
                finder.add(sig, {"init": init, "aux": aux, "seq": list(path)}, why)
            if d > 1:
                walk(c2, a2, ok2, d - 1, compare and eq is True)   # below a difference the states differ anyway
            path.pop()
    walk(cur, auxc, ok, depth)
    if pos[0] != len(nodes):
        ctx.diff("tree", {"init": init, "aux": aux, "prefix": prefix}, pos[0], len(nodes))
    ctx.traces += pos[0]
    ctx.count("tree:nodes", pos[0])

# ------------------------------------------------------------------ random sequences

def gen_result(rng, illtyped=False, pinf=0.12):
    """pinf: probability of a value outside the small finite pool (+inf twice as likely as -inf, +-2^80)"""
    spin = rng.random() < 0.3
    n = rng.randint(0, 3)
    labels = sorted(rng.sample(range(4), n))
    if illtyped and rng.random() < 0.5:
        st = [[k, rng.choice([0, 1, -1, 2])] for k in labels]
    else:
        st = [[k, rng.choice([1, -1] if spin else [0, 1])] for k in labels]
    r = rng.random()
    v = (str(rng.randint(-2, 3)) if r < 0.75 else rng.choice(["1/2", "-1/2", "3/2", "5/4", "-3/4"]) if r < 0.95
         else rng.choice(["1/3", "-2/3", "7/5"]))
    if rng.random() < pinf:
        v = rng.choice(["inf", "inf", "inf", "inf", "-inf", "-inf", HUGE, "-" + HUGE])
    return [st, v, spin]

def gen_list(rng, ill, lo=0, hi=3, pinf=0.12):
    return [gen_result(rng, ill, pinf) for _ in range(rng.randint(lo, hi))]

def gen_slice(rng):
    def e():
        return None if rng.random() < 0.35 else rng.randint(-5, 5)
    st = rng.choice([None, None, 1, 1, -1, 2, -2, 3, 0] if rng.random() < 0.5 else [None, 1])
    return [e(), e(), st]

def gen_op(rng, ill, recent, pinf=0.12):
    """`recent`: results recently put into the collection (so that remove finds something)"""
    def res():
        if recent and rng.random() < 0.5:
            return rng.choice(recent)
        r = gen_result(rng, ill, pinf); recent.append(r); return r
    o = rng.choice([
        "append", "append", "add_state", "insert", "insert", "remove", "remove", "pop", "pop", "getitem",
        "extend_list", "extend_ar", "extend_ar", "extend_self", "extend_aux", "iadd_list", "iadd_ar", "iadd_ar",
        "iadd_self", "iadd_aux", "add", "add_aux", "mul", "imul", "rmul", "getslice", "getslice", "setitem", "setitem",
        "delitem", "delitem", "setslice", "setslice", "delslice", "delslice", "clear", "sort", "sort", "reverse",
        "copy", "filter", "filter_states", "apply_function", "convert_states", "to_boolean", "to_spin", "swap",
        "stash", "construct", "extend_iter", "iadd_iter", "setslice_iter"])
    op = {"o": o}
    if o in ("append", "add_state", "insert", "remove", "setitem"):
        op["r"] = res()
    if o in ("insert", "pop", "getitem", "setitem", "delitem"):
        op["i"] = rng.randint(-4, 4)
    if o in ("mul", "imul", "rmul"):
        op["i"] = rng.choice([-1, 0, 0, 1, 2, 2, 3])
    if o in ("extend_list", "extend_ar", "iadd_list", "iadd_ar", "add", "setslice", "construct", "extend_iter",
             "iadd_iter", "setslice_iter"):
        op["l"] = gen_list(rng, ill, 0, 3, pinf); recent.extend(op["l"])
    if o == "add":
        op["plain"] = rng.random() < 0.5
    if o in ("getslice", "setslice", "delslice", "setslice_iter"):
        op["sl"] = gen_slice(rng)
    if o == "sort":
        op["rev"] = rng.random() < 0.3
    if o == "filter":
        op["f"] = rng.choice(["value_le", "value_gt", "spin", "nospin", "all", "none"])
        op["c"] = str(rng.randint(-1, 2)) if rng.random() > pinf else rng.choice(["inf", "-inf", HUGE])
    if o == "filter_states":
        op["f"] = rng.choice(["has", "len_le", "all", "none"]); op["k"] = rng.randint(0, 3); op["v"] = rng.choice([0, 1, -1])
    if o == "apply_function":
        op["f"] = rng.choice(["neg", "shift", "setvalue", "square", "id", "penalise"]); op["c"] = rng.choice(["1", "-2", "1/2"])
        if op["f"] == "setvalue" and rng.random() < 3 * pinf:
            op["c"] = rng.choice(["inf", "inf", "-inf"])        # (shift keeps a finite constant: inf + -inf would be NaN)
        if op["f"] == "penalise":
            op["k"] = rng.randint(0, 3); op["v"] = rng.choice([0, 1, -1])
    if o == "convert_states":
        op["f"] = rng.choice(["relabel", "drop", "id"]); op["k"] = rng.randint(0, 2)
    return op

def gen_case(rng, maxlen=15, pinf=0.12):
    ill = rng.random() < 0.08
    recent = []
    init = gen_list(rng, ill, 0 if pinf < 0.5 else 1, 3, pinf); recent.extend(init)
    aux = gen_list(rng, ill, 0, 2, pinf) if rng.random() < 0.5 else []
    seq, grow = [], 0
    for _ in range(rng.randint(1, maxlen)):
        op = gen_op(rng, ill, recent, pinf)
        if op["o"] in ("mul", "imul", "rmul", "extend_self", "iadd_self", "add_aux", "extend_aux", "iadd_aux", "stash"):
            grow += 1
            if grow > 5:       # keep the collections small (each of these can double the size)
                continue
        seq.append(op)
    c = {"family": "seq" if pinf < 0.5 else "infseq", "init": init, "seq": seq, "style": rng.choice(["frac", "frac", "float"])}
    if aux:
        c["aux"] = aux
    if c["style"] == "float" and not all_dyadic(c):
        c["style"] = "frac"
    return c

def all_dyadic(c):
    def dy(s):
        if "inf" in s:
            return True
        d = Fraction(s).denominator
        # (the huge values +-2^80 are exact as floats, but 2^80 + 1/2 is not: histories holding them run with int / Fraction)
        return d & (d - 1) == 0 and abs(Fraction(s)) < 2 ** 40
    vals = [r[1] for r in c["init"] + c.get("aux", [])]
    for op in c["seq"]:
        if "r" in op: vals.append(op["r"][1])
        vals += [r[1] for r in op.get("l", [])]
        if "c" in op: vals.append(op["c"])
    return all(dy(v) for v in vals)

# ------------------------------------------------------------------ the check

def check(ctx):
    I = Impl()
    finder = Finder()
    ctx.exhaustive = True
    full = CORE + EXTRA
    for k, init in enumerate(INITS):
        # every sequence of length <= 3 over the full alphabet (second collection empty / non-empty in turn)
        explore(ctx, I, finder, init, [B, Z] if k % 2 else [], [], full, 3)
    if ctx.tier == "thorough":
        for init in INITS:
            for op in CORE:
                explore(ctx, I, finder, init, [], [op], CORE, 3)      # lengths 2..4 over the core alphabet
    # the extended values: every sequence of length <= 3 over the core + infinite / huge operands
    inf_alpha = INF_CORE + INF_OPS
    n0 = ctx.hist.get("tree:nodes", 0)
    for k, init in enumerate(INF_INITS):
        explore(ctx, I, finder, init, [P, A] if k % 2 else [], [], inf_alpha, 3)
    ctx.count("inftree:nodes", ctx.hist.get("tree:nodes", 0) - n0)
    ctx.count("tree:alphabet-inf", len(inf_alpha))
    for init in INF_INITS:
        for op in inf_alpha:
            ctx.distinct.add(json.dumps([init, op], sort_keys=True))
    ctx.count("tree:alphabet-core", len(CORE)); ctx.count("tree:alphabet-full", len(full))
    # the exhaustive part also counts as cases for the evidence: one per (init, first op)
    for init in INITS:
        for op in full:
            ctx.distinct.add(json.dumps([init, op], sort_keys=True))
    cases = [gen_case(ctx.rng) for _ in range(ctx.scale(2000, 20000))]
    cases += [gen_case(ctx.rng, 10, pinf=0.7) for _ in range(ctx.scale(800, 8000))]      # family infseq
    by_style = {}
    for c in cases:
        by_style.setdefault(c["style"], []).append(c)
    for style, cs in sorted(by_style.items()):
        for fam in ("seq", "infseq"):
            process_seqs(ctx, Impl(style), [c for c in cs if c["family"] == fam], finder, family=fam)
    if ctx.diffs and not finder.best:
        search(ctx, I, finder)
    finder.emit(ctx, I)

def search(ctx, I, finder):
    """failing-input search after a correspondence difference: every one-step extension of each disagreeing
    history, and a fresh batch of random histories, under the direct oracle only"""
    for d in ctx.diffs[:30]:
        c = d["case"]
        if "seq" not in c:
            continue
        for op in CORE + EXTRA + INF_OPS:
            cc = {"init": c["init"], "aux": c.get("aux", []), "seq": c["seq"] + [op]}
            try:
                _, bad = run_seq(I, cc)
            except Exception:
                continue
            for k, sig, why in bad:
                finder.add(sig, dict(cc, seq=cc["seq"][:k + 1]), why)
    for k in range(3000):
        c = gen_case(ctx.rng, pinf=0.7 if k % 3 == 0 else 0.12)
        _, bad = run_seq(Impl(c["style"]), c)
        for k, sig, why in bad:
            finder.add(sig, dict(c, seq=c["seq"][:k + 1]), why)

def replay(ctx, payload):
    c = payload.get("case") or (payload.get("first_difference") or {}).get("case")
    if not c or "seq" not in c:
        ctx.notes.append("replay file has no case; re-running the full check")
        return check(ctx)
    finder = Finder()
    I = Impl(c.get("style", "frac"))
    process_seqs(ctx, I, [c], finder, family="replay")
    for sig, (_, case, why) in sorted(finder.best.items()):
        ctx.violation(sig, case, why)
