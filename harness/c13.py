"""C13 — AnnealResults keeps `best` equal to the minimum under every list operation.

Families:
  tree   exhaustive: every operation sequence of length <= 3 (quick) / <= 4 (thorough) over a fixed alphabet,
         from several initial collections (empty, singleton, duplicated values, spin results), compared node
         by node with the Lean machine (`Qv.Res.step impl`)
  seq    random sequences of length <= 15 with random operands (indices, slices, operand collections,
         user functions), incl. a stream with ill-typed states (conversion KeyError path)
  inf    values from the extended rationals Q u {+inf, -inf} (`float('inf')` is the usual tag of an infeasible state),
         ties between infinite values and huge finite values (+-2^80), on every path that recomputes `best`
         (pop / remove of the best, item and slice assignment and deletion) and through the derived collections:
         `inftree` = every sequence of length <= 3 over 22 core operations + 17 operations with infinite / huge
         operands from 4 initial collections in which +inf / -inf / ties occur; `infseq` = random sequences in which
         most values are infinite (so that "every remaining value is +inf" is reached); and 12% infinite / huge values
         in the ordinary `seq` stream.  NaN is excluded: `x < nan` and `nan < x` are both False, so "an element with
         the smallest value" is not defined on a collection holding a NaN and the property states nothing there.

  look   the OBSERVATION POLICY is a generated dimension of the histories.  Reading `best` is itself an event in the life of
         the object (a cache that the getter repairs is healed by every look), so a harness that reads `best` after every single
         operation only ever sees freshly observed objects.  Three policies: `every-step` (all families above), `end-only`
         (`best` is read once, after the last operation) and `some-steps` (after a random subset of the steps and at the end).
         At an unobserved step only what a plain list shows is recorded (items, returned element, exception) and compared with
         the model — whose state is known after every step; clause (a) is judged, and the model's `best` compared, exactly at the
         steps that are looked at.  `blindtree` = every sequence of length <= 3 over the 35-operation core alphabet (thorough:
         the full alphabet, and the `inf` tree) from the 5 initial collections, each looked at only at its END: every node is
         judged on raw copies of the two collections (list part + instance dictionary, copied without any attribute read
         through the class), the objects the longer histories go on with stay unobserved.  60% of the random `seq` / `infseq`
         histories run `end-only` or `some-steps`.  A failure first seen after unobserved steps is localised (the history is
         re-run up to each unobserved step with one look at its end) and its signature ends `:after-unobserved-steps`.
  ety    the Python TYPE the state entries 0 / 1 / -1 are spelled in: int, bool, float, numpy int64 / int8 / bool_ / float32,
         Fraction, Decimal, sympy Integer, mixed — the types the unchanged conversions accept (they look each entry up by value;
         measured on /repo), e.g. what `dict(enumerate(numpy_array))` gives.  `etytree` = every sequence of length <= 3 over a
         13-operation alphabet around to_boolean / to_spin (both kinds of elements arriving by every route, copies, slices, user
         functions on states) from 3 initial collections, per entry type; half of the random histories draw an entry type.
         The model sees the entries by value; the oracle judges (d) element-wise: same labels, b -> 1 - 2b, z -> (1 - z) / 2,
         mutually inverse, no exception on states inside the domain.

Two collections are kept (`cur`, the receiver, and `aux`, a second AnnealResults object that serves as
operand of extend / += / +), so that operands with their own history occur.

Direct oracle (written from the property text, shares nothing with the Lean model), after each step:
  (a) `best is None` iff the collection is empty, otherwise best is an element (==) of least value;
  (b) no exception where a plain `list` holding the same elements accepts the same call (decided by running
      the call on a shadow plain list); operations without list counterpart must not raise at all (except the
      conversions on states outside their domain);
  (c) derived collections are AnnealResults and leave the receiver untouched;
  (d) to_boolean / to_spin keep values, set the flag, convert every entry of a state of the other kind (whatever number
      type spells it) and are mutually inverse on states;
  (e) sort orders by value and permutes.
A violation is attributed to the operation that turns a state satisfying (a) into one that does not (or
that raises from such a state); its signature names that operation and the kind of failure, so a different
root cause gets a different signature.  The seven defects repaired upstream (fix: commits 98630c1, 99d9853,
0225de2) keep their signatures — C13:setitem-stale-best, C13:delitem-stale-best, C13:slice-assign-stale-best,
C13:slice-delete-stale-best, C13:extend-with-empty-AnnealResults, C13:iadd-with-empty-AnnealResults,
C13:rmul-returns-plain-list — so a relapse is reported under the same name; their minimal histories are the
regression inputs corpus/C13/*.json (run first on every check).
"""
import json
from fractions import Fraction
from . import common
from .common import exc_name

CEXT = "plain"
RULE = ("operation histories on AnnealResults: all sequences of length <=3 over a 61-operation alphabet (thorough: "
        "also length <=4 over its 35-operation core) from 5 initial collections (<=3 results, duplicated values, empty operands), "
        "all sequences of length <=3 over 22 core operations + 17 operations with +inf / -inf / +-2^80 operands from 4 initial collections "
        "holding infinite values and ties, plus "
        "random sequences of length <=15 with random operands (12% infinite / huge values; a second stream with 70%); a history is non-trivial when some step changes "
        "the best value / emptiness or raises; distinct = distinct (initial collection, sequence) JSON; observation policy as a "
        "dimension: every sequence of length <=3 over the 35-operation core from the 5 initial collections looked at only at its end "
        "(judged on raw copies), 60% of the random histories with `best` read only at the end or after a random subset of steps; "
        "state entries spelled as int / bool / float / numpy int64, int8, bool_, float32 / Fraction / Decimal / sympy Integer / mixed: "
        "every sequence of length <=3 over 13 conversion-related operations from 3 initial collections per type, and half of the random histories")
ASSUMPTIONS = [
    "states are dicts with int labels, compared as label-sorted association lists with the entries read by value (the entry "
    "types of family `ety` are realisations of the same abstract state); values are int / Fraction / "
    "dyadic float (exact) / float('inf') / -float('inf'); NaN values are outside the property (no least element)",
    "user functions passed to filter / filter_states / apply_function / convert_states are drawn from a small "
    "named family (the Lean theorems quantify over arbitrary functions)",
    "`res *= n` is modelled as `res = res * n` (Python resolves it to AnnealResults.__mul__); object identity / "
    "aliasing between collections is not modelled (AnnealResult.__eq__ is structural)",
]

# ------------------------------------------------------------------ results pool / alphabet

A = [[[0, 0], [1, 1]], "1", False]
B = [[[0, 1], [1, 1]], "2", False]
C = [[[0, 1], [1, 0]], "1", False]       # same value as A, different state
Z = [[[0, 0], [1, 0]], "0", False]       # a new minimum
S = [[[0, 1], [1, -1]], "1", True]       # spin result
H = [[[0, 1]], "1/2", False]
N = [[[0, -1], [1, 1]], "-1", True]
# the extended values: +inf (two different states), -inf, huge finite values (2^80: exact as int, Fraction and float)
P = [[[0, 1], [1, 0]], "inf", False]
P2 = [[[0, 0], [1, 0]], "inf", False]
PS = [[[0, -1], [1, 1]], "inf", True]
M = [[[0, 1], [1, 1]], "-inf", False]
HUGE = str(2 ** 80)
HG = [[[0, 0]], HUGE, False]
HN = [[[0, 1]], "-" + HUGE, False]

INITS = [[], [A], [B, A], [A, B, C], [S, Z, S]]

def sl(a=None, b=None, c=None):
    return [a, b, c]

CORE = [
    {"o": "append", "r": Z}, {"o": "append", "r": B}, {"o": "add_state", "r": C},
    {"o": "insert", "i": 0, "r": Z}, {"o": "insert", "i": -1, "r": B},
    {"o": "remove", "r": A}, {"o": "remove", "r": Z},
    {"o": "pop", "i": 0}, {"o": "pop", "i": -1},
    {"o": "extend_list", "l": [Z, B]}, {"o": "extend_ar", "l": []}, {"o": "extend_ar", "l": [A]},
    {"o": "extend_aux"},
    {"o": "iadd_ar", "l": [Z]}, {"o": "iadd_ar", "l": []}, {"o": "iadd_list", "l": []},
    {"o": "add", "l": [C]}, {"o": "mul", "i": 2}, {"o": "imul", "i": 0}, {"o": "rmul", "i": 2},
    {"o": "getslice", "sl": sl(1)},
    {"o": "setitem", "i": 0, "r": B}, {"o": "setitem", "i": -1, "r": Z}, {"o": "delitem", "i": 0},
    {"o": "setslice", "sl": sl(0, 1), "l": [B]}, {"o": "setslice", "sl": sl(None, 0), "l": [Z]},
    {"o": "delslice", "sl": sl(None, 1)}, {"o": "delslice", "sl": sl(None, None, 2)},
    {"o": "clear"}, {"o": "sort"}, {"o": "copy"},
    {"o": "filter", "f": "value_gt", "c": "1"}, {"o": "apply_function", "f": "neg"},
    {"o": "swap"}, {"o": "stash"},
]
EXTRA = [
    {"o": "insert", "i": 7, "r": A}, {"o": "pop", "i": 1}, {"o": "getitem", "i": 1},
    {"o": "extend_self"}, {"o": "iadd_self"}, {"o": "iadd_aux"}, {"o": "add_aux"},
    {"o": "getslice", "sl": sl(None, None, -1)}, {"o": "setslice", "sl": sl(None, None, -1), "l": [Z, B]},
    {"o": "setslice", "sl": sl(None, None, 0), "l": []}, {"o": "delslice", "sl": sl(-1, None, -1)},
    {"o": "sort", "rev": True}, {"o": "reverse"},
    {"o": "filter_states", "f": "has", "k": 0, "v": 1}, {"o": "convert_states", "f": "relabel", "k": 1},
    {"o": "to_boolean"}, {"o": "to_spin"}, {"o": "construct", "l": [B, Z]}, {"o": "mul", "i": -1},
    {"o": "mul", "i": 0}, {"o": "rmul", "i": 0}, {"o": "rmul", "i": -1},
    # one-shot iterables (generators) as operands: a plain list consumes them exactly once
    {"o": "extend_iter", "l": [Z, B]}, {"o": "iadd_iter", "l": [B, Z]}, {"o": "extend_iter", "l": []},
    {"o": "setslice_iter", "sl": sl(1, None), "l": [Z]},
]

# the `inf` tree: initial collections in which removing / replacing the best leaves only infinite values (or ties of them)
INF_INITS = [[A, P], [P, A, P2], [M, P, M], [HG, PS, HN]]
INF_OPS = [
    {"o": "append", "r": P}, {"o": "append", "r": M}, {"o": "add_state", "r": P2}, {"o": "insert", "i": 0, "r": P},
    {"o": "remove", "r": P}, {"o": "remove", "r": M},
    {"o": "setitem", "i": 0, "r": P}, {"o": "setitem", "i": -1, "r": P2}, {"o": "setitem", "i": 0, "r": M},
    {"o": "setslice", "sl": sl(0, 1), "l": [P]}, {"o": "setslice", "sl": sl(None, None, 2), "l": [P2]},
    {"o": "extend_ar", "l": [P]}, {"o": "iadd_ar", "l": [M]}, {"o": "extend_list", "l": [P, HG]},
    {"o": "apply_function", "f": "setvalue", "c": "inf"}, {"o": "apply_function", "f": "penalise", "k": 0, "v": 1},
    {"o": "filter", "f": "value_gt", "c": HUGE},
]

# the part of the core alphabet that goes into the `inf` tree (one representative per kind of operation)
INF_CORE = [op for op in CORE if op in (
    {"o": "append", "r": Z}, {"o": "insert", "i": 0, "r": Z}, {"o": "remove", "r": A}, {"o": "pop", "i": 0}, {"o": "pop", "i": -1},
    {"o": "extend_aux"}, {"o": "iadd_ar", "l": [Z]}, {"o": "add", "l": [C]}, {"o": "mul", "i": 2}, {"o": "getslice", "sl": sl(1)},
    {"o": "setitem", "i": 0, "r": B}, {"o": "delitem", "i": 0}, {"o": "setslice", "sl": sl(0, 1), "l": [B]},
    {"o": "delslice", "sl": sl(None, 1)}, {"o": "delslice", "sl": sl(None, None, 2)}, {"o": "clear"}, {"o": "sort"},
    {"o": "copy"}, {"o": "filter", "f": "value_gt", "c": "1"}, {"o": "apply_function", "f": "neg"}, {"o": "swap"},
    {"o": "stash"})]

# ------------------------------------------------------------------ implementation side

INF = float("inf")

def num(s, style="frac"):
    if s == "inf":
        return INF
    if s == "-inf":
        return -INF
    f = Fraction(s)
    if style == "float" and (f.denominator & (f.denominator - 1)) == 0:
        return float(f)
    if f.denominator == 1:
        return int(f)
    return f

def vs(v):
    if isinstance(v, int):
        return str(v)
    if isinstance(v, float) and v in (INF, -INF):
        return "inf" if v > 0 else "-inf"
    f = Fraction(v)
    return str(f.numerator) if f.denominator == 1 else "%d/%d" % (f.numerator, f.denominator)

# the Python types a state entry 0 / 1 / -1 is spelled in (family `ety`).  The unchanged code converts a state by looking each
# entry up in a two-entry dict, i.e. it accepts every hashable number that equals (and hashes like) 0 / 1 / -1 — measured on
# /repo for dict, list and tuple containers: int, bool, float, numpy int64 / int8 / bool_ / float32 / float64, Fraction,
# Decimal, sympy Integer.  (A *scalar* argument of a type outside int / float is rejected by boolean_to_spin itself.)
ETYPES = ("int", "bool", "float", "npint64", "npint8", "npbool", "npfloat32", "Fraction", "Decimal", "sympy", "mixed")

MIXABLE = ("bool", "float", "npint64", "npint8", "npbool", "npfloat32", "Fraction")

def entry(v, ety, pos=0):
    """the integer v (0, 1, -1; anything else stays an int) as a number of the entry type"""
    if ety == "int" or v not in (0, 1, -1):
        return v
    if ety == "mixed":
        # (only types that also compare coherently with EACH OTHER: Decimal == numpy.int64 raises TypeError and sympy's
        # Integer(1) != 1.0 — quirks of those number types among themselves, met by a plain list of such dicts just as well;
        # Decimal and sympy entries are used uniformly, where they only ever meet ints)
        ety = MIXABLE[(pos * 7 + v + 1) % len(MIXABLE)]
    if ety == "bool":
        return bool(v) if v >= 0 else v
    if ety == "float":
        return float(v)
    if ety == "Fraction":
        return Fraction(v)
    if ety == "Decimal":
        import decimal
        return decimal.Decimal(v)
    if ety == "sympy":
        import sympy
        return sympy.Integer(v)
    import numpy as np
    if ety == "npbool":
        return np.bool_(v) if v >= 0 else np.int64(v)
    return {"npint64": np.int64, "npint8": np.int8, "npfloat32": np.float32}[ety](v)

_slots = {}

def _slot_descriptors(cls):
    if cls not in _slots:
        _slots[cls] = [c.__dict__[n] for c in cls.__mro__ for n in getattr(c, "__slots__", ())
                       if n not in ("__dict__", "__weakref__") and n in c.__dict__]
    return _slots[cls]

class Impl:
    """the real classes, plus the named user-function families"""
    def __init__(self, style="frac", ety="int"):
        from qubovert.sim import AnnealResult, AnnealResults
        self.R, self.AR, self.style, self.ety = AnnealResult, AnnealResults, style, ety
        self._cache = {}

    def state(self, st):
        return {k: entry(v, self.ety, k) for k, v in st}

    def mk(self, rj):
        # one AnnealResult object per use (no sharing between operands)
        return self.R(self.state(rj[0]), num(rj[1], self.style), rj[2])

    def mkl(self, lj):
        return [self.mk(r) for r in lj]

    def clone(self, x):
        y = self.AR()
        list.extend(y, x)
        y.best = x.best
        return y

    def rawclone(self, x):
        """a copy of the object as it is, made WITHOUT any attribute read through the class (no `best` getter runs, no
        method of AnnealResults is called): the list part is copied by `list`, the instance dictionary entry by entry.
        Looking at the copy leaves the original unobserved."""
        y = list.__new__(type(x))
        list.extend(y, list.__iter__(x))
        if hasattr(x, "__dict__"):
            y.__dict__.update(x.__dict__)
        for d in _slot_descriptors(type(x)):             # (a class that keeps its state in slots)
            try:
                d.__set__(y, d.__get__(x, type(x)))
            except AttributeError:
                pass
        return y

    def result_pred(self, op):
        f = op["f"]
        if f == "value_le":
            c = num(op["c"]); return lambda r: r.value <= c
        if f == "value_gt":
            c = num(op["c"]); return lambda r: r.value > c
        if f == "spin": return lambda r: r.spin
        if f == "nospin": return lambda r: not r.spin
        if f == "all": return lambda r: True
        if f == "none": return lambda r: False
        raise ValueError(f)

    def state_pred(self, op):
        f = op["f"]
        if f == "has":
            k, v = op["k"], op["v"]; return lambda st: k in st and st[k] == v
        if f == "len_le":
            k = op["k"]; return lambda st: len(st) <= k
        if f == "all": return lambda st: True
        if f == "none": return lambda st: False
        raise ValueError(f)

    def result_fn(self, op):
        f, R = op["f"], self.R
        if f == "neg": return lambda r: R(r.state, -r.value, r.spin)
        if f == "shift":
            c = num(op["c"]); return lambda r: R(r.state, r.value + c, r.spin)
        if f == "setvalue":
            c = num(op["c"]); return lambda r: R(r.state, c, r.spin)
        if f == "square": return lambda r: R(r.state, r.value * r.value, r.spin)
        if f == "penalise":      # tag the states holding k = v as infeasible
            k, v = op["k"], op["v"]; return lambda r: R(r.state, INF if r.state.get(k) == v else r.value, r.spin)
        if f == "id": return lambda r: r
        raise ValueError(f)

    def state_fn(self, op):
        f = op["f"]
        if f == "relabel":
            k = op["k"]; return lambda st: {kk + k: v for kk, v in st.items()}
        if f == "drop":
            k = op["k"]; return lambda st: {kk: v for kk, v in st.items() if kk != k}
        if f == "id": return lambda st: dict(st)
        raise ValueError(f)

def pyslice(s):
    return slice(s[0], s[1], s[2])

MUTATORS = {"append", "add_state", "insert", "remove", "pop", "extend_list", "extend_ar", "extend_self",
            "extend_aux", "iadd_list", "iadd_ar", "iadd_self", "iadd_aux", "setitem", "delitem", "setslice",
            "delslice", "clear", "sort", "reverse", "extend_iter", "iadd_iter", "setslice_iter"}
DERIVED = {"construct", "add", "add_aux", "mul", "imul", "rmul", "getslice", "copy", "filter", "filter_states",
           "apply_function", "convert_states", "to_boolean", "to_spin"}
NO_LIST_COUNTERPART = {"filter", "filter_states", "apply_function", "convert_states", "to_boolean", "to_spin",
                       "add_state", "construct", "stash", "swap"}

def call(I, op, cur, aux):
    """perform the operation through the public API.  Returns (cur', aux', returned element, derived object or None).
    Raises whatever the code raises."""
    o = op["o"]
    if o == "construct":
        d = I.AR(iter(I.mkl(op["l"]))); return d, aux, None, d
    if o == "append":
        cur.append(I.mk(op["r"])); return cur, aux, None, None
    if o == "add_state":
        r = op["r"]; cur.add_state(I.state(r[0]), num(r[1], I.style), r[2]); return cur, aux, None, None
    if o == "insert":
        cur.insert(op["i"], I.mk(op["r"])); return cur, aux, None, None
    if o == "remove":
        cur.remove(I.mk(op["r"])); return cur, aux, None, None
    if o == "pop":
        return cur, aux, cur.pop(op["i"]), None
    if o == "getitem":
        return cur, aux, cur[op["i"]], None
    if o == "extend_list":
        cur.extend(I.mkl(op["l"])); return cur, aux, None, None
    if o == "extend_iter":
        cur.extend(x for x in I.mkl(op["l"])); return cur, aux, None, None
    if o == "iadd_iter":
        c0 = cur; cur += (x for x in I.mkl(op["l"])); assert cur is c0; return cur, aux, None, None
    if o == "setslice_iter":
        cur[pyslice(op["sl"])] = (x for x in I.mkl(op["l"])); return cur, aux, None, None
    if o == "extend_ar":
        cur.extend(I.AR(I.mkl(op["l"]))); return cur, aux, None, None
    if o == "extend_self":
        cur.extend(cur); return cur, aux, None, None
    if o == "extend_aux":
        cur.extend(aux); return cur, aux, None, None
    if o == "iadd_list":
        c0 = cur; cur += I.mkl(op["l"]); assert cur is c0; return cur, aux, None, None
    if o == "iadd_ar":
        c0 = cur; cur += I.AR(I.mkl(op["l"])); assert cur is c0; return cur, aux, None, None
    if o == "iadd_self":
        c0 = cur; cur += cur; assert cur is c0; return cur, aux, None, None
    if o == "iadd_aux":
        c0 = cur; cur += aux; assert cur is c0; return cur, aux, None, None
    if o == "add":
        d = cur + (I.mkl(op["l"]) if op.get("plain") else I.AR(I.mkl(op["l"]))); return d, aux, None, d
    if o == "add_aux":
        d = cur + aux; return d, aux, None, d
    if o == "mul":
        d = cur * op["i"]; return d, aux, None, d
    if o == "imul":
        d = cur; d *= op["i"]; return d, aux, None, d
    if o == "rmul":
        d = op["i"] * cur; return d, aux, None, d
    if o == "getslice":
        d = cur[pyslice(op["sl"])]; return d, aux, None, d
    if o == "setitem":
        cur[op["i"]] = I.mk(op["r"]); return cur, aux, None, None
    if o == "delitem":
        del cur[op["i"]]; return cur, aux, None, None
    if o == "setslice":
        cur[pyslice(op["sl"])] = I.mkl(op["l"]); return cur, aux, None, None
    if o == "delslice":
        del cur[pyslice(op["sl"])]; return cur, aux, None, None
    if o == "clear":
        cur.clear(); return cur, aux, None, None
    if o == "sort":
        if op.get("rev"): cur.sort(reverse=True)
        else: cur.sort()
        return cur, aux, None, None
    if o == "reverse":
        cur.reverse(); return cur, aux, None, None
    if o == "copy":
        d = cur.copy(); return d, aux, None, d
    if o == "filter":
        d = cur.filter(I.result_pred(op)); return d, aux, None, d
    if o == "filter_states":
        d = cur.filter_states(I.state_pred(op)); return d, aux, None, d
    if o == "apply_function":
        d = cur.apply_function(I.result_fn(op)); return d, aux, None, d
    if o == "convert_states":
        d = cur.convert_states(I.state_fn(op)); return d, aux, None, d
    if o == "to_boolean":
        d = cur.to_boolean(); return d, aux, None, d
    if o == "to_spin":
        d = cur.to_spin(); return d, aux, None, d
    if o == "swap":
        return aux, cur, None, None
    if o == "stash":
        return cur, cur.copy(), None, None
    raise ValueError("unknown op " + o)

def shadow_raises(I, op, items, aux_items):
    """the same call on a plain list of the same elements: the exception it raises, or None"""
    o = op["o"]
    l = list(items)
    try:
        if o == "remove": l.remove(I.mk(op["r"]))
        elif o == "pop": l.pop(op["i"])
        elif o == "getitem": l[op["i"]]
        elif o == "insert": l.insert(op["i"], I.mk(op["r"]))
        elif o == "append": l.append(I.mk(op["r"]))
        elif o in ("extend_list", "extend_ar"): l.extend(I.mkl(op["l"]))
        elif o == "extend_iter": l.extend(x for x in I.mkl(op["l"]))
        elif o == "iadd_iter": l += (x for x in I.mkl(op["l"]))
        elif o == "setslice_iter": l[pyslice(op["sl"])] = (x for x in I.mkl(op["l"]))
        elif o == "extend_self": l.extend(l)
        elif o == "extend_aux": l.extend(list(aux_items))
        elif o in ("iadd_list", "iadd_ar"): l += I.mkl(op["l"])
        elif o == "iadd_self": l += l
        elif o == "iadd_aux": l += list(aux_items)
        elif o == "add": l + I.mkl(op["l"])
        elif o == "add_aux": l + list(aux_items)
        elif o == "mul": l * op["i"]
        elif o == "imul": l *= op["i"]
        elif o == "rmul": op["i"] * l
        elif o == "getslice": l[pyslice(op["sl"])]
        elif o == "setitem": l[op["i"]] = I.mk(op["r"])
        elif o == "delitem": del l[op["i"]]
        elif o == "setslice": l[pyslice(op["sl"])] = I.mkl(op["l"])
        elif o == "delslice": del l[pyslice(op["sl"])]
        elif o == "clear": l.clear()
        elif o == "sort": l.sort(reverse=bool(op.get("rev")))
        elif o == "reverse": l.reverse()
        elif o == "copy": l.copy()
        else: return None
    except Exception as e:
        return exc_name(e)
    return None

# ------------------------------------------------------------------ canonical observation (same format as Qv.Drv.stepStr)

def estr(v):
    """a state entry by VALUE (whatever its Python type): the integer it equals"""
    try:
        i = int(v)
        if v == i:
            return "%d" % i
    except Exception:
        pass
    return repr(v)

def rstr(r):
    st = r.state
    return "%s:%d:%s" % (vs(r.value), 1 if r.spin else 0, ",".join(["%d=%s" % (k, estr(st[k])) for k in sorted(st)]))

def istr(c):
    """what a plain list shows of the collection (no read of `best`)"""
    return ";".join([rstr(r) for r in list.__iter__(c)]) + "|?|?"

def mask(s):
    """an observation string (implementation or model) without what only a read of `best` shows"""
    f = s.split("#")
    if len(f) != 5:
        return s
    f[2] = f[2].rsplit("|", 2)[0] + "|?|?"
    f[3] = f[3].rsplit("|", 2)[0] + "|?|?"
    return "#".join(f)

def cstr(c):
    b = c.best
    if b is None:
        return ";".join([rstr(r) for r in c]) + "|N|0"
    mem = 0
    for r in list.__iter__(c):
        if r is b or r == b:
            mem = 1; break
    return "%s|%s|%d" % (";".join([rstr(r) for r in c]), vs(b.value), mem)

# ------------------------------------------------------------------ direct oracle

def inv_fail(c):
    """clause (a) of the property on one collection; None if it holds"""
    if not hasattr(c, "best"):
        return "no best attribute"
    b = c.best
    n = list.__len__(c)
    if n == 0:
        return None if b is None else "collection is empty but best is %r" % (b,)
    if b is None:
        return "collection has %d elements but best is None" % n
    items = list(list.__iter__(c))
    if not any(r is b or r == b for r in items):
        return "best (value %s) is not an element of the collection (values %s)" % (vs(b.value), [vs(r.value) for r in items])
    mn = min(r.value for r in items)
    if b.value != mn:
        return "best.value is %s but the minimum is %s (values %s)" % (vs(b.value), vs(mn), [vs(r.value) for r in items])
    return None

def well_typed(items):
    for r in items:
        dom = (1, -1) if r.spin else (0, 1)
        if any(v not in dom for v in r.state.values()):
            return False
    return True

def list_accepts(I, op, items0, aux0):
    """would a plain list accept the call (the hypothesis of T13.2; compared with the model's `listAccepts`)"""
    o = op["o"]
    if o == "to_boolean":
        return all(v in (1, -1) for r in items0 if r.spin for v in r.state.values())
    if o == "to_spin":
        return all(v in (0, 1) for r in items0 if not r.spin for v in r.state.values())
    if o in NO_LIST_COUNTERPART:
        return True
    return shadow_raises(I, op, items0, aux0) is None

def opclass(o):
    return {"extend_ar": "extend", "extend_self": "extend", "extend_aux": "extend", "extend_list": "extend-list",
            "iadd_ar": "iadd", "iadd_self": "iadd", "iadd_aux": "iadd", "iadd_list": "iadd-list",
            "setslice": "slice-assign", "delslice": "slice-delete", "getslice": "slicing",
            "extend_iter": "extend-iterator", "iadd_iter": "iadd-iterator", "setslice_iter": "slice-assign",
            "add_aux": "add", "imul": "mul"}.get(o, o)      # `res *= n` resolves to AnnealResults.__mul__

def same(c):
    return c

UNSEEN = object()

def step_impl(I, op, cur, aux, pre_ok, view=same, pre_seen=True):
    """one step on the real objects.  Returns (cur', aux', observation string, [(signature, why)], post_ok).

    `view` is the observation policy of this step (the harness's own reads of `best` are part of the history the object
    lives through: a cache that is repaired by the getter is healed by every look):
      same          the harness reads `best` of the collections themselves after the step (read-after-every-step mode);
      I.rawclone    it reads `best` of raw copies: the step is judged, the objects of the history stay unobserved;
      None          it does not look: only what a plain list shows (items, returned element, exception) is recorded, the
                    observation string carries `?` for the two `best` fields, clause (a) is not judged at this step.
    `pre_seen`: the collections were looked at (with `same`) after the previous step, so reading `cur.best` before the
    call changes nothing."""
    o = op["o"]
    bad = []
    items0 = list(list.__iter__(cur))
    best0 = cur.best if (view is same and pre_seen) else UNSEEN
    aux0 = list(list.__iter__(aux))
    derived = None
    try:
        c2, a2, ret, derived = call(I, op, cur, aux)
        out = "ok#" + (rstr(ret) if ret is not None else "")
    except Exception as e:
        en = exc_name(e)
        c2, a2 = cur, aux
        out = "E:%s#" % en
        sh = None if o in NO_LIST_COUNTERPART else shadow_raises(I, op, items0, aux0)
        spurious = sh is None
        if o in ("to_boolean", "to_spin") and not well_typed(items0):
            spurious = False       # KeyError of spin_to_boolean / boolean_to_spin outside their domain
        if spurious and (pre_ok or o in DERIVED):
            if opclass(o) in ("extend", "iadd") and (len(items0) == 0 or operand_empty(op, items0, aux0)):
                sig = "C13:%s-with-empty-AnnealResults" % opclass(o)
            else:
                sig = "C13:%s-raises-%s" % (opclass(o), en)
            bad.append((sig, "%s raises %s (%s) although a plain list with the same %d elements accepts the call"
                        % (o, en, e, len(items0))))
    vd = None
    if derived is not None:
        if not isinstance(derived, I.AR):
            bad.append(("C13:%s-returns-plain-list" % opclass(o),
                        "%s returns a %s, not an AnnealResults" % (o, type(derived).__name__)))
            out = "plain:%s#" % ";".join(rstr(r) for r in derived)
            c2 = cur                               # the history goes on with the receiver
        elif view is not None:
            vd = view(derived)
            f = inv_fail(vd)
            if f:
                bad.append(("C13:%s-derived-stale-best" % opclass(o), "collection returned by %s: %s" % (o, f)))
        if o != "construct" and (list(list.__iter__(cur)) != items0 or any(x is not y for x, y in zip(list.__iter__(cur), items0))
                                 or (best0 is not UNSEEN and cur.best is not best0)):
            bad.append(("C13:%s-modifies-receiver" % opclass(o), "%s changed the receiver" % o))
        if isinstance(derived, I.AR) and o in ("to_boolean", "to_spin"):
            f = conv_fail(o, items0, derived)
            if f:
                bad.append(("C13:%s-wrong-result" % o, f))
    if o == "sort" and out.startswith("ok"):
        vals = [r.value for r in list.__iter__(c2)]
        want = sorted(vals, reverse=bool(op.get("rev")))
        if vals != want:
            bad.append(("C13:sort-not-sorted", "after sort the values are %s" % [vs(v) for v in vals]))
        if sorted(map(id, list.__iter__(c2))) != sorted(map(id, items0)):
            bad.append(("C13:sort-not-a-permutation", "sort changed the multiset of elements"))
    acc = "A1" if list_accepts(I, op, items0, aux0) else "A0"
    if view is None:
        return c2, a2, "%s#%s#%s#%s" % (out, istr(c2), istr(a2), acc), bad, pre_ok
    vc = vd if (vd is not None and c2 is derived) else view(c2)
    va = view(a2)
    fc, fa = inv_fail(vc), inv_fail(va)
    post_ok = fc is None and fa is None
    if not post_ok and pre_ok and o in MUTATORS | {"swap", "stash"}:
        which = fc or fa
        bad.append(("C13:%s-stale-best" % opclass(o), "after %s: %s" % (json.dumps(op), which)))
    return c2, a2, "%s#%s#%s#%s" % (out, cstr(vc), cstr(va), acc), bad, post_ok

def operand_empty(op, items0, aux0):
    o = op["o"]
    if o in ("extend_ar", "iadd_ar"):
        return len(op["l"]) == 0
    if o in ("extend_aux", "iadd_aux"):
        return len(aux0) == 0
    return len(items0) == 0

def conv_fail(o, items0, derived):
    out = list(derived)
    if len(out) != len(items0):
        return "%s changed the number of results" % o
    for r, t in zip(items0, out):
        if t.value != r.value:
            return "%s changed a value: %s -> %s" % (o, vs(r.value), vs(t.value))
        if t.spin != (o == "to_spin"):
            return "%s left spin flag %s" % (o, t.spin)
        if not well_typed([r]):
            continue        # outside the domain of the conversions: nothing to invert
        # element-wise: same labels; a result of the other kind has every entry converted (b -> 1 - 2b, z -> (1 - z) / 2),
        # whatever number type spells the entry
        if set(t.state) != set(r.state):
            return "%s changed the labels of a state: %s -> %s" % (o, sorted(r.state), sorted(t.state))
        if r.spin != (o == "to_spin"):
            for k, v in r.state.items():
                want = 1 - 2 * int(v) if o == "to_spin" else (1 - int(v)) // 2
                if not (t.state[k] == want):
                    return "%s is not the element-wise conversion: entry %r -> %r, expected %d (state %s -> %s)" % (
                        o, v, t.state[k], want, r.state, t.state)
        try:
            back = t.to_boolean() if o == "to_spin" else t.to_spin()
            again = back.to_spin() if o == "to_spin" else back.to_boolean()
        except Exception as e:
            return "%s returned the state %r (from %r), on which the opposite conversion raises %s (%s)" % (
                o, t.state, r.state, type(e).__name__, e)
        if r.spin == (o == "to_boolean"):
            # r was of the other kind: converting back must give r's state
            if back.state != r.state or back.value != r.value:
                return "%s is not inverted by the opposite conversion: %s -> %s -> %s" % (o, r.state, t.state, back.state)
        else:
            if t.state != r.state:
                return "%s changed the state of a result already of that kind" % o
        if again.state != t.state:
            return "conversions are not mutually inverse on %s" % (t.state,)
    return None

# ------------------------------------------------------------------ comparison
#
# Which of several minimal elements is `best` is left open by the property.  The compared observation (best
# value, best in items, emptiness) does not depend on that choice in any state satisfying clause (a), and with
# the code as it is (model table `Impl.fixed`) every reachable state does (theorem inv_sequence) — so the
# observations are compared exactly.  (Before the upstream fix, stale states made the choice observable and a
# masked re-comparison was used for them; it is gone.)

def same_obs(ctx, impl, model):
    return impl == model

# ------------------------------------------------------------------ running whole sequences

def looks(case, n=None):
    """the observation policy of a history: look[k] = 1 iff the harness reads `best` after step k (absent: after every step)"""
    n = len(case["seq"]) if n is None else n
    look = case.get("look")
    return [1] * n if look is None else [int(bool(x)) for x in look[:n]] + [1] * (n - len(look[:n]))

def cut(case, k):
    """the history up to and including step k, looked at at its end (and wherever the longer history looked before)"""
    c = dict(case, seq=case["seq"][:k + 1])
    if case.get("look") is not None:
        c["look"] = looks(case)[:k] + [1]
    return c

UNOBS = ":after-unobserved-steps"

def _run(I, case, upto=None, localise=True):
    seq = case["seq"][:upto]
    look = looks(case, len(seq))
    allseen = all(look)
    cur, aux = I.AR(I.mkl(case["init"])), I.AR(I.mkl(case.get("aux", [])))
    ok = True
    obs, bad = [], []
    if allseen:
        ok = inv_fail(cur) is None and inv_fail(aux) is None
        if not ok:
            bad.append((-1, "C13:construct-derived-stale-best", "constructor: %s" % (inv_fail(cur) or inv_fail(aux))))
    seen, last = allseen, -1          # last: the last step after which the harness looked
    for k, op in enumerate(seq):
        ok0 = ok
        cur, aux, s, b, ok = step_impl(I, op, cur, aux, ok, same if look[k] else None, pre_seen=seen)
        seen = bool(look[k])
        obs.append(s)
        blind = k - last - 1          # steps since the last look that went unobserved
        if look[k]:
            if ok0 and not ok and not any("stale-best" in sig for sig, _ in b):
                # first seen after an operation that is not itself a mutator (getitem, a derived collection ...)
                b = b + [("C13:%s-stale-best" % opclass(op["o"]), "after %s: %s" % (json.dumps(op), inv_fail(cur) or inv_fail(aux)))]
            if blind and ok0 and not ok:
                # clause (a) held at the last look and fails now: which of the steps in between breaks it?  Re-run the
                # history up to each of them with a look at its end (fresh objects; the earlier looks stay where they were)
                where, entries = k, None
                if localise:
                    for j in range(last + 1, k):
                        _, bj, okj = _run(I, cut(dict(case, seq=seq, look=look), j), localise=False)
                        if not okj:
                            where, entries = j, [(sig, why) for kk, sig, why in bj if kk == j and "stale-best" in sig]
                            break
                if entries is not None:
                    b = [(sig, why) for sig, why in b if "stale-best" not in sig]
                    bad += [(where, sig, why) for sig, why in entries]     # (the re-run has put the suffix where it applies)
                else:
                    b = [(sig + UNOBS if "stale-best" in sig else sig, why) for sig, why in b]
            last = k
        bad += [(k, sig, why) for sig, why in b]
    return obs, bad, ok

def run_seq(I, case, upto=None):
    """the real code on one case; returns (observations, [(step index, signature, why)]); a failing history is `cut(case, step)`"""
    obs, bad, _ = _run(I, case, upto)
    return obs, bad

def line(case):
    d = {"op": "c13", "init": case["init"], "seq": case["seq"]}
    if case.get("aux"):
        d["aux"] = case["aux"]
    return d

def pycode(case):
    """the history as Python source (public API only), for the report of a failing input"""
    def R(r):
        return "AnnealResult({%s}, %s, %s)" % (", ".join("%d: %d" % (k, v) for k, v in r[0]),
                                                "float('%s')" % r[1] if "inf" in r[1] else
                                                r[1] if "/" not in r[1] else "Fraction(%s)" % r[1].replace("/", ", "), r[2])
    def L(l):
        return "[" + ", ".join(R(r) for r in l) + "]"
    def SL(s):
        return ":".join("" if x is None else str(x) for x in (s if s[2] is not None else s[:2]))
    out = ["res = AnnealResults(%s)" % L(case["init"]), "aux = AnnealResults(%s)" % L(case.get("aux", []))]
    look = looks(case)
    if case.get("ety", "int") != "int":
        out.insert(0, "# every state entry 0 / 1 / -1 spelled as %s" % case["ety"])
    if not all(look):
        out.insert(0, "# `best` is read only where shown")
    for kk, op in enumerate(case["seq"]):
        if kk and not all(look) and look[kk - 1]:
            out.append("res.best, aux.best")
        o = op["o"]
        fam = {"filter": "lambda r: <%s>", "filter_states": "lambda st: <%s>", "apply_function": "lambda r: <%s>",
               "convert_states": "lambda st: <%s>"}
        out.append({
            "construct": lambda: "res = AnnealResults(iter(%s))" % L(op["l"]),
            "append": lambda: "res.append(%s)" % R(op["r"]),
            "add_state": lambda: "res.add_state(%s)" % R(op["r"])[13:-1],
            "insert": lambda: "res.insert(%d, %s)" % (op["i"], R(op["r"])),
            "remove": lambda: "res.remove(%s)" % R(op["r"]),
            "pop": lambda: "res.pop(%d)" % op["i"],
            "getitem": lambda: "res[%d]" % op["i"],
            "extend_list": lambda: "res.extend(%s)" % L(op["l"]),
            "extend_ar": lambda: "res.extend(AnnealResults(%s))" % L(op["l"]),
            "extend_iter": lambda: "res.extend(x for x in %s)" % L(op["l"]),
            "iadd_iter": lambda: "res += (x for x in %s)" % L(op["l"]),
            "setslice_iter": lambda: "res[%s] = (x for x in %s)" % (SL(op["sl"]), L(op["l"])),
            "extend_self": lambda: "res.extend(res)",
            "extend_aux": lambda: "res.extend(aux)",
            "iadd_list": lambda: "res += %s" % L(op["l"]),
            "iadd_ar": lambda: "res += AnnealResults(%s)" % L(op["l"]),
            "iadd_self": lambda: "res += res",
            "iadd_aux": lambda: "res += aux",
            "add": lambda: "res = res + %s" % (L(op["l"]) if op.get("plain") else "AnnealResults(%s)" % L(op["l"])),
            "add_aux": lambda: "res = res + aux",
            "mul": lambda: "res = res * %d" % op["i"],
            "imul": lambda: "res *= %d" % op["i"],
            "rmul": lambda: "res = %d * res" % op["i"],
            "getslice": lambda: "res = res[%s]" % SL(op["sl"]),
            "setitem": lambda: "res[%d] = %s" % (op["i"], R(op["r"])),
            "delitem": lambda: "del res[%d]" % op["i"],
            "setslice": lambda: "res[%s] = %s" % (SL(op["sl"]), L(op["l"])),
            "delslice": lambda: "del res[%s]" % SL(op["sl"]),
            "clear": lambda: "res.clear()",
            "sort": lambda: "res.sort(reverse=True)" if op.get("rev") else "res.sort()",
            "reverse": lambda: "res.reverse()",
            "copy": lambda: "res = res.copy()",
            "to_boolean": lambda: "res = res.to_boolean()",
            "to_spin": lambda: "res = res.to_spin()",
            "swap": lambda: "res, aux = aux, res",
            "stash": lambda: "aux = res.copy()",
        }.get(o, lambda: "res = res.%s(%s)" % (o, fam.get(o, "%s") % json.dumps({k: v for k, v in op.items() if k != "o"})))())
    if not all(look):
        out.append("res.best, aux.best")
    return "; ".join(out)

class Finder:
    """keeps, per signature, the smallest failing history; minimises it at the end"""
    def __init__(self):
        self.best = {}
        self.count = {}

    def add(self, sig, case, why):
        self.count[sig] = self.count.get(sig, 0) + 1
        size = len(json.dumps(case))
        if sig not in self.best or size < self.best[sig][0]:
            self.best[sig] = (size, case, why)

    def emit(self, ctx, I=None):
        for sig, (_, case, why) in sorted(self.best.items()):
            case, why = minimise(impl_for(case), case, sig, why)
            ctx.violation(sig, case, "%s  [minimal history: %s ; %d failing histories with this signature in this run]"
                          % (why, pycode(case), self.count[sig]))

_impls = {}

def impl_for(case):
    key = (case.get("style", "frac"), case.get("ety", "int"))
    if key not in _impls:
        _impls[key] = Impl(*key)
    return _impls[key]

def fails_with(I, case, sig):
    try:
        _, bad = run_seq(impl_for(case), case)      # (the candidate may name another value style / entry type than I)
    except Exception:
        return None
    last = len(case["seq"]) - 1
    for k, s, why in bad:
        if s == sig and k == last:
            return why
    return None

def minimise(I, case, sig, why):
    """greedy: drop earlier steps, initial elements and operand elements while the last step still fails with `sig`"""
    case = json.loads(json.dumps(case))
    changed = True
    while changed:
        changed = False
        cands = []
        lk = looks(case) if case.get("look") is not None else None
        for k in range(len(case["seq"]) - 1):
            c = dict(case, seq=case["seq"][:k] + case["seq"][k + 1:])
            if lk is not None:
                c["look"] = lk[:k] + lk[k + 1:]
            cands.append(c)
        if lk is not None:
            for k in range(len(lk) - 1):
                if lk[k]:          # a look that is not needed for the failure
                    cands.append(dict(case, look=lk[:k] + [0] + lk[k + 1:]))
        if case.get("ety", "int") != "int":
            cands.append(dict(case, ety="int"))
        for key in ("init", "aux"):
            l = case.get(key, [])
            for k in range(len(l)):
                cands.append(dict(case, **{key: l[:k] + l[k + 1:]}))
        for c in cands:
            w = fails_with(I, c, sig)
            if w:
                case, why, changed = c, w, True
                break
    return case, why

def _minval(items):
    """least value among the items of an observation string (`N` if there is none) — what `best` has to show"""
    vals = [it.split(":")[0] for it in items.split(";") if it]
    if not vals:
        return "N"
    key = lambda v: (1, 0) if v == "inf" else (-1, 0) if v == "-inf" else (0, Fraction(v))
    return min(vals, key=key)

def nontrivial_obs(obs):
    prev = None
    for s in obs:
        if s.startswith("E:"):
            return True
        b = _minval(s.split("#")[2].rsplit("|", 2)[0])
        if prev is not None and b != prev:
            return True
        prev = b
    return False

def policy(case):
    lk = case.get("look")
    return "every-step" if lk is None or all(lk) else "end-only" if not any(lk[:-1]) else "some-steps"

def process_seqs(ctx, I, cases, finder, family="seq"):
    """I: the Impl for all cases, or None = the Impl each case names (value style, entry type)"""
    models = common.run_driver([line(c) for c in cases])
    for c, m in zip(cases, models):
        obs, bad = run_seq(I or impl_for(c), c)
        ctx.case(c, nontrivial_obs(obs)); ctx.traces += 1
        ctx.count("%s:len%02d" % (family, len(c["seq"])))
        ctx.count("look:" + policy(c)); ctx.count("ety:" + c.get("ety", "int"))
        for s in obs:
            ctx.count("outcome:" + s.split("#")[0].split(":")[0] + (":" + s.split("#")[0].split(":")[1] if s.startswith("E:") else ""))
        ms = m.get("steps") if isinstance(m, dict) else None
        if ms is None or len(ms) != len(obs):
            ctx.diff(family, c, obs, m)
        else:
            # the model's state is known after every step; the real object shows `best` only where the history looks
            look = looks(c)
            for k, (x, y) in enumerate(zip(obs, ms)):
                if not same_obs(ctx, x, y if look[k] else mask(y)):
                    ctx.diff(family, cut(c, k), x, y)
                    break
        for k, sig, why in bad:
            finder.add(sig, cut(c, k), why)

# ------------------------------------------------------------------ exhaustive trees

def explore(ctx, I, finder, init, aux, prefix, alphabet, depth, blind=False, tag="tree"):
    """every sequence over the alphabet of length <= depth after the prefix, node by node against the Lean machine.
    blind=False: the harness looks at the objects after every step.  blind=True: every history is looked at only at its END —
    each node is judged on raw copies of the two collections, the objects the longer histories go on with stay unobserved."""
    req = {"op": "c13tree", "init": init, "aux": aux, "prefix": prefix, "alphabet": alphabet, "depth": depth}
    model = common.run_driver([req])[0]
    nodes = model.get("nodes")
    if nodes is None:
        raise common.Infra("driver: %s" % model)
    cur, auxc = I.AR(I.mkl(init)), I.AR(I.mkl(aux))
    ok = True
    if not blind:
        ok = inv_fail(cur) is None and inv_fail(auxc) is None
    pre_obs = []
    for op in prefix:
        cur, auxc, o, _, ok = step_impl(I, op, cur, auxc, ok, None if blind else same, pre_seen=not blind)
        pre_obs.append(o)
    pos = [0]
    ndiff = [0]
    path = list(prefix)
    clone = I.rawclone if blind else I.clone
    extra = {} if I.ety == "int" else {"ety": I.ety}

    def failing():
        c = dict({"init": init, "aux": aux, "seq": list(path)}, **extra)
        if blind:
            c["look"] = [0] * (len(path) - 1) + [1]
        return c

    def walk(cur, auxc, ok, d, compare=True):
        for op in alphabet:
            c2, a2 = clone(cur), clone(auxc)
            c2, a2, s, bad, ok2 = step_impl(I, op, c2, a2, ok, I.rawclone if blind else same, pre_seen=not blind)
            path.append(op)
            i = pos[0]; pos[0] += 1
            ctx.evaluations += 1
            eq = (i < len(nodes) and same_obs(ctx, s, nodes[i])) if compare else None
            if eq is False:
                ndiff[0] += 1
                if ndiff[0] <= 20:
                    ctx.diff(tag, failing(), s, nodes[i] if i < len(nodes) else None)
            for sig, why in bad:
                if blind and len(path) > 1 and "stale-best" in sig:
                    sig += UNOBS
                finder.add(sig, failing(), why)
            if d > 1:
                walk(c2, a2, ok2, d - 1, compare and eq is True)   # below a difference the states differ anyway
            path.pop()
    walk(cur, auxc, ok, depth)
    if pos[0] != len(nodes):
        ctx.diff(tag, {"init": init, "aux": aux, "prefix": prefix}, pos[0], len(nodes))
    ctx.traces += pos[0]
    ctx.count("tree:nodes", pos[0])
    if tag != "tree":
        ctx.count(tag + ":nodes", pos[0])

# ------------------------------------------------------------------ random sequences

def gen_result(rng, illtyped=False, pinf=0.12):
    """pinf: probability of a value outside the small finite pool (+inf twice as likely as -inf, +-2^80)"""
    spin = rng.random() < 0.3
    n = rng.randint(0, 3)
    labels = sorted(rng.sample(range(4), n))
    if illtyped and rng.random() < 0.5:
        st = [[k, rng.choice([0, 1, -1, 2])] for k in labels]
    else:
        st = [[k, rng.choice([1, -1] if spin else [0, 1])] for k in labels]
    r = rng.random()
    v = (str(rng.randint(-2, 3)) if r < 0.75 else rng.choice(["1/2", "-1/2", "3/2", "5/4", "-3/4"]) if r < 0.95
         else rng.choice(["1/3", "-2/3", "7/5"]))
    if rng.random() < pinf:
        v = rng.choice(["inf", "inf", "inf", "inf", "-inf", "-inf", HUGE, "-" + HUGE])
    return [st, v, spin]

def gen_list(rng, ill, lo=0, hi=3, pinf=0.12):
    return [gen_result(rng, ill, pinf) for _ in range(rng.randint(lo, hi))]

def gen_slice(rng):
    def e():
        return None if rng.random() < 0.35 else rng.randint(-5, 5)
    st = rng.choice([None, None, 1, 1, -1, 2, -2, 3, 0] if rng.random() < 0.5 else [None, 1])
    return [e(), e(), st]

def gen_op(rng, ill, recent, pinf=0.12):
    """`recent`: results recently put into the collection (so that remove finds something)"""
    def res():
        if recent and rng.random() < 0.5:
            return rng.choice(recent)
        r = gen_result(rng, ill, pinf); recent.append(r); return r
    o = rng.choice([
        "append", "append", "add_state", "insert", "insert", "remove", "remove", "pop", "pop", "getitem",
        "extend_list", "extend_ar", "extend_ar", "extend_self", "extend_aux", "iadd_list", "iadd_ar", "iadd_ar",
        "iadd_self", "iadd_aux", "add", "add_aux", "mul", "imul", "rmul", "getslice", "getslice", "setitem", "setitem",
        "delitem", "delitem", "setslice", "setslice", "delslice", "delslice", "clear", "sort", "sort", "reverse",
        "copy", "filter", "filter_states", "apply_function", "convert_states", "to_boolean", "to_spin", "swap",
        "stash", "construct", "extend_iter", "iadd_iter", "setslice_iter"])
    op = {"o": o}
    if o in ("append", "add_state", "insert", "remove", "setitem"):
        op["r"] = res()
    if o in ("insert", "pop", "getitem", "setitem", "delitem"):
        op["i"] = rng.randint(-4, 4)
    if o in ("mul", "imul", "rmul"):
        op["i"] = rng.choice([-1, 0, 0, 1, 2, 2, 3])
    if o in ("extend_list", "extend_ar", "iadd_list", "iadd_ar", "add", "setslice", "construct", "extend_iter",
             "iadd_iter", "setslice_iter"):
        op["l"] = gen_list(rng, ill, 0, 3, pinf); recent.extend(op["l"])
    if o == "add":
        op["plain"] = rng.random() < 0.5
    if o in ("getslice", "setslice", "delslice", "setslice_iter"):
        op["sl"] = gen_slice(rng)
    if o == "sort":
        op["rev"] = rng.random() < 0.3
    if o == "filter":
        op["f"] = rng.choice(["value_le", "value_gt", "spin", "nospin", "all", "none"])
        op["c"] = str(rng.randint(-1, 2)) if rng.random() > pinf else rng.choice(["inf", "-inf", HUGE])
    if o == "filter_states":
        op["f"] = rng.choice(["has", "len_le", "all", "none"]); op["k"] = rng.randint(0, 3); op["v"] = rng.choice([0, 1, -1])
    if o == "apply_function":
        op["f"] = rng.choice(["neg", "shift", "setvalue", "square", "id", "penalise"]); op["c"] = rng.choice(["1", "-2", "1/2"])
        if op["f"] == "setvalue" and rng.random() < 3 * pinf:
            op["c"] = rng.choice(["inf", "inf", "-inf"])        # (shift keeps a finite constant: inf + -inf would be NaN)
        if op["f"] == "penalise":
            op["k"] = rng.randint(0, 3); op["v"] = rng.choice([0, 1, -1])
    if o == "convert_states":
        op["f"] = rng.choice(["relabel", "drop", "id"]); op["k"] = rng.randint(0, 2)
    return op

def gen_case(rng, maxlen=15, pinf=0.12):
    ill = rng.random() < 0.08
    recent = []
    init = gen_list(rng, ill, 0 if pinf < 0.5 else 1, 3, pinf); recent.extend(init)
    aux = gen_list(rng, ill, 0, 2, pinf) if rng.random() < 0.5 else []
    seq, grow = [], 0
    for _ in range(rng.randint(1, maxlen)):
        op = gen_op(rng, ill, recent, pinf)
        if op["o"] in ("mul", "imul", "rmul", "extend_self", "iadd_self", "add_aux", "extend_aux", "iadd_aux", "stash"):
            grow += 1
            if grow > 5:       # keep the collections small (each of these can double the size)
                continue
        seq.append(op)
    c = {"family": "seq" if pinf < 0.5 else "infseq", "init": init, "seq": seq, "style": rng.choice(["frac", "frac", "float"])}
    if aux:
        c["aux"] = aux
    if c["style"] == "float" and not all_dyadic(c):
        c["style"] = "frac"
    # observation policy: where the harness reads `best` (the end of the history is always looked at)
    r = rng.random()
    if r >= 0.4:
        p = 0.0 if r < 0.7 else rng.choice([0.15, 0.3, 0.5])
        c["look"] = [int(rng.random() < p) for _ in seq[:-1]] + [1]
    # the number type the state entries are spelled in
    if rng.random() < 0.5:
        c["ety"] = rng.choice(ETYPES[1:])
    return c

def all_dyadic(c):
    def dy(s):
        if "inf" in s:
            return True
        d = Fraction(s).denominator
        # (the huge values +-2^80 are exact as floats, but 2^80 + 1/2 is not: histories holding them run with int / Fraction)
        return d & (d - 1) == 0 and abs(Fraction(s)) < 2 ** 40
    vals = [r[1] for r in c["init"] + c.get("aux", [])]
    for op in c["seq"]:
        if "r" in op: vals.append(op["r"][1])
        vals += [r[1] for r in op.get("l", [])]
        if "c" in op: vals.append(op["c"])
    return all(dy(v) for v in vals)

# ------------------------------------------------------------------ the check

# the alphabet of the `ety` tree: the two conversions, what feeds them (elements of both kinds arriving by every route) and what
# carries typed states along (copies, slices, user functions on states)
ETY_INITS = [[A, B, S], [S, Z, N], [H, A]]
ETY_ALPHA = [{"o": "to_boolean"}, {"o": "to_spin"}, {"o": "append", "r": Z}, {"o": "add_state", "r": N}, {"o": "pop", "i": 0},
             {"o": "extend_aux"}, {"o": "iadd_list", "l": [S, A]}, {"o": "copy"}, {"o": "getslice", "sl": sl(1)}, {"o": "sort"},
             {"o": "convert_states", "f": "relabel", "k": 1}, {"o": "filter_states", "f": "has", "k": 0, "v": 1}, {"o": "stash"}]

def check(ctx):
    finder = Finder()
    try:
        _check(ctx, finder)
    finally:
        # (also when the harness itself stumbles over what the implementation returned: what was found is reported)
        finder.emit(ctx)

def _check(ctx, finder):
    I = Impl()
    ctx.exhaustive = True
    full = CORE + EXTRA
    for k, init in enumerate(INITS):
        # every sequence of length <= 3 over the full alphabet (second collection empty / non-empty in turn)
        explore(ctx, I, finder, init, [B, Z] if k % 2 else [], [], full, 3)
    if ctx.tier == "thorough":
        for init in INITS:
            for op in CORE:
                explore(ctx, I, finder, init, [], [op], CORE, 3)      # lengths 2..4 over the core alphabet
    # the extended values: every sequence of length <= 3 over the core + infinite / huge operands
    inf_alpha = INF_CORE + INF_OPS
    n0 = ctx.hist.get("tree:nodes", 0)
    for k, init in enumerate(INF_INITS):
        explore(ctx, I, finder, init, [P, A] if k % 2 else [], [], inf_alpha, 3)
    ctx.count("inftree:nodes", ctx.hist.get("tree:nodes", 0) - n0)
    ctx.count("tree:alphabet-inf", len(inf_alpha))
    for init in INF_INITS:
        for op in inf_alpha:
            ctx.distinct.add(json.dumps([init, op], sort_keys=True))
    ctx.count("tree:alphabet-core", len(CORE)); ctx.count("tree:alphabet-full", len(full))
    # the exhaustive part also counts as cases for the evidence: one per (init, first op)
    for init in INITS:
        for op in full:
            ctx.distinct.add(json.dumps([init, op], sort_keys=True))
    # observation policy `end-only`, exhaustively: every sequence of length <= 3 over the core alphabet (thorough: the full
    # one), each looked at only at its end
    for k, init in enumerate(INITS):
        explore(ctx, I, finder, init, [B, Z] if k % 2 else [], [], full if ctx.tier == "thorough" else CORE, 3, blind=True,
                tag="blindtree")
    if ctx.tier == "thorough":
        for k, init in enumerate(INF_INITS):
            explore(ctx, I, finder, init, [P, A] if k % 2 else [], [], inf_alpha, 3, blind=True, tag="blindtree")
    for init in INITS:
        for op in CORE:
            ctx.distinct.add(json.dumps([init, op, "end-only"], sort_keys=True))
    # state-entry types: every sequence of length <= 3 over the conversion alphabet, per entry type
    for ety in ETYPES[1:]:
        for k, init in enumerate(ETY_INITS):
            explore(ctx, Impl("frac", ety), finder, init, [N, A] if k % 2 else [], [], ETY_ALPHA, 3, tag="etytree")
            for op in ETY_ALPHA:
                ctx.distinct.add(json.dumps([init, op, ety], sort_keys=True))
    cases = [gen_case(ctx.rng) for _ in range(ctx.scale(2000, 20000))]
    cases += [gen_case(ctx.rng, 10, pinf=0.7) for _ in range(ctx.scale(800, 8000))]      # family infseq
    for fam in ("seq", "infseq"):
        process_seqs(ctx, None, [c for c in cases if c["family"] == fam], finder, family=fam)
    if ctx.diffs and not finder.best:
        search(ctx, I, finder)

def search(ctx, I, finder):
    """failing-input search after a correspondence difference: every one-step extension of each disagreeing
    history (under its own observation policy and looked at only at its end), and a fresh batch of random histories,
    under the direct oracle only"""
    for d in ctx.diffs[:30]:
        c = d["case"]
        if "seq" not in c:
            continue
        for op in CORE + EXTRA + INF_OPS:
            for blind in (False, True):
                cc = dict(c, aux=c.get("aux", []), seq=c["seq"] + [op])
                cc["look"] = ([0] * len(c["seq"]) if blind else looks(c)) + [1]
                try:
                    _, bad = run_seq(impl_for(cc), cc)
                except Exception:
                    continue
                for k, sig, why in bad:
                    finder.add(sig, cut(cc, k), why)
    for k in range(3000):
        c = gen_case(ctx.rng, pinf=0.7 if k % 3 == 0 else 0.12)
        _, bad = run_seq(impl_for(c), c)
        for k, sig, why in bad:
            finder.add(sig, cut(c, k), why)

def replay(ctx, payload):
    c = payload.get("case") or (payload.get("first_difference") or {}).get("case")
    if not c or "seq" not in c:
        ctx.notes.append("replay file has no case; re-running the full check")
        return check(ctx)
    finder = Finder()
    process_seqs(ctx, None, [c], finder, family="replay")
    for sig, (_, case, why) in sorted(finder.best.items()):
        ctx.violation(sig, case, why)
