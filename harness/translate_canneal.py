"""C -> Lean translator for the CPython wrapper `qubovert/sim/_canneal.c` (unit tag `cw`; DESIGN.md §7, §4 C17).

    /venv/bin/python -m harness.translate_canneal    # regenerate lean/Qv/Gen/{CSourceCanneal.lean,cmanifest_canneal.json}

An extension of `harness/translate_c.py` (same fragment, same discipline: one rule per construct, nothing guessed,
anything else -> Untranslatable; read its docstring first).  `FnPy` subclasses `translate_c.Fn` and adds exactly
the constructs the wrapper needs:

  PyObject *        -> `PyObj α` (`Qv/Gen/CPreludePy.lean`): a *value* (NULL / int / float / list / tuple); reference
                       counts, the error indicator and object identity are not modelled
  the prologue      `PyObject *a, ..; int n, ..;  if (!PyArg_ParseTuple(args, "<fmt>", &a, .., &n, ..)) return NULL;`
                    of a `static PyObject *f(PyObject *self, PyObject *args)` -> the generated function takes the
                    parsed variables as its parameters, in format order: `O` -> `PyObj α` (the variable must be a
                    `PyObject *`), `i` -> `Int` (a C `int`; the variable must be an `int`); every other format unit
                    is rejected.  The failing branch (`return NULL`: wrong arity, an `i` argument that is not an
                    int or does not fit) is an error path and is abstracted: the definition describes the call
                    after a successful parse
  API calls         PyList_Size(o) -> `cwListSize o` (long);  PyList_GetItem(o, i) -> `cwListGetItem o i` (checked
                    index);  PyLong_AsLong(o) -> `cwLongAsLong o` (long; fails on a non-int);  PyFloat_AsDouble(o)
                    -> `cwFloatAsDouble o` (double; accepts float and int);  PyList_New(n) -> `cwListNew n`;
                    PyList_SetItem(l, i, o) as a statement, `l` a variable -> `l := cwListSetItem l i o` and, when
                    `o` is a variable, `o` has no value afterwards (its reference was stolen: reading or storing
                    it again is Untranslatable);  PyLong_FromLong(x) -> `cwLongFromLong x`;  PyFloat_FromDouble(x)
                    -> `cwFloatFromDouble x`;  Py_BuildValue("O..O", a, .., z) with >= 2 object arguments ->
                    `cwBuildTuple [a, .., z]`
                    A failing API call (NULL / -1 with an exception set; the wrapper never checks) is an error of
                    the monad: "returns .ok" includes "no API call failed".
  NOT accepted      the unchecked macros / inline functions PyFloat_AS_DOUBLE, PyList_GET_ITEM, PyList_GET_SIZE,
                    PyList_SET_ITEM, PyLong_AS_LONG, PyTuple_*, memcpy, calloc, ... : they are not in the table, so
                    a wrapper using them is `untranslatable: call of ...` (seeded C12-8 / C17-8 / C17-1,3,5)
  kernel calls      `anneal_quso(..)` / `anneal_puso(..)` are calls of the definitions `translate_c` generates from
                    `src/anneal_quso.c` / `src/anneal_puso.c` (argument C types are compared with the callee's
                    parameter types; pointer arguments must be distinct buffer variables)
  everything else   as in `translate_c` (malloc/free/noLeak, checked int/long arithmetic, checked `a[e]`, for-loops
                    as separate definitions, ...)

clang is run on `_canneal.c` with the Python include directory; only the declarations whose name contains one of
`FILTERS` are dumped (the full JSON AST of Python.h is 50 MB).
"""
import concurrent.futures, hashlib, json, os, subprocess, sys, sysconfig
from . import translate_c as tc
from .translate_c import Untranslatable, ToolFailure, kids, strip_parens, atom, mangle

GEN_DIR = tc.GEN_DIR
FILE = "qubovert/sim/_canneal.c"
FILTERS = ["anneal", "build_py"]
FUNCTIONS = ["build_py_states_values", "c_anneal_quso", "c_anneal_puso"]
KERNELS = ["anneal_quso", "anneal_puso"]
PROPS = ["C17", "C12", "C11"]

TIE = {
    "build_py_states_values": dict(modules=["CannealBuild"], theorems=[
        "build_py_states_values_loop1_loop1_eq_model", "build_py_states_values_eq_model"]),
    "c_anneal_quso": dict(modules=["CannealQuso", "CannealSafe"], theorems=[
        "c_anneal_quso_loop1_eq_model", "c_anneal_quso_loop2_eq_model", "c_anneal_quso_loop3_eq_model",
        "c_anneal_quso_loop4_loop1_eq_model", "c_anneal_quso_eq_model", "c_anneal_quso_mem_safe",
        "c_anneal_quso_front_safe"]),
    "c_anneal_puso": dict(modules=["CannealPuso", "CannealSafe"], theorems=[
        "c_anneal_puso_loop1_eq_model", "c_anneal_puso_loop2_eq_model", "c_anneal_puso_loop3_eq_model",
        "c_anneal_puso_loop4_loop1_eq_model", "c_anneal_puso_eq_model", "c_anneal_puso_mem_safe",
        "c_anneal_puso_front_safe"]),
}

# name -> (writes, argument kinds, result C type, lean primitive, monadic)
PY_API = {
    "PyList_Size": ([], ["pyobj"], "long", "cwListSize", True),
    "PyList_GetItem": ([], ["pyobj", "long"], "pyobj", "cwListGetItem", True),
    "PyLong_AsLong": ([], ["pyobj"], "long", "cwLongAsLong", True),
    "PyFloat_AsDouble": ([], ["pyobj"], "double", "cwFloatAsDouble", True),
    "PyList_New": ([], ["long"], "pyobj", "cwListNew", True),
    "PyList_SetItem": ([0], ["pyobj", "long", "pyobj"], "int", "cwListSetItem", True),
    "PyLong_FromLong": ([], ["long"], "pyobj", "cwLongFromLong", False),
    "PyFloat_FromDouble": ([], ["double"], "pyobj", "cwFloatFromDouble", False),
    "Py_BuildValue": ([], None, "pyobj", "cwBuildTuple", False),
}

CFG = dict(tc.KERNEL_CTX)
CFG["externs"] = dict(tc.KERNEL_CTX["externs"])
for _n, _s in PY_API.items():
    CFG["externs"][_n] = dict(lean=_s[3], writes=_s[0], ret=_s[2], monadic=_s[4])
CFG["file"] = FILE


def py_include():
    return sysconfig.get_paths()["include"]


_orig_parse_ctype = tc.parse_ctype


def _parse_ctype(s, tu=None, node=None):
    if s.replace("const ", "").strip() in ("PyObject *", "struct _object *"):
        return "pyobj"
    return _orig_parse_ctype(s, tu, node)


class _Patched:
    """translate_c.parse_ctype is a module-level function: give it the one extra type while this module translates"""

    def __enter__(self):
        tc.parse_ctype = _parse_ctype

    def __exit__(self, *a):
        tc.parse_ctype = _orig_parse_ctype


class PyTU(tc.TU):
    """`_canneal.c` through clang's JSON AST, restricted to the declarations matching FILTERS"""

    def __init__(self, path, src_dir):
        self.path = path
        self.text = open(path, "rb").read()
        if not os.path.exists(tc.CLANG):
            raise ToolFailure("%s is missing" % tc.CLANG)
        self.funcs, self.records, self.protos = {}, {}, {}
        seen = set()
        procs = [subprocess.Popen([tc.CLANG, "-Xclang", "-ast-dump=json", "-Xclang", "-ast-dump-filter=" + flt,
                                   "-fsyntax-only", "-I" + py_include(), "-I" + src_dir, path],
                                  stdout=subprocess.PIPE, stderr=subprocess.PIPE) for flt in FILTERS]
        outs = [pr.communicate() + (pr.returncode,) for pr in procs]
        for stdout, stderr, rc in outs:
            if rc != 0:
                raise ToolFailure("clang does not parse %s: %s" % (os.path.basename(path),
                                                                   stderr.decode(errors="replace")[-600:]))
            s, dec, i = stdout.decode(errors="replace"), json.JSONDecoder(), 0
            try:
                while True:
                    while i < len(s) and s[i].isspace():
                        i += 1
                    if i >= len(s):
                        break
                    n, i = dec.raw_decode(s, i)
                    if n.get("kind") != "FunctionDecl" or n.get("id") in seen:
                        continue
                    seen.add(n.get("id"))
                    if any(c.get("kind") == "CompoundStmt" for c in n.get("inner", [])):
                        f = n.get("loc", {}).get("file") or n.get("loc", {}).get("expansionLoc", {}).get("file")
                        if f is None or os.path.realpath(f) == os.path.realpath(path):
                            self.funcs.setdefault(n["name"], []).append(n)
                    else:
                        self.protos.setdefault(n["name"], []).append(n)
            except ValueError as err:
                raise ToolFailure("clang's JSON AST of %s is unreadable: %s" % (os.path.basename(path), err))


def string_literal(n):
    n = strip_parens(n)
    while n.get("kind") == "ImplicitCastExpr":
        n = strip_parens(kids(n)[0])
    if n.get("kind") == "StringLiteral":
        v = n.get("value", "")
        if len(v) >= 2 and v[0] == '"' and v[-1] == '"':
            return v[1:-1]
    return None


class FnPy(tc.Fn):
    def lean_ty(self, t):
        if t == "pyobj":
            return "PyObj α"
        return tc.Fn.lean_ty(self, t)

    # ---- CPython API calls

    def py_arg(self, a, kind, env, em, name):
        term, t = self.ex(a, env, em)
        if kind == "long" and t == "int":
            t = "long"                      # int -> long / Py_ssize_t: value preserving
        if t != kind:
            self.fail("argument of type %s where `%s` takes %s" % (tc.show_ct(t), name, kind), a)
        return atom(term)

    def call(self, n, env, em, want_value):
        name = self.callee(n)
        if name not in PY_API:
            return tc.Fn.call(self, n, env, em, want_value)
        writes, akinds, ret, prim, monadic = PY_API[name]
        args = kids(n)[1:]
        if name == "Py_BuildValue":
            fmt = string_literal(args[0]) if args else None
            if fmt is None or len(fmt) < 2 or set(fmt) != {"O"} or len(args) != len(fmt) + 1:
                self.fail("Py_BuildValue with a format other than two or more `O` units matching its arguments", n)
            terms = [self.py_arg(a, "pyobj", env, em, name) for a in args[1:]]
            return "(cwBuildTuple [%s])" % ", ".join(terms), "pyobj"
        if len(args) != len(akinds):
            self.fail("`%s` with %d arguments" % (name, len(args)), n)
        if name == "PyList_SetItem":
            if want_value:
                self.fail("the result of PyList_SetItem used as a value", n)
            lv = strip_parens(args[0])
            if not (lv.get("kind") == "ImplicitCastExpr" and lv["castKind"] == "LValueToRValue"
                    and strip_parens(kids(lv)[0]).get("kind") == "DeclRefExpr"):
                self.fail("PyList_SetItem on a list that is not a variable", n)
            lname = strip_parens(kids(lv)[0])["referencedDecl"]["name"]
            lterm, lt = self.var_term(env, lname, lv)
            if lt != "pyobj" or env.vars[lname].loopvar:
                self.fail("PyList_SetItem on a non-object", n)
            i = self.py_arg(args[1], "long", env, em, name)
            o = self.py_arg(args[2], "pyobj", env, em, name)
            ov = strip_parens(args[2])
            stolen = None
            if ov.get("kind") == "ImplicitCastExpr" and ov["castKind"] == "LValueToRValue" \
                    and strip_parens(kids(ov)[0]).get("kind") == "DeclRefExpr":
                stolen = strip_parens(kids(ov)[0])["referencedDecl"]["name"]
                if stolen == lname:
                    self.fail("a list stored into itself", n)
            em.add("let %s : PyObj α ← cwListSetItem %s %s %s" % (mangle(lname), lterm, i, o))
            if stolen is not None:
                env.vars[stolen].bound = False          # the reference was stolen
            return None, "void"
        terms = [self.py_arg(a, k, env, em, name) for a, k in zip(args, akinds)]
        if monadic:
            return self.bind(em, self.lean_ty(ret), " ".join([prim] + terms)), ret
        return "(%s)" % " ".join([prim] + terms), ret

    def cast(self, term, frm, to, node, em):
        if "pyobj" in (frm, to) and frm != to:
            self.fail("conversion %s -> %s" % (tc.show_ct(frm), tc.show_ct(to)), node)
        return tc.Fn.cast(self, term, frm, to, node, em)


# ------------------------------------------------------------------------------------------- the prologue

def parse_tuple_prologue(fn_node, tu):
    """`static PyObject *f(PyObject *self, PyObject *args) { decls; if (!PyArg_ParseTuple(args, fmt, &v..)) return NULL; rest }`
    -> a synthetic FunctionDecl whose parameters are the parsed variables (format order) and whose body is
    the other declarations followed by `rest`.  A function of any other shape is returned unchanged."""
    params = [p for p in kids(fn_node) if p.get("kind") == "ParmVarDecl"]
    body = [c for c in kids(fn_node) if c.get("kind") == "CompoundStmt"][0]
    if [p.get("name") for p in params] != ["self", "args"]:
        return fn_node

    def fail(what, node=None):
        raise Untranslatable(what, node, tu)
    ss = list(kids(body))
    k = 0
    decls = {}
    while k < len(ss) and ss[k].get("kind") == "DeclStmt":
        for d in kids(ss[k]):
            if d.get("kind") == "VarDecl":
                decls[d["name"]] = d
        k += 1
    if k >= len(ss) or ss[k].get("kind") != "IfStmt":
        fail("a Python-callable function that does not start with `if (!PyArg_ParseTuple(args, ..)) return NULL;`", fn_node)
    st = ss[k]
    parts = kids(st)
    c = strip_parens(parts[0])
    if len(parts) != 2 or c.get("kind") != "UnaryOperator" or c.get("opcode") != "!":
        fail("argument parsing other than `if (!PyArg_ParseTuple(..)) return NULL;`", st)
    call = strip_parens(kids(c)[0])
    if call.get("kind") != "CallExpr":
        fail("argument parsing other than `if (!PyArg_ParseTuple(..)) return NULL;`", st)
    f = strip_parens(kids(call)[0])
    while f.get("kind") == "ImplicitCastExpr":
        f = strip_parens(kids(f)[0])
    if f.get("kind") != "DeclRefExpr" or f["referencedDecl"]["name"] not in ("PyArg_ParseTuple", "_PyArg_ParseTuple_SizeT"):
        fail("argument parsing other than PyArg_ParseTuple", st)
    then = parts[1]
    if then.get("kind") == "CompoundStmt" and len(kids(then)) == 1:
        then = kids(then)[0]
    if then.get("kind") != "ReturnStmt" or "NullToPointer" not in json.dumps(then):
        fail("the failing branch of PyArg_ParseTuple is not `return NULL;`", st)
    args = kids(call)[1:]
    a0 = strip_parens(args[0])
    while a0.get("kind") == "ImplicitCastExpr":
        a0 = strip_parens(kids(a0)[0])
    if a0.get("kind") != "DeclRefExpr" or a0["referencedDecl"]["name"] != "args":
        fail("PyArg_ParseTuple on something other than `args`", st)
    fmt = string_literal(args[1])
    if fmt is None or len(args) != len(fmt) + 2:
        fail("PyArg_ParseTuple whose format does not match its arguments", st)
    new_params = []
    for ch, a in zip(fmt, args[2:]):
        a = strip_parens(a)
        if not (a.get("kind") == "UnaryOperator" and a.get("opcode") == "&"
                and strip_parens(kids(a)[0]).get("kind") == "DeclRefExpr"):
            fail("PyArg_ParseTuple target that is not `&variable`", st)
        v = strip_parens(kids(a)[0])["referencedDecl"]["name"]
        d = decls.get(v)
        if d is None or kids(d):
            fail("PyArg_ParseTuple target `%s` is not a local declared without initialiser before the call" % v, st)
        qt = d["type"].get("qualType", "")
        if ch == "O" and qt != "PyObject *":
            fail("format unit `O` stored into `%s` of type %s" % (v, qt), st)
        if ch == "i" and qt != "int":
            fail("format unit `i` stored into `%s` of type %s" % (v, qt), st)
        if ch not in "Oi":
            fail("PyArg_ParseTuple format unit `%s`" % ch, st)
        if v in [p["name"] for p in new_params]:
            fail("`%s` parsed twice" % v, st)
        p = dict(d)
        p["kind"] = "ParmVarDecl"
        new_params.append(p)
    parsed = {p["name"] for p in new_params}
    new_body = []
    for s in ss[:k]:
        rest = [d for d in kids(s) if not (d.get("kind") == "VarDecl" and d["name"] in parsed)]
        if rest:
            s2 = dict(s)
            s2["inner"] = rest
            new_body.append(s2)
    new_body += ss[k + 1:]
    body2 = dict(body)
    body2["inner"] = new_body
    node2 = dict(fn_node)
    node2["inner"] = new_params + [body2]
    return node2


# ------------------------------------------------------------------------------------------- driver

def _kernel_tu(cfg):
    path = os.path.join(tc.repo(), cfg["file"])
    try:
        return tc.TU(path) if os.path.exists(path) else None
    except Untranslatable:
        return None


def kernel_cfgs():
    return [cfg for cfg in tc.FILES if any(k in cfg["functions"] for k in KERNELS)]


def kernel_done(tus):
    """the call interface (written pointer parameters, parameter C types, ..) of the kernel functions, from
    translate_c's own translation of the kernel files (`tus`: their translation units, in kernel_cfgs() order)"""
    done = {}
    for cfg, tu in zip(kernel_cfgs(), tus):
        for fname in cfg["functions"]:
            info = dict(status="untranslatable")
            try:
                if tu is None:
                    raise Untranslatable("source file %s is missing" % cfg["file"])
                nodes = tu.funcs.get(fname, [])
                if len(nodes) != 1:
                    raise Untranslatable("function %s not defined exactly once" % fname)
                fn = tc.Fn(tu, cfg, nodes[0], done)
                _, _, _, _, ptys = fn.translate()
                info = dict(status="translated", writes=fn.writes, ret=fn.ret, fuel=fn.fuel, ctx_args=cfg["args"],
                            param_ctys=ptys, extra=fn.extra_params)
            except Untranslatable as err:
                info = dict(status="untranslatable: %s" % err)
            done[fname] = info
    return {k: v for k, v in done.items() if k in KERNELS}


def check_prototypes(tu, done):
    """the prototypes `_canneal.c` sees (anneal_quso.h / anneal_puso.h) must have the parameter types of the definitions"""
    for k in KERNELS:
        d = done.get(k)
        if not d or d["status"] != "translated":
            continue
        ps = tu.protos.get(k, [])
        if len(ps) != 1:
            raise Untranslatable("`%s` is not declared exactly once for _canneal.c" % k)
        ptys = [tc.parse_ctype(p["type"].get("desugaredQualType", p["type"]["qualType"]), tu, p)
                for p in kids(ps[0]) if p.get("kind") == "ParmVarDecl"]
        if ptys != d["param_ctys"]:
            raise Untranslatable("the header's prototype of `%s` differs from its definition" % k)


def translate_all():
    out, manifest = [], {}
    path = os.path.join(tc.repo(), FILE)
    tu, tu_err, done = None, None, {}
    with _Patched():
        try:
            if not os.path.exists(path):
                raise Untranslatable("source file %s is missing" % FILE)
            with concurrent.futures.ThreadPoolExecutor(max_workers=4) as ex:      # the clang runs, side by side
                f0 = ex.submit(PyTU, path, os.path.join(tc.repo(), tc.SRC))
                fk = [ex.submit(_kernel_tu, cfg) for cfg in kernel_cfgs()]
                tu, ktus = f0.result(), [f.result() for f in fk]
            done = kernel_done(ktus)
            check_prototypes(tu, done)
        except Untranslatable as err:
            tu_err = str(err)
        out.append("/-! ## %s -/\n" % FILE)
        out.append("section\nopen Qv.KMem Qv.Kernel\n")
        for fname in FUNCTIONS:
            tie = TIE.get(fname, dict(modules=[], theorems=[]))
            rec = dict(file=FILE, function=fname, lean_name="Qv.GenC." + fname, props=PROPS,
                       modules=["Qv.Proofs.GenEqC." + m for m in tie["modules"]],
                       theorems=["Qv.GenC." + t for t in tie["theorems"]],
                       source_hash=None, lines=None, loops=[], outside=[])
            info = dict(status=None)
            try:
                if tu is None or tu_err:
                    raise Untranslatable(tu_err)
                nodes = tu.funcs.get(fname, [])
                if len(nodes) != 1:
                    raise Untranslatable("function %s not defined exactly once" % fname)
                node = nodes[0]
                seg = tu.source(node)
                rec["source_hash"] = hashlib.sha256(seg.encode()).hexdigest()[:16]
                l0 = tu.line_of(node)
                rec["lines"] = [l0, l0 + seg.count("\n")]
                fn = FnPy(tu, CFG, parse_tuple_prologue(node, tu), done)
                loops, binders, rty, lines, ptys = fn.translate()
                if fn.outside:
                    raise Untranslatable("a branch outside the fragment: %s" % fn.outside[0])
                info.update(status="translated", writes=fn.writes, ret=fn.ret, fuel=fn.fuel, ctx_args=CFG["args"],
                            param_ctys=ptys, extra=fn.extra_params)
                rec.update(status="translated", loops=["Qv.GenC." + x for x in fn.loop_names])
                out.append(loops)
                out.append("/-- generated from `%s`, `%s`, lines %d-%d, sha256[:16] of its source text %s -/\n"
                           "def %s %s : %s := do\n%s\n" % (
                               FILE, fname, rec["lines"][0], rec["lines"][1], rec["source_hash"],
                               fname, binders, rty, "\n".join("  " + l for l in lines)))
            except Untranslatable as err:
                rec["status"] = info["status"] = "untranslatable: %s" % err
                out.append("-- %s `%s` (%s): %s\n-- no definition of `%s` is generated; its theorems cannot compile\n" % (
                    FILE, fname, rec["source_hash"], rec["status"], fname))
            done[fname] = info
            manifest[FILE + "::" + fname] = rec
        out.append("end\n")
    header = ("import Qv.Gen.CSource\nimport Qv.Gen.CPreludePy\n/-!\n# Qv.Gen.CSourceCanneal — GENERATED by "
              "harness/translate_canneal.py from `qubovert/sim/_canneal.c`; do not edit.\n\nRegenerated on every "
              "`./check C17|C12|C11` run from the current working tree (`$VERIF_REPO`, default `/repo`)\nthrough "
              "clang's JSON AST.  Rules: docstrings of `harness/translate_canneal.py` and `harness/translate_c.py`;\n"
              "meaning of the CPython API calls: `Qv/Gen/CPreludePy.lean`.  `anneal_quso` / `anneal_puso` are the "
              "definitions\ngenerated from the kernels (`Qv/Gen/CSource.lean`).  `Qv/Proofs/GenEqC/Canneal*.lean` "
              "proves each definition a\nrefinement of the hand-written checked-memory model `Qv.KMem.cAnnealQuso` "
              "/ `cAnnealPuso` / `buildPy`.\n-/\nset_option linter.unusedVariables false\nnamespace Qv.GenC\n\n")
    return header + "\n".join(out) + "\nend Qv.GenC\n", manifest


def write(gen_dir=GEN_DIR):
    text, manifest = translate_all()
    for name, content in (("CSourceCanneal.lean", text),
                          ("cmanifest_canneal.json", json.dumps(manifest, indent=1, sort_keys=True) + "\n")):
        p = os.path.join(gen_dir, name)
        if not os.path.exists(p) or open(p).read() != content:
            open(p, "w").write(content)
    return manifest


if __name__ == "__main__":
    m = write()
    for k, r in m.items():
        print("%-55s %s  %s  loops=%d" % (k, r["source_hash"], r["status"], len(r["loops"])))
    sys.exit(0)
