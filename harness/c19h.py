"""C19, aliasing half — histories of API calls: the REAL sharing graph of the Python objects (identity of mutable
containers, walked from the history's variables) and the set of cells each call changed, against the explicit-heap
Lean model (lean/Qv/Model/Heap.lean, HeapHist.lean; driver op "c19h"), plus an oracle written from the property.

For every step of a history the harness records
  g        the sharing graph reachable from the variables after the call: cells = mutable containers (model objects,
           dicts, lists, sets), numbered in depth-first discovery order, each with its type and the numbers of its
           children (model object: _mapping, _reverse_mapping, _variables, _constraints; dict: values; list: elements);
           immutable values are ignored
  env      the number of each variable's cell
  changed  the cells of the graph *before* the call whose own content (items in order, scalar attributes, identity of
           the containers they hold) differs after it
and compares g / env exactly with the model's prediction and requires changed to lie inside the model's write
footprint.  A difference is a correspondence difference.  The oracle (independent of the model): results of copy(),
copy constructors, create_from_info(get_info(.)) and the four properties share no container with anything that existed
before; arguments are deep-equal before and after a call; a recorded constraint is not (part of) the argument; mutating
one side of an independent pair never changes the other.  Results of the non-in-place operators, sat gates and
normalize / subgraph / subvalue are owned by the caller (copy-like), so the same oracle covers C05 'operands are left
unchanged' and C07 'the inputs are not modified' over histories.
"""
import warnings
from fractions import Fraction
from . import common
from .common import fs, exc_name, snapshot

BOOL = ["QUBO", "PUBO", "PCBO", "QUBOMatrix", "PUBOMatrix"]
SPIN = ["QUSO", "PUSO", "PCSO", "QUSOMatrix", "PUSOMatrix"]
ALL = BOOL + SPIN
DEG2 = {"QUBO", "QUSO", "QUBOMatrix", "QUSOMatrix"}
MATRIX = {"QUBOMatrix", "QUSOMatrix", "PUBOMatrix", "PUSOMatrix"}
LABELLED = {"QUBO", "QUSO", "PUBO", "PUSO", "PCBO", "PCSO"}
CONSTRAINED = {"PCBO", "PCSO"}
RELS = ["eq", "ne", "lt", "le", "gt", "ge"]
ATTRS = ["_mapping", "_reverse_mapping", "_variables", "_constraints"]
KEYS = [(0,), (1,), (2,), (0, 1), (1, 2), (0, 2), ()]
VALS = [1, -1, 2, -2, 3, Fraction(1, 2)]
COPYLIKE = {"copy", "ctor", "roundtrip", "get",
            # the caller owns what an operator / gate / utility returns (C05 "operands are left unchanged", C07 "the inputs
            # are not modified", over histories: changing the result in place afterwards must not show on an operand)
            "binop", "rsub", "muldict", "pow", "rebuild", "newlike", "sat"}
GATES = ["BUFFER", "NOT", "AND", "NAND", "OR", "NOR", "XOR", "XNOR"]


def cls_of(name):
    import qubovert as qv
    return getattr(qv, name, None) or getattr(qv.utils, name)


def quiet(f, *a, **k):
    with warnings.catch_warnings():
        warnings.simplefilter("ignore")
        return f(*a, **k)


# ------------------------------------------------------------------ the real sharing graph

def is_cell(v):
    return isinstance(v, (dict, list, set))


def is_model(o):
    return isinstance(o, dict) and hasattr(o, "__dict__")


def spliced(vals):
    """mutable containers among vals; tuples / frozensets are immutable themselves but may hold containers"""
    out = []
    for v in vals:
        if is_cell(v):
            out.append(v)
        elif isinstance(v, (tuple, frozenset)):
            out.extend(spliced(v))
    return out


def children(o):
    if is_model(o):
        d = vars(o)
        out = [d[a] for a in ATTRS if a in d and is_cell(d[a])]
        # (`_verif_*`: the verification hook of DESIGN §5 attaches its certificate to a returned matrix; not library state)
        out += spliced(v for a, v in sorted(d.items()) if a not in ATTRS and not a.startswith("_verif_"))
        out += spliced(o.values())
        return out
    if isinstance(o, dict):
        return spliced(o.values())
    if isinstance(o, list):
        return spliced(o)
    return []


def type_name(o):
    if is_model(o):
        return type(o).__name__
    if isinstance(o, dict):
        return "dict"
    if isinstance(o, list):
        return "list"
    return "set"


def walk(roots):
    """depth-first discovery order over the mutable containers reachable from roots; returns (order, id -> number)"""
    order, num = [], {}
    stack = list(reversed(roots))
    while stack:
        o = stack.pop()
        if id(o) in num:
            continue
        num[id(o)] = len(order)
        order.append(o)
        stack.extend(reversed(children(o)))
    return order, num


def graph_of(roots):
    order, num = walk(roots)
    g = [[type_name(o), [num[id(c)] for c in children(o)]] for o in order]
    return g, [num[id(r)] for r in roots], order, num


def reach_ids(o):
    return set(walk([o])[1])


def shallow(o):
    """own content of one cell: items in order, scalars by value, held containers by identity"""
    def val(v):
        return ("ref", id(v)) if is_cell(v) else ("val", type(v).__name__, repr(v))
    if isinstance(o, dict):
        items = tuple((repr(k), val(v)) for k, v in o.items())
        attrs = tuple(sorted((a, val(v)) for a, v in vars(o).items() if not a.startswith("_verif_"))) \
            if hasattr(o, "__dict__") else ()
        return ("d", items, attrs)
    if isinstance(o, list):
        return ("l", tuple(val(v) for v in o))
    return ("s", frozenset(repr(x) for x in o))


# ------------------------------------------------------------------ one history on the real objects

def sort_of(o):
    if is_model(o):
        return "model"
    if isinstance(o, dict) and "type" in o and "terms" in o:
        return "info"
    if type(o) is dict and o and all(isinstance(k, tuple) for k in o):
        return "dict"
    return "other"


def degree(o):
    return max([len(k) for k in o] + [0])


def int_labels(o):
    return all(isinstance(x, int) and not isinstance(x, bool) and x >= 0 for k in o for x in k)


def can_build(kind, src):
    """would kind(src) / kind().update(src) accept every key of src?"""
    if kind in DEG2 and degree(src) > 2:
        return False
    if kind in MATRIX and not int_labels(src):
        return False
    return True


def cons_covered(o):
    """PCBO/PCSO.solve_bruteforce evaluates the recorded constraints on assignments of the model's own variables only"""
    if not hasattr(o, "_constraints"):
        return True
    have = {x for k in o for x in k}
    return all(x in have for l in o._constraints.values() for p in l for k in p for x in k)


def nvars(o):
    return len({x for k in o for x in k})


class Hist:
    def __init__(self):
        self.env, self.sort, self.steps, self.out = [], [], [], []
        self.indep = set()          # pairs (i, j), i < j, that the property demands independent
        self.bad = []               # oracle findings: (signature, why)

    # ---- bookkeeping
    def push(self, o, sort, made_by, parent=None):
        k = len(self.env)
        self.env.append(o); self.sort.append(sort)
        if made_by in COPYLIKE:
            for j in range(k):
                self.indep.add((j, k))
        elif made_by == "sub" and parent is not None:
            for (a, b) in list(self.indep):
                if parent in (a, b):
                    other = a if b == parent else b
                    if other != k:
                        self.indep.add((min(other, k), max(other, k)))
        return k

    def partners(self, i):
        return [b if a == i else a for (a, b) in self.indep if i in (a, b)]

    # ---- one step
    def do(self, st):
        """execute the step on the real objects; record graph / changed; run the oracle.  Returns False if the call raised."""
        import qubovert as qv
        from qubovert import utils, sim
        env = self.env
        order, num = walk(env)
        pre_sh = [shallow(o) for o in order]
        pre_ids = set(num)
        op = st["o"]
        watch, result, new_sort, recorded = [], None, None, None
        leak_watch = []
        err = None
        try:
            if op == "new":
                result, new_sort = cls_of(st["kind"])(), "model"
            elif op == "dict":
                if "state_for" in st:
                    M = env[st["state_for"]]
                    spin = type(M).__name__ in SPIN
                    labels = sorted(set(M._variables) | {x for k in M for x in k}, key=repr)   # stale labels included
                    if type(M).__name__ in MATRIX and labels:
                        labels = list(range(max(labels) + 1))       # a Matrix model is over every index 0..max_index
                    result, new_sort = {v: ((-1) ** n if spin else n % 2) for n, v in enumerate(labels)}, "state"
                elif "sol_for" in st:
                    M = env[st["sol_for"]]
                    spin = type(M).__name__ in SPIN
                    result, new_sort = {i: ((-1) ** i if spin else i % 2) for i in range(M.num_binary_variables)}, "state"
                else:
                    result, new_sort = {}, "dict"
            elif op == "mut":
                o = env[st["i"]]
                leak_watch = [(j, snapshot(env[j])) for j in self.partners(st["i"])]
                key, val = tuple(st["key"]), Fraction(st["val"])
                val = int(val) if val.denominator == 1 else val
                if is_model(o):
                    o[key] += val
                else:
                    o[key] = o.get(key, 0) + val
            elif op == "copy":
                watch = [env[st["i"]]]
                result, new_sort = env[st["i"]].copy(), "model"
            elif op == "ctor":
                watch = [env[st["i"]]]
                result, new_sort = cls_of(st["kind"])(env[st["i"]]), "model"
            elif op == "info":
                watch = [env[st["i"]]]
                result, new_sort = utils.get_info(env[st["i"]]), "info"
            elif op == "frominfo":
                watch = [env[st["i"]]]
                result, new_sort = quiet(utils.create_from_info, env[st["i"]]), "model"
            elif op == "roundtrip":
                watch = [env[st["i"]]]
                result, new_sort = quiet(utils.create_from_info, utils.get_info(env[st["i"]])), "model"
            elif op == "get":
                watch = [env[st["i"]]]
                result, new_sort = getattr(env[st["i"]], st["what"]), st["what"]
            elif op == "addc":
                H, A = env[st["recv"]], env[st["arg"]]
                if A is not H:
                    watch = [A]
                kw = {"lam": 1 if st["lam"] else 0}
                quiet(getattr(H, "add_constraint_%s_zero" % st["rel"]), A, **kw)
                recorded = H._constraints[st["rel"]][-1]
            elif op == "update":
                H, A = env[st["recv"]], env[st["arg"]]
                if A is not H:
                    watch = [A]
                H.update(A)
                if type(H).__name__ in CONSTRAINED and type(A) is type(H):
                    # the receiver now holds the argument's constraint objects (by design of update): the
                    # independence demands on the receiver no longer apply
                    self.indep = {p for p in self.indep if st["recv"] not in p}
            elif op == "conv":
                A = env[st["i"]]
                watch = [A]
                f = st["f"]
                result = quiet(getattr(A, f)) if f.startswith("to_") else quiet(getattr(utils, f), A)
                new_sort = "model"
            elif op == "solve":
                A = env[st["i"]]
                watch = [A]
                if is_model(A):
                    result = A.solve_bruteforce()
                else:
                    result = (utils.solve_quso_bruteforce if st.get("spin") else utils.solve_pubo_bruteforce)(A)
            elif op == "anneal":
                A = env[st["i"]]
                init = env[st["init"]] if st.get("init") is not None else None
                watch = [A] + ([init] if init is not None else [])
                spin = type(A).__name__ in SPIN
                f = sim.anneal_puso if spin else sim.anneal_pubo
                result = quiet(f, A, num_anneals=1, anneal_duration=3, seed=1, initial_state=init)
            elif op == "client":
                o = env[st["i"]]
                leak_watch = [(j, snapshot(env[j])) for j in self.partners(st["i"])]
                client_mutate(o, self.sort[st["i"]])
            elif op == "sub":
                o = env[st["i"]]
                for k in st["path"]:
                    o = children(o)[k]
                result, new_sort = o, sort_of(o)
            elif op == "set":
                M = env[st["for"]]
                labels = sorted({x for k in M for x in k}, key=repr)
                result, new_sort = set(labels[:st.get("take", 2)]), "nodes"
            elif op in ("iupd", "imuldict", "ipow", "clear", "refresh"):
                o = env[st["recv"]]
                leak_watch = [(j, snapshot(env[j])) for j in self.partners(st["recv"])]
                r = inplace_call(o, st, env)
                if r is not o and r is not None:
                    raise RuntimeError("the in-place operation returned another object")
            elif op in ("binop", "rsub", "muldict", "pow"):
                result, new_sort = arith_call(env, st), "model"
            elif op == "rebuild":
                A = env[st["a"]]
                result, new_sort = (round(A, 1) if st["kind"] == "round" else A.subs("x", 1)), "model"
            elif op == "newlike":
                A = env[st["a"]]
                ex = [env[j] for j in st["extras"]]
                k = st["kind"]
                if k == "normalize":
                    result = utils.normalize(A)
                elif k == "subgraph":
                    result = utils.subgraph(A, *ex)
                elif k == "m_subgraph":
                    result = A.subgraph(*ex)
                elif k == "subvalue":
                    result = utils.subvalue(ex[0], A)
                else:
                    result = A.subvalue(ex[0])
                new_sort = "model" if is_model(result) else "dict"
            elif op == "readonly":
                a = [env[j] for j in st["args"]]
                k = st["kind"]
                if k == "value":
                    x, M = a
                    spin, d2 = type(M).__name__ in SPIN, type(M).__name__ in DEG2
                    f = {(False, False): utils.pubo_value, (False, True): utils.qubo_value,
                         (True, False): utils.puso_value, (True, True): utils.quso_value}[(spin, d2)]
                    f(x, M); M.value(x)
                elif k == "extrema":
                    (utils.approximate_puso_extrema if type(a[0]).__name__ in SPIN else utils.approximate_pubo_extrema)(a[0])
                elif k == "temprange":
                    quiet(sim.anneal_temperature_range, a[0], spin=type(a[0]).__name__ in SPIN)
                else:
                    sol, M = a
                    result, new_sort = M.convert_solution(sol), "state"
            elif op == "sat":
                from qubovert import sat
                ops = [env[x[1]] if x[0] == "v" else x[1] for x in st["ops"]]
                result, new_sort = quiet(getattr(sat, st["gate"]), *ops), "model"
            else:
                raise ValueError("unknown step " + op)
        except Exception as e:          # noqa: the model marks calls outside its domain with ok=false
            err = exc_name(e) + ": " + str(e)[:80]
        if err is not None:
            self.steps.append(st); self.out.append({"ok": False, "err": err})
            return False
        # ---- oracle (written from the property; shares nothing with the model)
        if op in COPYLIKE:
            shared = reach_ids(result) & pre_ids
            if shared:
                self.bad.append(("C19:alias-shared-container",
                                 "the result of step %d (%s) shares %d mutable container(s) with objects that existed before the call"
                                 % (len(self.steps), describe(st), len(shared))))
        if op in ("solve", "anneal", "conv", "info", "frominfo") and result is not None:
            pass    # independence of these results is compared through the graph only (not demanded by the property text)
        if recorded is not None and (reach_ids(recorded) & pre_ids):
            self.bad.append(("C19:alias-recorded-constraint",
                             "step %d (%s): the recorded constraint shares a mutable container with an object that existed "
                             "before the call (the argument was not copied)" % (len(self.steps), describe(st))))
        for j, snap in leak_watch:
            if snapshot(env[j]) != snap:
                self.bad.append(("C19:alias-mutation-leaks",
                                 "step %d (%s) changed variable %d, which the property demands independent of variable %d"
                                 % (len(self.steps), describe(st), j, st.get("i", st.get("recv")))))
        # ---- record
        if op == "sub":
            self.push(result, new_sort, "sub", parent=st["i"])
        elif new_sort is not None:
            self.push(result, new_sort, op)
        g, envn, _, _ = graph_of(env)
        changed = [k for k, o in enumerate(order) if shallow(o) != pre_sh[k]]
        self.steps.append(st)
        self.out.append({"ok": True, "g": g, "env": envn, "changed": changed})
        return True

    def do_watched(self, st):
        """do(), with the deep before/after comparison of the arguments around it"""
        env = self.env
        args = []
        op = st["o"]
        if op in ("copy", "ctor", "info", "frominfo", "roundtrip", "get", "conv", "solve"):
            args = [env[st["i"]]]
        elif op == "anneal":
            args = [env[st["i"]]] + ([env[st["init"]]] if st.get("init") is not None else [])
        elif op in ("binop", "rsub"):
            args = [env[st["a"]]] + ([env[st["other"]]] if st.get("other") is not None else [])
        elif op == "muldict":
            args = [env[st["a"]], env[st["b"]]]
        elif op in ("pow", "rebuild"):
            args = [env[st["a"]]]
        elif op == "newlike":
            args = [env[st["a"]]] + [env[j] for j in st["extras"]]
        elif op == "readonly":
            args = [env[j] for j in st["args"]]
        elif op == "sat":
            args = [env[x[1]] for x in st["ops"] if x[0] == "v"]
        elif op in ("iupd", "imuldict"):
            if st.get("other") is not None and not (reach_ids(env[st["other"]]) & own_ids(env[st["recv"]])):
                args = [env[st["other"]]]
        elif op in ("addc", "update"):
            # the call is meant to change its receiver: an argument that contains (part of) the receiver's own
            # state — the receiver itself, or a model one of whose recorded constraints is the receiver — is excused
            if not (reach_ids(env[st["arg"]]) & own_ids(env[st["recv"]])):
                args = [env[st["arg"]]]
        before = [snapshot(a, ordered=False) for a in args]
        ok = self.do(st)
        if ok:
            for a, b in zip(args, before):
                if snapshot(a, ordered=False) != b:
                    self.bad.append(("C19:argument-mutated",
                                     "step %d (%s) changed its argument" % (len(self.steps) - 1, describe(st))))
        return ok


def own_ids(o):
    """the containers that make up a model object's own state: itself, its bookkeeping, its constraint dict and lists"""
    out = {id(o)}
    for a in ATTRS:
        v = vars(o).get(a) if hasattr(o, "__dict__") else None
        if is_cell(v):
            out.add(id(v))
            if a == "_constraints":
                out.update(id(l) for l in v.values() if is_cell(l))
    return out


def inplace_call(o, st, env):
    import operator
    op = st["o"]
    if op == "iupd":
        k = st["kind"]
        x = env[st["other"]] if st.get("other") is not None else int(st.get("c", 2))
        if k == "iadd": return operator.iadd(o, x)
        if k == "isub": return operator.isub(o, x)
        if k == "imulc": return operator.imul(o, x)
        if k == "idiv": return operator.itruediv(o, x)
        if k == "ifloordiv": return operator.ifloordiv(o, x)
        if k == "normalize": return o.normalize()
        raise ValueError(k)
    if op == "imuldict": return operator.imul(o, env[st["other"]])
    if op == "ipow": return operator.ipow(o, st["n"])
    if op == "clear": return o.clear()
    if op == "refresh": return o.refresh()


def arith_call(env, st):
    op = st["o"]
    a = env[st["a"]]
    if op == "muldict": return a * env[st["b"]]
    if op == "pow": return a ** st["n"]
    x = env[st["other"]] if st.get("other") is not None else int(st.get("c", 2))
    if op == "rsub": return x - a
    k = st["kind"]
    if k == "add": return a + x
    if k == "radd": return x + a
    if k == "sub": return a - x
    if k == "mulc": return a * x
    if k == "rmulc": return x * a
    if k == "div": return a / x
    if k == "floordiv": return a // x
    if k == "neg": return -a
    if k == "pos": return +a
    raise ValueError(k)


def client_mutate(o, sort):
    """change the contents of everything reachable from o, without creating or dropping a container"""
    if sort == "model":
        o[(0,)] += 7
        o.name = "zz"
    elif sort == "dict":
        o[(9,)] = 1
    elif sort == "state":
        o["__junk__"] = 1
    elif sort in ("mapping", "reverse_mapping"):
        o["__junk__"] = 12345
    elif sort in ("variables", "nodes"):
        o.add("__junk__")
    elif sort == "constraints":
        for l in o.values():
            for p in l:
                p[(0,)] += 5
    elif sort == "info":
        o["name"] = "zz"
        o["terms"][(0,)] = 99
        if isinstance(o.get("mapping"), dict):
            o["mapping"][0] = 0
        for l in (o.get("constraints") or {}).values():
            for p in l:
                p[(0,)] += 5


def describe(st):
    return " ".join("%s=%s" % (k, v) for k, v in st.items())


# ------------------------------------------------------------------ generation

def free_conv(A):
    """(function name, kind of the result) for a free conversion applicable to A — the rule of utils/_conversions.py:
    a Matrix input gives a Matrix result, anything else a labelled model"""
    t = type(A).__name__
    if t in SPIN:
        f = "quso_to_qubo" if degree(A) <= 2 and t in DEG2 else "puso_to_pubo"
    else:
        f = "qubo_to_quso" if degree(A) <= 2 and (t in DEG2) else "pubo_to_puso"
    base = {"quso_to_qubo": "QUBO", "puso_to_pubo": "PUBO", "qubo_to_quso": "QUSO", "pubo_to_puso": "PUSO"}[f]
    return f, (base + "Matrix" if t in MATRIX else base)


def candidates(h, rng):
    """the applicable random steps for the current real environment"""
    env, sort = h.env, h.sort
    models = [i for i, s in enumerate(sort) if s == "model"]
    dicts = [i for i, s in enumerate(sort) if s == "dict"]
    out = []
    small = len(walk(env)[0]) < 110 and len(env) < 11
    for i in models + dicts:
        o = env[i]
        kind = type(o).__name__
        keys = [k for k in KEYS if len(k) <= 2]
        out.append({"o": "mut", "i": i, "key": list(rng.choice(keys)), "val": fs(rng.choice(VALS))})
        if len(o) > 14 or nvars(o) > 9:
            continue
        if small:
            for K in rng.sample(ALL, 2):
                if can_build(K, o):
                    out.append({"o": "ctor", "kind": K, "i": i})
        if i in models and small:
            out.append({"o": "copy", "i": i})
            out.append({"o": "info", "i": i})
            out.append({"o": "roundtrip", "i": i})
            out.append({"o": "get", "what": "variables", "i": i})
            if kind in LABELLED:
                out.append({"o": "get", "what": rng.choice(["mapping", "reverse_mapping"]), "i": i})
                m = rng.choice(["to_qubo", "to_quso", "to_pubo", "to_puso"])
                out.append({"o": "conv", "i": i, "f": m, "res": {"to_qubo": "QUBOMatrix", "to_quso": "QUSOMatrix",
                                                                "to_pubo": "PUBOMatrix", "to_puso": "PUSOMatrix"}[m]})
            if kind in CONSTRAINED:
                out.append({"o": "get", "what": "constraints", "i": i})
        if small and (i in models or True):
            f, res = free_conv(o)
            out.append({"o": "conv", "i": i, "f": f, "res": res})
        if nvars(o) <= 7 and cons_covered(o):
            out.append({"o": "solve", "i": i})
            out.append({"o": "anneal", "i": i, "init": None})
    for r in models:
        H = env[r]
        if type(H).__name__ in CONSTRAINED and len(H) <= 14 and nvars(H) <= 8:
            for a in rng.sample(models + dicts, min(2, len(models + dicts))):
                A = env[a]
                if len(A) <= 4 and 0 < len(A) and nvars(A) <= 3:
                    out.append({"o": "addc", "recv": r, "rel": rng.choice(RELS), "arg": a, "lam": rng.random() < 0.5})
        for a in rng.sample(models + dicts, min(2, len(models + dicts))):
            if can_build(type(H).__name__, env[a]) and len(env[a]) <= 10:
                out.append({"o": "update", "recv": r, "arg": a})
    for i, s in enumerate(sort):
        if s in ("mapping", "reverse_mapping", "variables", "constraints", "info", "model", "dict", "nodes"):
            out.append({"o": "client", "i": i})
        if s == "info" and small:
            out.append({"o": "frominfo", "i": i})
        if s in ("constraints", "info", "model") and small:
            p = sub_path(env[i], rng)
            if p:
                out.append({"o": "sub", "i": i, "path": p})
    for i in models:
        if small and nvars(env[i]) <= 7 and len(env[i]) > 0:
            out.append({"o": "dict", "state_for": i})
    for i, s in enumerate(sort):
        if s == "state":
            for m in models:
                M = env[m]
                if (set(M._variables) | set(x for k in M for x in k)) <= set(env[i]) and nvars(M) <= 7 and len(M) > 0 and \
                        all(v in ((1, -1) if type(M).__name__ in SPIN else (0, 1)) for v in env[i].values()):
                    out.append({"o": "anneal", "i": m, "init": i})
    return out


def arith_candidates(h, rng):
    """operators, gates and utilities applicable to the current real environment (sizes kept small)"""
    env, sort = h.env, h.sort
    models = [i for i, s in enumerate(sort) if s == "model"]
    dicts = [i for i, s in enumerate(sort) if s == "dict"]
    states = [i for i, s in enumerate(sort) if s == "state"]
    nodes = [i for i, s in enumerate(sort) if s == "nodes"]
    small = len(walk(env)[0]) < 110 and len(env) < 12
    out = []
    for a in models:
        A = env[a]
        ka = type(A).__name__
        if len(A) > 8 or nvars(A) > 6:
            continue
        others = [b for b in models + dicts if len(env[b]) <= 6 and can_build(ka, env[b])]
        b = rng.choice(others) if others else None
        # in place
        out.append({"o": "iupd", "recv": a, "other": None, "kind": rng.choice(["iadd", "isub", "imulc", "idiv", "ifloordiv"]), "c": 2})
        if len(A) > 0:
            out.append({"o": "iupd", "recv": a, "other": None, "kind": "normalize"})
        if b is not None:
            out.append({"o": "iupd", "recv": a, "other": rng.choice([a, b]), "kind": rng.choice(["iadd", "isub"])})
        prod_ok = lambda X, Y: (ka not in DEG2 or degree(X) + degree(Y) <= 2) and len(X) * max(len(Y), 1) <= 30 and \
            (ka not in MATRIX or int_labels(Y))
        if b is not None and prod_ok(A, env[b]):
            out.append({"o": "imuldict", "recv": a, "other": rng.choice([a, b]) if prod_ok(A, A) else b})
        n = rng.choice([1, 2, 2, 3])
        if (ka not in DEG2 or degree(A) * n <= 2) and max(len(A), 1) ** n <= 40:
            out.append({"o": "ipow", "recv": a, "n": n})
            if small:
                out.append({"o": "pow", "a": a, "n": n})
        out.append({"o": "refresh", "recv": a})
        if rng.random() < 0.3:
            out.append({"o": "clear", "recv": a})
        if not small:
            continue
        # not in place
        out.append({"o": "binop", "a": a, "other": None, "kind": rng.choice(["add", "sub", "mulc", "rmulc", "radd", "div", "floordiv", "neg", "pos"]), "c": 3})
        if b is not None:
            out.append({"o": "binop", "a": a, "other": rng.choice([a, b]), "kind": rng.choice(["add", "sub"])})
            if prod_ok(A, env[b]):
                out.append({"o": "muldict", "a": a, "b": rng.choice([a, b]) if prod_ok(A, A) else b})
        dd = [b for b in dicts if len(env[b]) <= 6 and can_build(ka, env[b])]
        if dd:
            out.append({"o": "binop", "a": a, "other": rng.choice(dd), "kind": "radd"})
            out.append({"o": "rsub", "a": a, "other": rng.choice(dd)})
        out.append({"o": "rsub", "a": a, "other": None, "c": 1})
        out.append({"o": "rebuild", "a": a, "kind": rng.choice(["round", "subs"])})
        # utilities
        out.append({"o": "readonly", "args": [a], "res": False, "kind": rng.choice(["extrema", "temprange"])})
        if len(A) > 0:
            out.append({"o": "newlike", "a": a, "extras": [], "kind": "normalize"})
            out.append({"o": "set", "for": a, "take": rng.randint(0, 2)})
            out.append({"o": "dict", "state_for": a})
        if ka in LABELLED:
            out.append({"o": "dict", "sol_for": a})
        labels = set(A._variables) | {x for k in A for x in k}
        if ka in MATRIX and labels:
            labels = set(range(max(labels) + 1))
        for x in states:
            X = env[x]
            if labels <= set(X) and all(v in (0, 1, -1) for v in X.values()):
                out.append({"o": "readonly", "args": [x, a], "res": False, "kind": "value"})
                out.append({"o": "newlike", "a": a, "extras": [x], "kind": rng.choice(["subvalue", "m_subvalue"])})
                for nd in nodes:
                    if "__junk__" not in env[nd]:
                        out.append({"o": "newlike", "a": a, "extras": [nd, x], "kind": rng.choice(["subgraph", "m_subgraph"])})
            if ka in LABELLED and set(range(A.num_binary_variables)) <= set(X) and all(v in (0, 1, -1) for v in X.values()):
                out.append({"o": "readonly", "args": [x, a], "res": True, "kind": "convert"})
        for nd in nodes:
            if "__junk__" not in env[nd]:
                out.append({"o": "newlike", "a": a, "extras": [nd], "kind": "subgraph"})
    for d in dicts:
        D = env[d]
        if 0 < len(D) <= 8 and small:
            out.append({"o": "newlike", "a": d, "extras": [], "kind": "normalize"})
            out.append({"o": "readonly", "args": [d], "res": False, "kind": "extrema"})
            for x in states:
                if {y for k in D for y in k} <= set(env[x]):
                    out.append({"o": "newlike", "a": d, "extras": [x], "kind": "subvalue"})
    # gates: operands are labels, plain dicts and models that take any degree
    if small:
        cand = [("v", i) for i in models + dicts if len(env[i]) <= 3 and nvars(env[i]) <= 3 and
                type(env[i]).__name__ not in DEG2 and int_labels(env[i])]
        for _ in range(2):
            g = rng.choice(GATES)
            k = 1 if g in ("BUFFER", "NOT") else rng.randint(1, 3)
            ops = [list(rng.choice(cand)) if cand and rng.random() < 0.6 else ["l", rng.randint(0, 2)] for _ in range(k)]
            if any(x[0] == "v" for x in ops):
                out.append({"o": "sat", "gate": g, "ops": ops})
    return out


def sub_path(o, rng):
    """a path to a model object or terms dict inside o"""
    path = []
    for _ in range(4):
        ch = children(o)
        if not ch:
            break
        k = rng.randrange(len(ch))
        path.append(k); o = ch[k]
        if (is_model(o) or sort_of(o) == "dict") and rng.random() < 0.7:
            return path
    return path if path and (is_model(o) or sort_of(o) == "dict") else None


def fill(h, rng, i, n):
    kind = type(h.env[i]).__name__
    for _ in range(n):
        h.do_watched({"o": "mut", "i": i, "key": list(rng.choice([k for k in KEYS if k])), "val": fs(rng.choice(VALS))})


def scenario(h, rng, name):
    """a scripted opening; returns nothing, the history continues with random steps"""
    con = rng.choice(["PCBO", "PCSO"])
    if name == "copy-mutate":
        h.do_watched({"o": "new", "kind": con}); fill(h, rng, 0, 2)
        h.do_watched({"o": "dict"}); fill(h, rng, 1, 2)
        h.do_watched({"o": "addc", "recv": 0, "rel": rng.choice(RELS), "arg": 1, "lam": rng.random() < 0.5})
        h.do_watched({"o": "copy", "i": 0})
        h.do_watched({"o": "client", "i": 2})
        h.do_watched({"o": "mut", "i": 0, "key": [0], "val": "3"})
        h.do_watched({"o": "get", "what": "constraints", "i": 0})
        h.do_watched({"o": "client", "i": 3})
    elif name == "self-arg":
        h.do_watched({"o": "new", "kind": con}); fill(h, rng, 0, 2)
        h.do_watched({"o": "addc", "recv": 0, "rel": rng.choice(RELS), "arg": 0, "lam": rng.random() < 0.5})
        h.do_watched({"o": "update", "recv": 0, "arg": 0})
        h.do_watched({"o": "copy", "i": 0})
        h.do_watched({"o": "roundtrip", "i": 0})
    elif name == "model-arg":
        h.do_watched({"o": "new", "kind": rng.choice(["PUBO", "QUBO", "PCBO", "PUSO", "PUBOMatrix"])}); fill(h, rng, 0, 2)
        h.do_watched({"o": "new", "kind": con})
        h.do_watched({"o": "addc", "recv": 1, "rel": rng.choice(RELS), "arg": 0, "lam": False})
        h.do_watched({"o": "addc", "recv": 1, "rel": rng.choice(RELS), "arg": 0, "lam": rng.random() < 0.5})
        h.do_watched({"o": "mut", "i": 0, "key": [1], "val": "2"})
        h.do_watched({"o": "get", "what": "constraints", "i": 1})
        p = sub_path(h.env[2], rng)
        if p:
            h.do_watched({"o": "sub", "i": 2, "path": p})
            if h.sort[-1] == "model":
                h.do_watched({"o": "addc", "recv": 1, "rel": rng.choice(RELS), "arg": 3, "lam": False})
                h.do_watched({"o": "addc", "recv": 1, "rel": rng.choice(RELS), "arg": 3, "lam": False})
                h.do_watched({"o": "client", "i": 3})
    elif name == "update-share":
        h.do_watched({"o": "new", "kind": con}); fill(h, rng, 0, 1)
        h.do_watched({"o": "dict"}); fill(h, rng, 1, 2)
        h.do_watched({"o": "addc", "recv": 0, "rel": rng.choice(RELS), "arg": 1, "lam": False})
        h.do_watched({"o": "new", "kind": con})
        h.do_watched({"o": "addc", "recv": 2, "rel": rng.choice(RELS), "arg": 1, "lam": rng.random() < 0.5})
        h.do_watched({"o": "update", "recv": 2, "arg": 0})
        h.do_watched({"o": "copy", "i": 2})
        h.do_watched({"o": "info", "i": 2})
        h.do_watched({"o": "frominfo", "i": 4})
        h.do_watched({"o": "client", "i": 3})
    elif name == "getters":
        k = rng.choice(ALL)
        h.do_watched({"o": "new", "kind": k}); fill(h, rng, 0, 3)
        h.do_watched({"o": "get", "what": "variables", "i": 0})
        h.do_watched({"o": "client", "i": 1})
        if k in LABELLED:
            h.do_watched({"o": "get", "what": "mapping", "i": 0})
            h.do_watched({"o": "get", "what": "reverse_mapping", "i": 0})
            h.do_watched({"o": "client", "i": 2}); h.do_watched({"o": "client", "i": 3})
        h.do_watched({"o": "mut", "i": 0, "key": [2], "val": "5"})
    elif name == "convert-solve":
        k = rng.choice(ALL + ["dict"])
        h.do_watched({"o": "dict"} if k == "dict" else {"o": "new", "kind": k}); fill(h, rng, 0, 3)
        for _ in range(3):
            c = [s for s in candidates(h, rng)
                 if (s["o"] in ("conv", "solve", "anneal") and s.get("i") == 0) or s.get("state_for") == 0]
            if c:
                h.do_watched(rng.choice(c))
    elif name == "arith":
        k = rng.choice(ALL)
        h.do_watched({"o": "new", "kind": k}); fill(h, rng, 0, 2)
        h.do_watched({"o": "dict"} if rng.random() < 0.5 else {"o": "new", "kind": rng.choice([k, "PCBO", "PUBO", "PCSO"])})
        h.do_watched({"o": "mut", "i": 1, "key": [0], "val": "2"})
        if type(h.env[0]).__name__ in CONSTRAINED:
            h.do_watched({"o": "addc", "recv": 0, "rel": rng.choice(RELS), "arg": 1, "lam": False})
        h.do_watched({"o": "binop", "a": 0, "other": 0, "kind": "add"})                      # a + a
        h.do_watched({"o": "client", "i": 2})
        if can_build(k, h.env[1]):
            h.do_watched({"o": "binop", "a": 0, "other": 1, "kind": rng.choice(["add", "sub"])})
            h.do_watched({"o": "iupd", "recv": 0, "other": 1, "kind": rng.choice(["iadd", "isub"])})
        h.do_watched({"o": "iupd", "recv": 0, "other": 0, "kind": rng.choice(["iadd", "isub"])})   # a += a / a -= a
        if k not in DEG2 and len(h.env[0]) <= 5:
            h.do_watched({"o": "muldict", "a": 0, "b": 0})                                     # a * a
            h.do_watched({"o": "imuldict", "recv": 0, "other": 0})                             # a *= a
        h.do_watched({"o": rng.choice(["refresh", "clear"]), "recv": 0})
    elif name == "sat":
        k = rng.choice(["PUBO", "PCBO", "PUBOMatrix", "PUSO", "PCSO"])
        h.do_watched({"o": "new", "kind": k}); h.do_watched({"o": "mut", "i": 0, "key": [0, 1], "val": "1"})
        h.do_watched({"o": "dict"}); h.do_watched({"o": "mut", "i": 1, "key": [2], "val": "1"})
        if k in CONSTRAINED:
            h.do_watched({"o": "addc", "recv": 0, "rel": "le", "arg": 1, "lam": False})
        h.do_watched({"o": "sat", "gate": "BUFFER", "ops": [["v", 0]]})
        h.do_watched({"o": "client", "i": 2})
        g = rng.choice(GATES[2:])
        h.do_watched({"o": "sat", "gate": g, "ops": [["v", 0], ["v", 1], ["l", 1]]})
        h.do_watched({"o": "sat", "gate": rng.choice(GATES[2:]), "ops": [["l", 0], ["v", 0], ["v", 0]]})
        h.do_watched({"o": "iupd", "recv": 3, "other": None, "kind": "imulc", "c": 3})
        h.do_watched({"o": "sat", "gate": "NOT", "ops": [["v", 1]]})
    elif name == "utils":
        k = rng.choice(ALL)
        h.do_watched({"o": "new", "kind": k}); fill(h, rng, 0, 3)
        h.do_watched({"o": "dict", "state_for": 0})
        h.do_watched({"o": "set", "for": 0, "take": 1})
        for _ in range(5):
            c = [s for s in arith_candidates(h, rng) if s["o"] in ("newlike", "readonly")]
            if c:
                h.do_watched(rng.choice(c))
        h.do_watched({"o": "client", "i": len(h.env) - 1})
    else:   # "ctor"
        k = rng.choice(ALL)
        h.do_watched({"o": "new", "kind": k}); fill(h, rng, 0, 2)
        for K in rng.sample(ALL, 3):
            if can_build(K, h.env[0]):
                h.do_watched({"o": "ctor", "kind": K, "i": 0})


SCENARIOS = ["copy-mutate", "self-arg", "model-arg", "update-share", "getters", "convert-solve", "ctor", "random",
             "arith", "sat", "utils", "random"]


def gen_history(rng, name, nrandom):
    h = Hist()
    if name != "random":
        scenario(h, rng, name)
    else:
        h.do_watched({"o": "new", "kind": rng.choice(ALL)}); fill(h, rng, 0, 2)
        h.do_watched({"o": "new", "kind": rng.choice(["PCBO", "PCSO", "PCBO", "PUBO"])})
    weights = {"mut": 1, "ctor": 2, "copy": 3, "info": 1, "roundtrip": 2, "get": 3, "conv": 1, "solve": 1, "anneal": 1,
               "addc": 4, "update": 2, "client": 3, "frominfo": 3, "sub": 2, "dict": 1,
               "set": 1, "iupd": 2, "imuldict": 2, "ipow": 1, "clear": 1, "refresh": 1, "binop": 2, "rsub": 1, "muldict": 2,
               "pow": 1, "rebuild": 1, "newlike": 2, "readonly": 1, "sat": 2}
    for _ in range(nrandom):
        c = candidates(h, rng) + arith_candidates(h, rng)
        if not c:
            break
        st = rng.choices(c, weights=[weights[s["o"]] for s in c])[0]
        h.do_watched(st)
    return h


def replay_history(steps):
    h = Hist()
    for st in steps:
        h.do_watched(st)
    return h


# ------------------------------------------------------------------ comparison with the model

def driver_line(steps):
    out = []
    for st in steps:
        s = {k: v for k, v in st.items() if k not in ("key", "val", "f", "state_for", "sol_for", "spin", "c", "gate", "take", "for")}
        if s["o"] in ("iupd", "binop", "rebuild", "newlike", "readonly"):
            s.pop("kind", None)
        if s["o"] == "sat":
            ops = s.pop("ops")
            s["first"] = ops[0][1] if ops[0][0] == "v" else None
            s["others"] = [x[1] for x in ops[1:] if x[0] == "v"]
        out.append(s)
    return {"op": "c19h", "steps": out}


def compare(ctx, h, model, name):
    case = {"family": "heap", "scenario": name, "steps": h.steps}
    nontrivial = len(h.steps) >= 4
    ctx.case(case, nontrivial); ctx.traces += 1
    ctx.count("heap:" + name)
    for st in h.steps:
        ctx.count("heap-op:" + st["o"])
    msteps = model.get("steps", [])
    for k, (st, impl) in enumerate(zip(h.steps, h.out)):
        m = msteps[k] if k < len(msteps) else {"ok": None}
        a = {"ok": impl["ok"], "g": impl.get("g"), "env": impl.get("env")}
        b = {"ok": m.get("ok"), "g": m.get("g"), "env": m.get("env")}
        if a != b:
            ctx.diff("heap-graph", dict(case, at_step=k), dict(a, err=impl.get("err")), b)
            break
        if impl["ok"] and not set(impl["changed"]) <= set(m.get("w", [])):
            ctx.diff("heap-footprint", dict(case, at_step=k), {"changed": impl["changed"]}, {"w": m.get("w")})
            break
    for sig, why in h.bad[:1]:
        ctx.violation(sig, case, why)


def check(ctx, n):
    hs = []
    for i in range(n):
        name = SCENARIOS[i % len(SCENARIOS)]
        hs.append((name, gen_history(ctx.rng, name, ctx.rng.randint(3, 7))))
    models = common.run_driver([driver_line(h.steps) for _, h in hs])
    for (name, h), m in zip(hs, models):
        compare(ctx, h, m, name)


def replay(ctx, case):
    h = replay_history(case["steps"])
    m = common.run_driver([driver_line(h.steps)])[0]
    compare(ctx, h, m, case.get("scenario", "replay"))
