"""C05 — model arithmetic and evaluation agree with polynomial arithmetic (correspondence + oracle).

Families:
  expr   random expression trees over all operators / kinds, copying, reflected and in-place forms
  triple exhaustive (operator, left kind, right kind) on fixed polynomials
  value  the four value functions with dict / list / tuple assignments
  equalfn  the same function built by two different expression trees (algebraic identities, for both
           families and every model type): the two real results must compare equal with `==`, and the
           two model results must hold the same terms (T5.4, equal functions => equal dicts)
  cancel   operator expressions and in-place chains in which the highest-indexed variable(s) cancel exactly
           ((a + t) - t, -(t - (a + t)), a += t; a *= 2; a -= 2t, (a + t) * {(): 1} - t, model - raw dict ...), on all
           ten types with integer labels: the result carries stale cached bookkeeping (max_index, num_binary_variables,
           variables) and must still evaluate like its operands for dict AND for list / tuple assignments
  extreme  ORACLE-ONLY (floats that underflow / overflow / inf are outside the exact-rational model): scalar `*`, reflected
           `*`, `*=`, `/`, `/=`, unary `-`, and model products with float coefficients and scalars of extreme magnitude
           (1e-200 * 1e-200, v / 1e308 twice, v / inf, v * 0.0, 5e-324 / 2, numpy.float64 scalars); after every step the
           result must be stored canonically (sorted duplicate-free keys, NO zero coefficient), compare equal (==, len,
           num_terms) to the canonical model built from the function it denotes, keep its type, leave the operand alone,
           and for scalar steps hold exactly the IEEE product / quotient of every coefficient

In every family the direct oracle evaluates `result.value(x)` with a dict assignment and, when the labels are the integers
0..n-1 (always for the Matrix types), also with a list and a tuple assignment *sized to the variables actually present in
the result* (length 1 + largest index that occurs in a key; `x[i]` is defined for every variable of the polynomial).
"""
import itertools, json
from fractions import Fraction
from . import common
from .common import Labels, fs, exc_name, canon_terms, snapshot

CEXT = "plain"
RULE = ("expression trees (depth<=4) over + - * ** unary+- / and copy-constructors, leaves from the ten model "
        "types, raw dicts (unsorted/repeated labels) and numbers (int, Fraction, dyadic float), plus every "
        "(operator,left kind,right kind) triple; a case is non-trivial when its tree contains a binary operator "
        "whose two operands both have >=1 term; distinct = distinct (tree, realisation) JSON; plus pairs of trees "
        "that denote the same function by a ring / idempotence / spin-square identity (equalfn)")
ASSUMPTIONS = ["float coefficients are restricted to dyadic rationals so IEEE arithmetic is exact"]

BOOL_KINDS = ["QUBO", "PUBO", "PCBO", "QUBOMatrix", "PUBOMatrix"]
SPIN_KINDS = ["QUSO", "PUSO", "PCSO", "QUSOMatrix", "PUSOMatrix"]
DEG2 = {"QUBO", "QUSO", "QUBOMatrix", "QUSOMatrix"}
MATRIX = {"QUBOMatrix", "QUSOMatrix", "PUBOMatrix", "PUSOMatrix"}

def cls_of(name):
    import qubovert as qv
    from qubovert import utils
    return getattr(qv, name, None) or getattr(utils, name)

# ------------------------------------------------------------------ generation

def gen_coef(rng):
    r = rng.random()
    if r < 0.6:
        return str(rng.choice([-3, -2, -1, 1, 2, 3, 4]))
    if r < 0.8:
        return rng.choice(["1/2", "-1/2", "3/2", "-3/4", "5/8", "1/4"])
    return rng.choice(["1/3", "-2/3", "5/7", "0", "7/5"])

def gen_poly(rng, n, deg2, raw=False):
    terms = []
    for _ in range(rng.randint(0 if rng.random() < 0.1 else 1, 5)):
        maxlen = 2 if deg2 else 4
        ln = rng.choice([0, 1, 1, 2, 2, 3, 4][: (4 if deg2 else 7)])
        ln = min(ln, maxlen)
        key = [rng.randrange(n) for _ in range(ln)]
        if raw and rng.random() < 0.2:
            # long raw keys with heavy repetition (a label three or more times next to others): boolean squashing keeps each
            # label once, spin squashing keeps the labels of odd multiplicity — the degree of the squashed key decides
            key = [rng.randrange(min(n, 3)) for _ in range(rng.randint(5, 7))]
        if deg2 and not raw:
            # QUBO/QUSO leaves: keep the squashed key within two labels (a third label would be a KeyError,
            # which the malformed stream covers separately)
            pass
        terms.append([key, gen_coef(rng)])
    return terms

def gen_leaf_model(rng, fam, n, kinds):
    k = rng.choice(kinds)
    return {"t": "mdl", "k": k, "p": gen_poly(rng, n, k in DEG2)}

def gen_any(rng, fam, n, depth, kinds):
    r = rng.random()
    if depth <= 0 or r < 0.35:
        r2 = rng.random()
        if r2 < 0.5:
            return gen_leaf_model(rng, fam, n, kinds)
        if r2 < 0.75:
            return {"t": "raw", "p": gen_poly(rng, n, False, raw=True)}
        return {"t": "num", "c": gen_coef(rng)}
    return gen_model(rng, fam, n, depth, kinds)

def gen_model(rng, fam, n, depth, kinds):
    """a tree that evaluates to a model (or raises the error the model predicts)"""
    if depth <= 0:
        return gen_leaf_model(rng, fam, n, kinds)
    op = rng.choice(["add", "add", "sub", "sub", "mul", "mul", "mul", "pow", "neg", "pos", "div", "cast"])
    if op in ("add", "sub", "mul") and rng.random() < 0.08:
        # both operands are the very same object:  a op a,  a op= a
        return {"t": op, "a": gen_model(rng, fam, n, depth - 1, kinds), "alias": True,
                "inplace": rng.random() < 0.6}
    if op in ("add", "sub", "mul"):
        a = gen_model(rng, fam, n, depth - 1, kinds)
        b = gen_any(rng, fam, n, depth - 1, kinds)
        node = {"t": op, "a": a, "b": b, "inplace": rng.random() < 0.3}
        if rng.random() < 0.35 and b["t"] in ("raw", "num", "mdl"):
            node["a"], node["b"] = b, a      # reflected form (number / dict / model on the left)
            node["inplace"] = node["inplace"] and b["t"] == "mdl"
        return node
    if op == "pow":
        return {"t": "pow", "a": gen_model(rng, fam, n, depth - 1, kinds),
                "e": rng.choice([1, 2, 2, 3, 0, -1] if rng.random() < 0.15 else [1, 2, 2, 3]),
                "inplace": rng.random() < 0.3}
    if op in ("neg", "pos"):
        return {"t": op, "a": gen_model(rng, fam, n, depth - 1, kinds)}
    if op == "div":
        return {"t": "div", "a": gen_model(rng, fam, n, depth - 1, kinds),
                "c": rng.choice(["2", "-2", "4", "1/2", "1", "-1", "8"] + (["0"] if rng.random() < 0.1 else [])),
                "inplace": rng.random() < 0.3}
    return {"t": "cast", "k": rng.choice(kinds), "a": gen_any_dictlike(rng, fam, n, depth - 1, kinds)}

def gen_any_dictlike(rng, fam, n, depth, kinds):
    if rng.random() < 0.3:
        return {"t": "raw", "p": gen_poly(rng, n, False, raw=True)}
    return gen_model(rng, fam, n, depth, kinds)

def tree_kinds(t, acc):
    if t["t"] in ("mdl", "cast"):
        acc.add(t["k"])
    for c in ("a", "b"):
        if c in t and isinstance(t[c], dict):
            tree_kinds(t[c], acc)
    return acc

def tree_nontrivial(t):
    if t.get("alias"):
        return True
    if t["t"] in ("add", "sub", "mul"):
        def nterms(u):
            return len(u["p"]) if u["t"] in ("raw", "mdl") else 1
        return nterms(t["a"]) >= 1 and nterms(t["b"]) >= 1
    return any(tree_nontrivial(t[c]) for c in ("a", "b") if c in t and isinstance(t[c], dict))

# ------------------------------------------------------------------ implementation side

def num_of(s, style):
    f = Fraction(s)
    if style == "float" and (f.denominator & (f.denominator - 1)) == 0:
        return float(f)
    if f.denominator == 1 and style != "frac":
        return int(f)
    return f

class Unchanged(Exception):
    pass

def ev(t, L, style, log):
    """evaluate the tree on the real qubovert objects"""
    k = t["t"]
    if k == "num":
        return num_of(t["c"], style)
    if k == "raw":
        d = {}
        for key, v in t["p"]:
            kk = L.key(key)
            d[kk] = d.get(kk, 0) + num_of(v, style)   # python dict literal semantics for repeated keys: we pre-merge
        return d
    if k == "mdl":
        d = {}
        items = []
        for key, v in t["p"]:
            items.append((L.key(key), num_of(v, style)))
        # pass as list of pairs so that repeated raw keys are all seen by the constructor
        return cls_of(t["k"])(items)
    if k == "cast":
        a = ev(t["a"], L, style, log)
        s0 = snapshot(a)
        r = cls_of(t["k"])(a)
        if snapshot(a) != s0:
            log.append("cast modified its argument")
        return r
    if k in ("add", "sub", "mul"):
        a = ev(t["a"], L, style, log)
        b = a if t.get("alias") else ev(t["b"], L, style, log)
        sa, sb = snapshot(a), snapshot(b)
        if t.get("inplace"):
            a0 = a
            if k == "add": a += b
            elif k == "sub": a -= b
            else: a *= b
            if isinstance(a0, dict) and type(a0) is not dict and a is not a0:
                log.append("in-place %s did not return self" % k)
            if snapshot(b) != sb and b is not a0:
                log.append("in-place %s modified its right operand" % k)
            return a
        r = (a + b) if k == "add" else (a - b) if k == "sub" else (a * b)
        if snapshot(a) != sa or snapshot(b) != sb:
            log.append("%s modified an operand" % k)
        if r is a or r is b:
            log.append("%s returned an operand" % k)
        exp = type(a) if (isinstance(a, dict) and type(a) is not dict) else type(b)
        if type(r) is not exp:
            log.append("%s returned %s, expected %s" % (k, type(r).__name__, exp.__name__))
        return r
    a = ev(t["a"], L, style, log)
    sa = snapshot(a)
    if k == "pow":
        if t.get("inplace"):
            a0 = a; a **= t["e"]
            if a is not a0: log.append("**= did not return self")
            return a
        r = a ** t["e"]
    elif k == "neg":
        r = -a
    elif k == "pos":
        r = +a
    elif k == "div":
        c = num_of(t["c"], "frac" if style != "float" else "float")
        if t.get("inplace"):
            a0 = a; a /= c
            if a is not a0: log.append("/= did not return self")
            return a
        r = a / c
    else:
        raise ValueError(k)
    if snapshot(a) != sa:
        log.append("%s modified its operand" % k)
    if type(r) is not type(a):
        log.append("%s changed the type" % k)
    return r

def canon_result(r, L):
    if isinstance(r, dict):
        return {"type": type(r).__name__, "terms": canon_terms(r, L)}
    return {"type": "num", "c": fs(r)}

def run_impl(case):
    L = Labels(case["labels"])
    log = []
    try:
        r = ev(case["tree"], L, case["num"], log)
    except Exception as e:
        return {"err": exc_name(e)}, None, log
    return canon_result(r, L), r, log

# ------------------------------------------------------------------ direct oracle (independent of the Lean model)

def den(t, x):
    """value of the expression at assignment x (dict id -> Fraction), straight from the tree"""
    k = t["t"]
    if k == "num":
        return Fraction(t["c"])
    if k in ("raw", "mdl"):
        tot = Fraction(0)
        for key, v in t["p"]:
            m = Fraction(v)
            for i in key:
                m *= x[i]
            tot += m
        return tot
    if k in ("cast", "pos"):
        return den(t["a"], x)
    if k in ("add", "sub", "mul") and t.get("alias"):
        va = den(t["a"], x)
        return va + va if k == "add" else va - va if k == "sub" else va * va
    if k == "add": return den(t["a"], x) + den(t["b"], x)
    if k == "sub": return den(t["a"], x) - den(t["b"], x)
    if k == "mul": return den(t["a"], x) * den(t["b"], x)
    if k == "pow": return den(t["a"], x) ** t["e"]
    if k == "neg": return -den(t["a"], x)
    if k == "div":
        c = Fraction(t["c"])
        va = den(t["a"], x)
        if c == 0:
            # `m / 0` on an empty model loops over no key and returns the empty model (value 0)
            if va == 0:
                return Fraction(0)
            raise ZeroDivisionError
        return va / c
    raise ValueError(k)

def oracle(case, canon, obj, log):
    """the property, evaluated on the implementation's own result"""
    if log:
        return "operand/type clause: " + "; ".join(log)
    if "err" in canon:
        kinds = tree_kinds(case["tree"], set())
        if canon["err"] == "KeyError" and kinds & DEG2:
            # the property lets a degree-2 type raise only when some produced key has more than two labels
            try:
                ref_eval(case["tree"], case["fam"] == "spin")
            except Overflow:
                return None
            return ("KeyError although no leaf key and no product of two stored keys squashes to more than two "
                    "labels anywhere in the tree (the value has degree <= 2)")
        if canon["err"] == "ValueError" and has_bad_pow(case["tree"]):
            return None
        if canon["err"] == "ZeroDivisionError" and has_zero_div(case["tree"]):
            return None
        return "unexpected exception %s" % canon["err"]
    if canon["type"] in ("num", "dict"):
        return None
    bad = common.keys_are_canonical(obj)
    if bad:
        return "result not canonical: " + bad
    L = Labels(case["labels"])
    n = case["n"]
    spin = case["fam"] == "spin"
    # sequence assignments (list / tuple): `x[i]` is the value of variable i, so a sequence is a legal assignment as soon as
    # it reaches every variable that occurs in the polynomial — it is sized to the variables present in the result, not to
    # the label universe (the cached max_index / num_binary_variables of an operator result may be stale and larger)
    seqlen = None
    if case["labels"] == "int" and obj is not None:
        present = [i for k in obj for i in k]
        if all(isinstance(i, int) and not isinstance(i, bool) and 0 <= i < n for i in present):
            seqlen = (max(present) + 1) if present else 0
    for bits in itertools.product((0, 1), repeat=n):
        xs = {i: Fraction((1 - 2 * b) if spin else b) for i, b in enumerate(bits)}
        try:
            want = den(case["tree"], xs)
        except ZeroDivisionError:
            return "division of a non-zero model by zero returned a result instead of raising"
        sol = {L.lab(i): (1 - 2 * b) if spin else b for i, b in enumerate(bits)}
        got = Fraction(obj.value(sol)) if obj else Fraction(0)
        if got != want:
            return "value mismatch at %s: result gives %s, operands give %s" % (sol, got, want)
        if seqlen is not None and not any(bits[seqlen:]):          # one representative per prefix
            vals = [(1 - 2 * b) if spin else b for b in bits[:seqlen]]
            for cont in (list, tuple):
                x = cont(vals)
                try:
                    got = Fraction(obj.value(x))
                except Exception as e:
                    return ("result %r: value(%r) [%s assignment covering every variable of the polynomial] raised %s: %s; "
                            "the operands give %s" % (dict(obj), x, cont.__name__, type(e).__name__, str(e)[:200], want))
                if got != want:
                    return "value mismatch at the %s assignment %r: result gives %s, operands give %s" % (
                        cont.__name__, x, got, want)
    if canon["type"] in DEG2 and any(len(k) > 2 for k, _ in canon["terms"]):
        return "degree-2 type holds a key with more than two labels"
    return None

class Overflow(Exception):
    pass

def ref_squash(key, spin, deg2):
    if spin:
        k = tuple(sorted(i for i in set(key) if key.count(i) % 2))
    else:
        k = tuple(sorted(set(key)))
    if deg2 and len(k) > 2:
        raise Overflow()
    return k

def ref_eval(t, spin):
    """independent reference evaluation (plain dict-of-Fractions polynomial arithmetic written from the property):
    returns (kind or None, {key: coef}) and raises Overflow where a degree-2 type would have to hold a key with more
    than two labels.  Raw dicts keep raw keys."""
    k = t["t"]
    def into(kind, items):
        d = {}
        for key, v in items:
            kk = ref_squash(tuple(key), spin, kind in DEG2) if kind else tuple(key)
            d[kk] = d.get(kk, Fraction(0)) + v
            if d[kk] == 0:
                del d[kk]
        return d
    if k == "num":
        return ("num", Fraction(t["c"]))
    if k == "raw":
        return (None, [(tuple(key), Fraction(v)) for key, v in t["p"]])
    if k == "mdl":
        return (t["k"], into(t["k"], [(key, Fraction(v)) for key, v in t["p"]]))
    if k == "cast":
        kind, d = ref_eval(t["a"], spin)
        items = d if kind is None else list(d.items())
        return (t["k"], into(t["k"], items))
    if k in ("add", "sub", "mul"):
        A = ref_eval(t["a"], spin)
        B = A if t.get("alias") else ref_eval(t["b"], spin)
        if A[0] in (None, "num") and B[0] not in (None, "num"):
            # reflected: the model operand decides the type
            if k == "sub":
                negB = (B[0], {kk: -v for kk, v in B[1].items()})
                return ref_bin("add", negB, A, spin, into)
            return ref_bin(k, B, A, spin, into)
        return ref_bin(k, A, B, spin, into)
    A = ref_eval(t["a"], spin)
    kind, d = A
    if k == "pow":
        if t["e"] <= 0:
            raise ValueError
        cur = A
        for _ in range(t["e"] - 1):
            cur = ref_bin("mul", cur, A, spin, into)
        return cur
    if k == "neg":
        return (kind, {kk: -v for kk, v in d.items()})
    if k == "pos":
        return A
    if k == "div":
        c = Fraction(t["c"])
        return (kind, {kk: v / c for kk, v in d.items()})
    raise ValueError(k)

def ref_bin(op, A, B, spin, into):
    kind, d = A
    if kind in (None, "num"):
        raise TypeError
    if B[0] == "num":
        bitems = [((), B[1])]
    elif B[0] is None:
        bitems = B[1]
    else:
        bitems = list(B[1].items())
    if op == "add":
        return (kind, into(kind, list(d.items()) + bitems))
    if op == "sub":
        return (kind, into(kind, list(d.items()) + [(kk, -v) for kk, v in bitems]))
    if B[0] == "num":
        return (kind, into(kind, [(kk, v * B[1]) for kk, v in d.items()]))
    return (kind, into(kind, [(tuple(k1) + tuple(k2), v1 * v2) for k1, v1 in d.items() for k2, v2 in bitems]))

def has_bad_pow(t):
    if t["t"] == "pow" and t["e"] <= 0:
        return True
    return any(has_bad_pow(t[c]) for c in ("a", "b") if c in t and isinstance(t[c], dict))

def has_zero_div(t):
    if t["t"] == "div" and Fraction(t["c"]) == 0:
        return True
    return any(has_zero_div(t[c]) for c in ("a", "b") if c in t and isinstance(t[c], dict))

# ------------------------------------------------------------------ value family

def value_case(rng):
    fam = rng.choice(["bool", "spin"])
    n = rng.randint(1, 5)
    fn = rng.choice(["pubo", "qubo"] if fam == "bool" else ["puso", "quso"])
    deg2 = fn in ("qubo", "quso")
    p = []
    for _ in range(rng.randint(0, 5)):
        ln = rng.choice([0, 1, 2] if deg2 else [0, 1, 2, 3, 4])
        key = sorted(rng.sample(range(n), min(ln, n)))
        p.append([key, gen_coef(rng)])
    # merge duplicate keys (a dict cannot hold them)
    d = {}
    for k, v in p:
        d[tuple(k)] = v
    p = [[list(k), v] for k, v in d.items()]
    return {"family": "value", "fam": fam, "f": fn, "n": n, "p": p,
            "container": rng.choice(["dict", "list", "tuple"]), "labels": rng.choice(["int", "str", "mixed"]),
            "via": rng.choice(["function", "method"])}

def run_value_impl(case):
    import qubovert as qv
    from qubovert import utils
    f = getattr(utils, case["f"] + "_value")
    n, spin = case["n"], case["fam"] == "spin"
    cont = case["container"]
    L = Labels(case["labels"] if cont == "dict" else "int")
    d = {L.key(k): num_of(v, "int") for k, v in case["p"]}
    if case["via"] == "method":
        kind = {"pubo": "PUBO", "qubo": "QUBO", "puso": "PUSO", "quso": "QUSO"}[case["f"]]
        if cont != "dict":
            kind += "Matrix"
        obj = cls_of(kind)(d)
        f = lambda x, _d: obj.value(x)
    out = []
    for bits in itertools.product((0, 1), repeat=n):
        vals = [(1 - 2 * b) if spin else b for b in bits]
        if cont == "dict":
            x = {L.lab(i): v for i, v in enumerate(vals)}
        elif cont == "list":
            x = list(vals)
        else:
            x = tuple(vals)
        try:
            out.append(fs(f(x, d)))
        except Exception as e:
            out.append("err:" + exc_name(e))
    return out

def value_model_line(case):
    n, spin = case["n"], case["fam"] == "spin"
    xs = []
    for bits in itertools.product((0, 1), repeat=n):
        xs.append([[i, str((1 - 2 * b) if spin else b)] for i, b in enumerate(bits)])
    return {"op": "value", "f": case["f"], "p": case["p"], "xs": xs}

def value_oracle(case, out):
    n, spin = case["n"], case["fam"] == "spin"
    for idx, bits in enumerate(itertools.product((0, 1), repeat=n)):
        x = {i: Fraction((1 - 2 * b) if spin else b) for i, b in enumerate(bits)}
        want = den({"t": "raw", "p": case["p"]}, x)
        if out[idx] != fs(want):
            return "%s_value gives %s at %s, direct evaluation gives %s" % (case["f"], out[idx], bits, want)
    return None

# ------------------------------------------------------------------ equalfn family

def _m(k, p): return {"t": "mdl", "k": k, "p": p}
def _b(op, a, b): return {"t": op, "a": a, "b": b, "inplace": False}
def _num(c): return {"t": "num", "c": c}

def equalfn_templates(fam):
    """name -> (max number of model factors in any product, builder(a, b, c, v) -> (tree1, tree2)); `v` is a
    single-variable model.  Every pair is an identity of functions on the family's assignments."""
    T = {
        "distrib": (2, lambda a, b, c, v: (_b("mul", _b("add", a, b), c),
                                           _b("add", _b("mul", b, c), _b("mul", a, c)))),
        "square": (2, lambda a, b, c, v: ({"t": "pow", "a": _b("sub", a, b), "e": 2, "inplace": False},
                                          _b("add", _b("sub", _b("mul", a, a), _b("mul", _b("mul", _num("2"), a), b)),
                                             _b("mul", b, b)))),
        "commute": (2, lambda a, b, c, v: (_b("mul", a, b), _b("mul", b, a))),
        "negsub": (1, lambda a, b, c, v: ({"t": "neg", "a": _b("sub", a, b)}, _b("sub", b, a))),
        "half": (1, lambda a, b, c, v: ({"t": "div", "a": _b("add", a, b), "c": "2", "inplace": False},
                                        _b("add", {"t": "div", "a": b, "c": "2", "inplace": False},
                                           {"t": "div", "a": a, "c": "2", "inplace": False}))),
        "rsub": (1, lambda a, b, c, v: (_b("sub", _num("3/2"), a), {"t": "neg", "a": _b("sub", a, _num("3/2"))})),
        "cancel": (1, lambda a, b, c, v: (_b("add", a, _b("sub", b, b)), {"t": "pos", "a": a})),
        "cube": (3, lambda a, b, c, v: ({"t": "pow", "a": a, "e": 3, "inplace": False},
                                        _b("mul", a, _b("mul", a, a)))),
        "assoc": (3, lambda a, b, c, v: (_b("mul", _b("mul", a, b), c), _b("mul", a, _b("mul", b, c)))),
        "rawdistrib": (2, lambda a, b, c, v: (_b("mul", _b("add", a, {"t": "raw", "p": b["p"]}), c),
                                              _b("add", _b("mul", a, c), _b("mul", {"t": "raw", "p": b["p"]}, c)))),
    }
    if fam == "bool":
        T["idem"] = (2, lambda a, b, c, v: (_b("mul", _b("mul", a, v), v), _b("mul", a, v)))
    else:
        T["idem"] = (2, lambda a, b, c, v: (_b("mul", _b("mul", a, v), v), {"t": "pos", "a": a}))
    return T

def equalfn_poly(rng, n, maxdeg):
    terms = []
    for _ in range(rng.randint(1, 4)):
        ln = rng.randint(0, maxdeg)
        key = [rng.randrange(n) for _ in range(ln)]          # raw keys: unsorted, labels may repeat
        terms.append([key, gen_coef(rng)])
    return terms

def equalfn_cases(rng, reps):
    out = []
    for fam, kinds in (("bool", BOOL_KINDS), ("spin", SPIN_KINDS)):
        T = equalfn_templates(fam)
        for name in sorted(T):
            width, build = T[name]
            for ka in kinds:
                for _ in range(reps):
                    if width > 2:
                        if ka in DEG2:
                            continue                  # a triple product of degree-2 types may legitimately overflow
                        pool = [k for k in kinds if k not in DEG2]
                    else:
                        pool = kinds
                    kb, kc = rng.choice(pool), rng.choice(pool)
                    deg2 = bool({ka, kb, kc} & DEG2)
                    n = rng.randint(2, 5)
                    maxdeg = 1 if deg2 else rng.choice([1, 2, 3])
                    a, b, c = (_m(k, equalfn_poly(rng, n, maxdeg)) for k in (ka, kb, kc))
                    v = _m(rng.choice(kinds), [[[rng.randrange(n)], "1"]])
                    t1, t2 = build(a, b, c, v)
                    uses_matrix = bool((tree_kinds(t1, set()) | tree_kinds(t2, set())) & MATRIX)
                    out.append({"family": "equalfn", "template": name, "fam": fam, "n": n, "t1": t1, "t2": t2,
                                "labels": "int" if uses_matrix else rng.choice(Labels.STYLES_XEQ),
                                "num": rng.choice(["int", "frac"])})
    # fixed cases with labels equal across types (known finding C05:equalfn:cross-type-equal-labels): the same polynomial
    # x0*x1*c written once with one key and once with the key spelled twice in different orders
    for kind in ("PUBO", "PUSO"):
        for ks in ([[1, 0], [0, 1]], [[0, 1], [1, 0]], [[1, 0], [0, 1], [1, 0]], [[0, 1, 2], [2, 1, 0], [1, 0, 2]]):
            one = _m(kind, [[sorted(ks[0]), str(len(ks))]])
            many = _m(kind, [[k, "1"] for k in ks])
            out.append({"family": "equalfn", "template": "xeq-fixed", "fam": "bool" if kind == "PUBO" else "spin",
                        "n": 3, "t1": many, "t2": one, "labels": "xeq", "num": "int"})
    return out

def process_equalfn(ctx, cases):
    subs = []
    for c in cases:
        for t in (c["t1"], c["t2"]):
            subs.append({"family": "equalfn", "fam": c["fam"], "n": c["n"], "tree": t, "labels": c["labels"],
                         "num": c["num"]})
    models = common.run_driver([{"op": "expr", "tree": strip(sc["tree"])} for sc in subs])
    impls = [run_impl(sc) for sc in subs]
    for i, c in enumerate(cases):
        ctx.case(c, True)
        ctx.traces += 1
        res = []
        for j in (2 * i, 2 * i + 1):
            canon, obj, log = impls[j]
            mm = {k: v for k, v in models[j].items() if k != "order"}
            if canon != mm:
                ctx.diff("equalfn", subs[j], canon, mm)
            bad = oracle(subs[j], canon, obj, log)
            if bad:
                ctx.violation("C05:equalfn", subs[j], bad)
            res.append((canon, obj, mm))
        (c1, o1, m1), (c2, o2, m2) = res
        # the premise, straight from the two trees: same value at every assignment of the family
        spin = c["fam"] == "spin"
        same = True
        for bits in itertools.product((0, 1), repeat=c["n"]):
            xs = {k: Fraction((1 - 2 * b) if spin else b) for k, b in enumerate(bits)}
            if den(c["t1"], xs) != den(c["t2"], xs):
                same = False
                break
        if not same:
            ctx.notes.append("equalfn template %s produced trees that are not the same function" % c["template"])
            ctx.count("equalfn:BROKEN-TEMPLATE")
            continue
        if "err" in c1 or "err" in c2:
            ctx.count("equalfn:%s:err" % c["template"])
            continue
        ctx.count("equalfn:%s:%s" % (c["template"], c["fam"]))
        if "terms" in m1 and "terms" in m2 and m1["terms"] != m2["terms"]:
            ctx.diff("equalfn-model", c, m1, m2)        # would contradict equal_functions_equal_dicts
        if not (o1 == o2 and o2 == o1 and not (o1 != o2) and dict(o1) == dict(o2)):
            if c["labels"] == "xeq" and c1["terms"] == c2["terms"]:
                # the two results are the same polynomial and differ only in how one monomial is spelled with labels that
                # are equal across types (1, 1.0, True): the recorded known finding, kept apart from every other failure
                ctx.violation("C05:equalfn:cross-type-equal-labels", c,
                              "same function, same polynomial, but the stored dicts differ in the spelling of a key whose "
                              "labels are equal across types: %r vs %r" % (dict(o1), dict(o2)))
            else:
                ctx.violation("C05:equalfn", c,
                              "two expression trees denoting the same function gave models that do not compare equal: "
                              "%r vs %r" % (c1["terms"], c2["terms"]))

# ------------------------------------------------------------------ cancel family

def _ip(op, a, b): return {"t": op, "a": a, "b": b, "inplace": True}
def _raw(p): return {"t": "raw", "p": p}
def _scale(p, c): return [[k, fs(Fraction(v) * c)] for k, v in p]

def cancel_templates():
    """name -> builder(kind, pa, pt, kt) -> tree whose value is the polynomial `pa`: `pt` (every key holds one of the
    highest labels) is added and taken away again by operators.  `kt` is the kind of the model that carries `pt`."""
    return {
        "add-sub": lambda k, pa, pt, kt: _b("sub", _b("add", _m(k, pa), _m(kt, pt)), _m(kt, pt)),
        "neg-rsub": lambda k, pa, pt, kt: {"t": "neg", "a": _b("sub", _m(kt, pt), _b("add", _m(k, pa), _m(kt, pt)))},
        "leaf-sub-raw": lambda k, pa, pt, kt: _b("sub", _m(k, pa + pt), _raw(pt)),
        "neg-raw-rsub": lambda k, pa, pt, kt: {"t": "neg", "a": _b("sub", _raw(pt), _m(k, pa + pt))},
        "inplace-chain": lambda k, pa, pt, kt: _ip("sub", _ip("mul", _ip("add", _m(k, _scale(pa, Fraction(1, 2))), _raw(pt)),
                                                              _num("2")), _raw(_scale(pt, 2))),
        "product-minus": lambda k, pa, pt, kt: _b("sub", _b("mul", _m(k, pa + pt), _raw([[[], "1"]])), _m(kt, pt)),
        "add-neg": lambda k, pa, pt, kt: _b("add", _b("add", _m(k, pa), _raw(pt)), {"t": "neg", "a": _m(kt, pt)}),
        "div-sub": lambda k, pa, pt, kt: _ip("sub", {"t": "div", "a": _m(k, _scale(pa + pt, 2)), "c": "2", "inplace": False},
                                             _m(kt, pt)),
        "isub-self-part": lambda k, pa, pt, kt: _ip("add", _ip("sub", _m(k, pa + pt), _m(kt, pt)), _num("0")),
    }

def cancel_polys(rng, kind):
    """(n, pa, pt): pa over the labels < m (possibly empty or a constant), pt non-empty with pairwise distinct squashed keys
    that each hold a label >= m; coefficients of pt non-zero"""
    deg2 = kind in DEG2
    m = rng.choice([0, 1, 1, 2, 2, 3])
    top = rng.choice([1, 1, 2])
    n = m + top
    pa, seen = [], set()
    for _ in range(rng.choice([0, 1, 1, 2, 3])):
        ln = rng.randint(0, min(m, 2 if deg2 else 3))
        key = tuple(sorted(rng.sample(range(m), ln)))
        if key in seen:
            continue
        seen.add(key)
        c = gen_coef(rng)
        pa.append([list(key), c if Fraction(c) != 0 else "1"])
    pt, seen = [], set()
    for _ in range(rng.choice([1, 1, 2, 3])):
        hi = rng.randrange(m, n)
        rest = rng.sample(range(n), rng.randint(0, min(n - 1, 1 if deg2 else 2)))
        key = tuple(sorted(set(rest) | {hi}))
        if key in seen:
            continue
        seen.add(key)
        c = gen_coef(rng)
        key = list(key)
        rng.shuffle(key)                      # raw spelling: any order
        pt.append([key, c if Fraction(c) != 0 else "-2"])
    return n, pa, pt

def cancel_cases(rng, reps):
    out = []
    T = cancel_templates()
    for fam, kinds in (("bool", BOOL_KINDS), ("spin", SPIN_KINDS)):
        for name in sorted(T):
            for kind in kinds:
                for _ in range(reps):
                    n, pa, pt = cancel_polys(rng, kind)
                    maxlen = max(len(k) for k, _ in pt)
                    kt = rng.choice([k for k in kinds if k not in DEG2 or maxlen <= 2])
                    if name == "neg-rsub" and kt in DEG2 and any(len(k) > 2 for k, _ in pa):
                        kt = kind             # there the left operand (the carrier of pt) decides the result type
                    tree = T[name](kind, pa, pt, kt)
                    num = rng.choice(["int", "frac", "float"])
                    if num == "float" and (not all_dyadic(tree) or not float_exact(tree, fam == "spin")):
                        num = "frac"
                    out.append({"family": "cancel", "template": name, "fam": fam, "n": n, "tree": tree, "labels": "int",
                                "num": num})
    return out

# ------------------------------------------------------------------ extreme family (ORACLE-ONLY)

EXT_COEFS = ["1e-200", "-1e-200", "3.0", "-2.5", "1e-160", "5e-324", "1e308", "-1e300", "2.5e-162", "1.0", "7e-310"]
EXT_SCALARS = ["1e-200", "-1e-200", "1e-165", "1e200", "1e308", "-1e308", "inf", "-inf", "5e-324", "0.5", "2.0", "1e-300"]

def extreme_cases(rng, reps):
    """one model with float coefficients, then 1..3 operator steps; the history goes on with each result"""
    out = []
    for fam, kinds in (("bool", BOOL_KINDS), ("spin", SPIN_KINDS)):
        for kind in kinds:
            for r in range(reps):
                n = rng.randint(1, 4)
                p, seen = [], set()
                for _ in range(rng.randint(1, 4)):
                    # degree-2 types: one label per key, so that a model product never needs a third label
                    key = tuple(sorted(rng.sample(range(n), rng.randint(0, min(n, 1 if kind in DEG2 else 2)))))
                    if key in seen:
                        continue
                    seen.add(key)
                    p.append([list(key), rng.choice(EXT_COEFS)])
                steps = []
                for _ in range(rng.choice([1, 1, 2, 3])):
                    t = rng.choice(["mul", "mul", "rmul", "imul", "imul", "div", "div", "idiv", "idiv", "neg", "mulm", "imulm"])
                    if kind in DEG2 and t in ("mulm", "imulm") and any(x["t"] in ("mulm", "imulm") for x in steps):
                        t = "mul"             # a second model product would need a third label (a legitimate KeyError)
                    if t in ("mulm", "imulm"):
                        q = [[[rng.randrange(n)] if rng.random() < 0.7 else [], rng.choice(EXT_COEFS)]
                             for _ in range(rng.randint(1, 2))]
                        q = [[list(k), v] for k, v in {tuple(k): v for k, v in q}.items()]
                        steps.append({"t": t, "q": q})
                    elif t == "neg":
                        steps.append({"t": t})
                    else:
                        sc = [x for x in EXT_SCALARS if not (t in ("mul", "rmul", "imul") and "inf" in x)] \
                            + (["0.0", "-0.0"] if t in ("mul", "rmul", "imul") else [])
                        steps.append({"t": t, "s": rng.choice(sc)})
                out.append({"family": "extreme", "fam": fam, "kind": kind, "n": n, "p": p, "steps": steps,
                            "np": rng.random() < 0.25})
    # fixed: the documented shapes (product and quotient underflow, division by inf) on every type
    for fam, kinds in (("bool", BOOL_KINDS), ("spin", SPIN_KINDS)):
        for kind in kinds:
            p = [[[0], "1e-200"], [[1, 2], "3.0"], [[], "-1e-200"]]
            for steps in ([{"t": "mul", "s": "1e-200"}], [{"t": "rmul", "s": "1e-200"}], [{"t": "imul", "s": "1e-200"}, {"t": "imul", "s": "2.0"}],
                          [{"t": "div", "s": "1e308"}, {"t": "div", "s": "1e308"}], [{"t": "idiv", "s": "1e200"}],
                          [{"t": "div", "s": "inf"}], [{"t": "idiv", "s": "-inf"}], [{"t": "mul", "s": "1e-200"}, {"t": "neg"}]):
                out.append({"family": "extreme", "fam": fam, "kind": kind, "n": 3, "p": p, "steps": steps, "np": False})
    return out

def run_extreme(case):
    """ORACLE-ONLY: returns the first failing clause or None.  Written from the property text: results are stored
    canonically (no zero coefficient), so that models denoting the same function compare equal; result type; operands."""
    import math
    import numpy as np
    cls = cls_of(case["kind"])
    fl = (lambda s: np.float64(float(s))) if case["np"] else float
    a = cls({tuple(k): float(v) for k, v in case["p"]})
    with np.errstate(all="ignore"):
        for si, st in enumerate(case["steps"]):
            t = st["t"]
            before = dict(a)
            want = None
            if t in ("mulm", "imulm"):
                other = cls({tuple(k): float(v) for k, v in st["q"]})
                osnap = dict(other)
            try:
                if t == "mul":
                    s = fl(st["s"]); r = a * s; want = {k: v * s for k, v in before.items()}
                elif t == "rmul":
                    s = float(st["s"]); r = s * a; want = {k: v * s for k, v in before.items()}
                elif t == "imul":
                    s = fl(st["s"]); r = a; r *= s; want = {k: v * s for k, v in before.items()}
                elif t == "div":
                    s = fl(st["s"]); r = a / s; want = {k: v / s for k, v in before.items()}
                elif t == "idiv":
                    s = fl(st["s"]); r = a; r /= s; want = {k: v / s for k, v in before.items()}
                elif t == "neg":
                    r = -a; want = {k: -v for k, v in before.items()}
                elif t == "mulm":
                    r = a * other
                else:
                    r = a; r *= other
            except Exception as e:
                return "step %d (%s) raised %s: %s" % (si, json.dumps(st), type(e).__name__, str(e)[:200])
            inplace = t in ("imul", "idiv", "imulm")
            if inplace and r is not a:
                return "step %d (%s): the in-place form did not return self" % (si, json.dumps(st))
            if not inplace and (r is a or dict(a) != before):
                return "step %d (%s) modified or returned its operand" % (si, json.dumps(st))
            if t in ("mulm", "imulm") and dict(other) != osnap:
                return "step %d (%s) modified its right operand" % (si, json.dumps(st))
            if type(r) is not cls:
                return "step %d (%s) returned %s, expected %s" % (si, json.dumps(st), type(r).__name__, cls.__name__)
            if any(isinstance(v, float) and math.isnan(v) for v in list(r.values()) + list((want or {}).values())):
                return None          # inf * 0 / inf - inf: no function left to talk about
            bad = common.keys_are_canonical(r)
            if bad:
                return "step %d (%s) on %r: result %r is not stored canonically: %s" % (si, json.dumps(st), before, dict(r), bad)
            canon = cls({k: v for k, v in r.items() if v != 0})     # the canonical model of the function the result denotes
            if not (r == canon and canon == r and not (r != canon) and len(r) == len(canon) and r.num_terms == len(canon)):
                return "step %d (%s): result %r does not compare equal to the canonical model %r of the same function " \
                       "(num_terms %r)" % (si, json.dumps(st), dict(r), dict(canon), r.num_terms)
            if want is not None:
                wantc = {k: v for k, v in want.items() if v != 0}
                if dict(r) != wantc or len(r) != len(wantc):
                    return "step %d (%s) on %r: result %r, but the coefficientwise IEEE results without the zeros are %r" % (
                        si, json.dumps(st), before, dict(r), wantc)
            a = r
    return None

def process_extreme(ctx, cases):
    for c in cases:
        ctx.case(c, len(c["p"]) >= 2)
        ctx.count("extreme:" + c["kind"])
        for st in c["steps"]:
            ctx.count("extreme:step:" + st["t"])
        bad = run_extreme(c)
        if bad:
            ctx.violation("C05:extreme", c, bad)

# ------------------------------------------------------------------ driver of the check

def expr_case(rng, depth=None):
    fam = rng.choice(["bool", "spin"])
    kinds = BOOL_KINDS if fam == "bool" else SPIN_KINDS
    r = rng.random()
    if r < 0.25:
        kinds = [k for k in kinds if k in DEG2]
    elif r < 0.6:
        kinds = [k for k in kinds if k not in DEG2]
    n = rng.randint(2, 6)
    tree = gen_model(rng, fam, n, depth if depth is not None else rng.choice([1, 2, 2, 3, 3, 4]), kinds)
    uses_matrix = bool(tree_kinds(tree, set()) & MATRIX)
    labels = "int" if uses_matrix else rng.choice(Labels.STYLES_XEQ)
    num = rng.choice(["int", "frac", "float"])
    if num == "float" and (not all_dyadic(tree) or not float_exact(tree, fam == "spin")):
        num = "frac"
    return {"family": "expr", "fam": fam, "n": n, "tree": tree, "labels": labels, "num": num}

def float_exact(t, spin):
    """IEEE double arithmetic is exact on this tree: every coefficient of every subtree's exact value (computed
    with Fractions) is a dyadic rational of at most 40 significant bits"""
    def ok(v):
        v = Fraction(v)
        return v.denominator & (v.denominator - 1) == 0 and v.numerator.bit_length() + v.denominator.bit_length() <= 40
    def walk(u):
        try:
            kind, d = ref_eval(u, spin)
        except Exception:
            return True      # raises on both sides alike; nothing numeric to compare
        vals = [d] if kind == "num" else [v for _, v in d] if kind is None else list(d.values())
        if not all(ok(v) for v in vals):
            return False
        return all(walk(u[c]) for c in ("a", "b") if c in u and isinstance(u[c], dict))
    return walk(t)

def all_dyadic(t):
    def dy(s):
        d = Fraction(s).denominator
        return d & (d - 1) == 0
    if t["t"] == "num":
        return dy(t["c"])
    if t["t"] in ("raw", "mdl"):
        return all(dy(v) for _, v in t["p"])
    if t["t"] == "div" and (Fraction(t["c"]) == 0 or not dy(1 / Fraction(t["c"]))):
        return False
    return all(all_dyadic(t[c]) for c in ("a", "b") if c in t and isinstance(t[c], dict))

FIXED = {"bool": [[[0, 1], "2"], [[1], "-1"], [[], "1/2"]], "spin": [[[0, 1], "2"], [[1], "-1"], [[], "1/2"]]}
FIXED2 = [[[2, 1], "3"], [[0], "1"], [[1, 1], "-1/2"]]

def triple_cases():
    out = []
    for fam, kinds in (("bool", BOOL_KINDS), ("spin", SPIN_KINDS)):
        rights = [("mdl", k) for k in kinds] + [("raw", None), ("num", None)]
        for op in ("add", "sub", "mul"):
            for inplace in (False, True):
                for lk in kinds:
                    for rt, rk in rights:
                        left = {"t": "mdl", "k": lk, "p": FIXED[fam]}
                        right = ({"t": "mdl", "k": rk, "p": FIXED2 if rk not in DEG2 else FIXED[fam]} if rt == "mdl"
                                 else {"t": "raw", "p": FIXED2} if rt == "raw" else {"t": "num", "c": "3/2"})
                        out.append({"family": "triple", "fam": fam, "n": 3, "labels": "int", "num": "frac",
                                    "tree": {"t": op, "a": left, "b": right, "inplace": inplace}})
                        if not inplace:
                            out.append({"family": "triple", "fam": fam, "n": 3, "labels": "int", "num": "frac",
                                        "tree": {"t": op, "a": right, "b": left, "inplace": False}})
    return out

REPEAT_KEYS = [[0, 0, 0, 1, 2], [0, 1, 1, 1, 2, 2, 2], [0, 0, 0, 1], [0, 0, 1, 1, 2], [2, 2, 2, 2, 2, 0, 1], [0, 0, 0], [1, 1, 1, 1],
               [0, 1, 2, 0, 1, 2, 0], [3, 3, 3, 0, 1], [0, 0, 0, 0, 1, 2]]


def repeat_cases():
    """raw keys in which one label occurs three or more times next to others, met by every model type through the constructor,
    `model op raw`, `raw op model` and the in-place forms: boolean squashing keeps each label once, spin squashing the labels of
    odd multiplicity, and the degree-2 types must accept / reject by the degree of the SQUASHED key (fixed grid, every seed)"""
    out = []
    for fam, kinds in (("bool", BOOL_KINDS), ("spin", SPIN_KINDS)):
        for k in kinds:
            for key in REPEAT_KEYS:
                raw = {"t": "raw", "p": [[key, "3"], [[0], "1"]]}
                base = {"t": "mdl", "k": k, "p": [[[0, 1], "2"], [[], "1"]]}
                one = {"t": "mdl", "k": k, "p": [[[], "1"]]}
                trees = [{"t": "cast", "k": k, "a": raw},
                         {"t": "add", "a": base, "b": raw, "inplace": False}, {"t": "add", "a": raw, "b": base, "inplace": False},
                         {"t": "add", "a": base, "b": raw, "inplace": True}, {"t": "sub", "a": base, "b": raw, "inplace": True},
                         {"t": "mul", "a": one, "b": raw, "inplace": False}, {"t": "mul", "a": one, "b": raw, "inplace": True}]
                for tr in trees:
                    out.append({"family": "repeat", "fam": fam, "n": 4, "labels": "int", "num": "frac", "tree": tr})
    return out


def strip(t):
    """the tree as the driver sees it (harness-only fields removed)"""
    u = {k: v for k, v in t.items() if k not in ("inplace", "alias")}
    for c in ("a", "b"):
        if c in u and isinstance(u[c], dict):
            u[c] = strip(u[c])
    if t.get("alias"):
        u["b"] = u["a"]
    return u

def process(ctx, cases):
    eq = [c for c in cases if c["family"] == "equalfn" and "t1" in c]
    ext = [c for c in cases if c["family"] == "extreme"]
    cases = [c for c in cases if not (c["family"] == "equalfn" and "t1" in c) and c["family"] != "extreme"]
    if cases:
        process_plain(ctx, cases)
    if eq:
        process_equalfn(ctx, eq)        # after the older families, so their reports keep their order
    if ext:
        process_extreme(ctx, ext)       # oracle-only: nothing is sent to the Lean driver

def process_plain(ctx, cases):
    lines, impls = [], []
    for c in cases:
        if c["family"] == "value":
            lines.append(value_model_line(c))
            impls.append((run_value_impl(c), None, []))
        else:
            lines.append({"op": "expr", "tree": strip(c["tree"])})
            impls.append(run_impl(c))
    models = common.run_driver(lines)
    for c, (canon, obj, log), m in zip(cases, impls, models):
        if c["family"] == "value":
            ctx.case(c, len(c["p"]) >= 2)
            ctx.count("value:" + c["f"] + ":" + c["container"])
            if canon != m:
                ctx.diff("value", c, canon, m)
            bad = value_oracle(c, canon)
            if bad:
                ctx.violation("C05:value", c, bad)
            continue
        ctx.case(c, tree_nontrivial(c["tree"]))
        ctx.count(c["family"] + ":" + ("err:" + canon["err"] if "err" in canon else canon["type"]))
        mm = {k: v for k, v in m.items() if k != "order"}
        if canon != mm:
            ctx.diff(c["family"], c, canon, mm)
        bad = oracle(c, canon, obj, log)
        if bad:
            ctx.violation("C05:" + c["family"], c, bad)
        ctx.traces += 1

def check(ctx):
    rng = ctx.rng
    cases = triple_cases() + repeat_cases()
    cases += [expr_case(rng) for _ in range(ctx.scale(1500, 20000))]
    cases += [value_case(rng) for _ in range(ctx.scale(400, 4000))]
    cases += equalfn_cases(rng, ctx.scale(3, 30))      # generated last: the earlier streams are unchanged
    cases += cancel_cases(rng, ctx.scale(3, 30))
    cases += extreme_cases(rng, ctx.scale(12, 120))
    process(ctx, cases)
    if ctx.diffs and not ctx.violations:
        search(ctx)

def search(ctx):
    """failing-input search after a correspondence difference: the direct oracle on shrunk variants of the
    disagreeing trees (every subtree) and on a fresh larger batch"""
    extra = []
    for d in ctx.diffs[:50]:
        c = d["case"]
        if c["family"] == "value":
            continue
        def subtrees(t):
            yield t
            for ch in ("a", "b"):
                if ch in t and isinstance(t[ch], dict):
                    yield from subtrees(t[ch])
        for st in subtrees(c["tree"]):
            if st is not c["tree"] and st["t"] not in ("num", "raw"):
                extra.append(dict(c, tree=st))
    extra += [expr_case(ctx.rng) for _ in range(3000)]
    for c in extra:
        canon, obj, log = run_impl(c)
        bad = oracle(c, canon, obj, log)
        if bad:
            ctx.violation("C05:" + c["family"], c, bad)

def replay(ctx, payload):
    c = payload.get("case") or (payload.get("first_difference") or {}).get("case")
    if not c:
        ctx.notes.append("replay file has no case; re-running the full check")
        return check(ctx)
    process(ctx, [c])
