"""C01 — degree reduction never undercuts the model and is exact on consistent ancillas.

Correspondence families
  exact        level (i): the matrix returned by to_qubo / to_quso / to_pubo(deg) / to_puso(deg) of a
               PUBO/PUSO/PCBO/PCSO equals the result of the Lean implementation model `Qv.Reduce.route`
               (all eight routes, shortcuts, ValueError for deg < 2)
  exact-cert   (hook present) the certificate recorded by the hook equals the certificate the implementation
               model emits (pins the documented pair heuristic)
  self-check   the implementation model's own certificate is accepted by the specification checker and
               reproduces its D  (run-time form of T1.0)
  certificate  level (ii), through the hook `_verif_reduction_certificate`: the recorded certificate is
               accepted by the Lean specification checker `Qv.Reduce.replay` and reproduces the returned
               matrix exactly.  This is the tie the theorems of Qv/Props/C01.lean need.
  labels       the same abstract case under three label realisations gives the same abstract result
  history      (all of the above on) ONE model object converted several times, with steps in between that change
               the mapping and/or the terms: refresh() after construction from keys in non-canonical order,
               set_mapping / set_reverse_mapping with a permutation, clear() + rebuild in another order, `*=` by a
               scalar or a constant dict, an item update, a conversion of a copy.  Every conversion is compared
               with the Lean model fed the bookkeeping the code reads at that moment, and judged by the oracle
               when the bookkeeping is consistent (mapping a bijection between the variables and 0..n-1).
Direct oracle (independent of the Lean model): truth tables over all variables of D (n + ancillas <= 16).
"""
import itertools, json, math, os
from fractions import Fraction
from . import common
from .common import Labels, fs, exc_name

CEXT = "plain"
RULE = ("random PUBO/PUSO/PCBO/PCSO built from a dict, or term by term with a cancelled extra term and refresh() (refreshed state), or the same without refresh() (stale mapping / variable count / degree: correspondence only, the oracle is for refreshed models), 1..6 variables, 1..6 terms, degree <= 6 "
        "(thorough: <= 9 variables, degree <= 8), raw keys in random label order, coefficients int / Fraction / "
        "dyadic float; targets to_qubo, to_quso, to_pubo(deg), to_puso(deg) with deg in {None,2,3,4} (+ malformed "
        "deg 0/1); lam None / constant (incl. 0 and too small) / callable from a fixed menu; pairs none / valid / "
        "partly unknown labels; each abstract case under three label realisations; plus histories of 2-4 conversions of one object with mapping-/term-changing steps in between.  A case is non-trivial when "
        "the reduction performed at least one step; distinct = distinct case JSON")
ASSUMPTIONS = [
    "the oracle's models are in the refreshed bookkeeping state (built from a dict of distinct non-zero terms, or refreshed after incremental edits), as in the property's quantifier; stale states are covered by the correspondence only",
    "float coefficients are restricted to dyadic rationals so IEEE arithmetic is exact",
    "level (ii) uses the certificate hook in qubovert/_pubo.py (guard JTIOSUE_QUBOVERT_VERIF=1); when the hook is absent only level (i) is checked and the run says so in coverage.notes",
]

KINDS = ["PUBO", "PUSO", "PCBO", "PCSO"]
SPIN = {"PUSO", "PCSO"}
TARGETS = ["qubo", "quso", "pubo", "puso"]
UNKNOWN = 60            # abstract id of a label that no model uses

# ------------------------------------------------------------------ numbers

def dyadic(s):
    d = Fraction(s).denominator
    return d & (d - 1) == 0

def num_of(s, style):
    f = Fraction(s)
    if style == "float":
        return float(f)
    if style == "int" and f.denominator == 1:
        return int(f)
    return f

def lam_numbers(lam):
    return lam[1:]

def lam_value(lam, v):
    """the penalty value as an exact Fraction (from the case description, not from the Lean model)"""
    v = Fraction(v)
    k = lam[0]
    if k == "default":
        return 1 + abs(v)
    if k == "const":
        return Fraction(lam[1])
    if k == "abs":
        return Fraction(lam[1]) * abs(v)
    if k == "affine":
        return Fraction(lam[1]) * v + Fraction(lam[2])
    if k == "sq":
        return v * v + Fraction(lam[1])
    raise ValueError(k)

def lam_py(lam, style):
    """the `lam` argument handed to qubovert"""
    k = lam[0]
    if k == "default":
        return None
    c = [num_of(x, style) for x in lam[1:]]
    if k == "const":
        return c[0]
    if k == "abs":
        return lambda v: c[0] * abs(v)
    if k == "affine":
        return lambda v: c[0] * v + c[1]
    if k == "sq":
        return lambda v: v * v + c[0]
    raise ValueError(k)

# ------------------------------------------------------------------ generation

COEFS = ["-3", "-2", "-1", "1", "2", "3", "4", "1/2", "-1/2", "3/2", "-3/4", "5/8", "1/4", "1/3", "-2/3", "5/7"]
LAMS = ([["default"]] * 6 +
        [["const", c] for c in ("0", "1/2", "1", "5", "7/2", "20", "1/3")] +
        [["abs", c] for c in ("1", "2", "3/2", "1/2")] +
        [["affine", a, b] for a, b in (("1", "1"), ("-1", "0"), ("0", "3"), ("1/2", "2"))] +
        [["sq", c] for c in ("0", "1", "1/4")])

def gen_abstract(rng, big=False):
    nv = rng.randint(1, 9 if big else 6)
    maxdeg = min(nv, 8 if big else 6)
    nterms = rng.randint(1, 6)
    seen, terms = set(), []
    for _ in range(nterms):
        r = rng.random()
        ln = rng.randint(0, maxdeg) if r < 0.5 else rng.randint(min(3, maxdeg), maxdeg)
        key = rng.sample(range(nv), ln)
        if frozenset(key) in seen:
            continue
        seen.add(frozenset(key))
        terms.append([key, rng.choice(COEFS[:9] if rng.random() < 0.7 else COEFS)])
    kind = rng.choice(KINDS)
    target = rng.choice(TARGETS)
    r = rng.random()
    deg = None if r < 0.2 else rng.choice([2, 2, 3, 4]) if r < 0.97 else rng.choice([0, 1])
    lam = rng.choice(LAMS)
    pairs = None
    r = rng.random()
    if r < 0.45 and nv >= 2:
        pairs = []
        for _ in range(rng.randint(1, 3)):
            pairs.append(rng.sample(range(nv), 2))
        if r < 0.15:
            pairs.append([rng.randrange(nv), UNKNOWN])
        if r < 0.05:
            pairs.append(rng.sample(range(nv), min(3, nv)))
    if target == "puso":
        # pubo_to_puso computes `-value / 2` from the int 1, i.e. in floats: exact only on dyadic numbers
        terms = [[k, v if dyadic(v) else rng.choice(COEFS[:13])] for k, v in terms]
        while not all(dyadic(x) for x in lam_numbers(lam)):
            lam = rng.choice(LAMS)
    nums = [v for _, v in terms] + lam_numbers(lam)
    num = rng.choice(["int", "frac", "float"]) if all(dyadic(x) for x in nums) else "frac"
    case = {"family": "reduce", "kind": kind, "nv": nv, "terms": terms, "target": target, "deg": deg,
            "lam": lam, "pairs": pairs, "num": num}
    r = rng.random()
    if r < 0.2:
        # built term by term, with a term on otherwise unused labels added and cancelled again, then refresh()
        case["junk"] = [UNKNOWN - 1 - i for i in range(rng.randint(1, 3))]
    elif r < 0.4:
        # the same without refresh(): a stale bookkeeping state (mapping / num_binary_variables / degree still
        # count the cancelled term, which mixes model labels with otherwise unused ones and may be the longest)
        case["junk"] = ([UNKNOWN - 1 - i for i in range(rng.randint(1, 3))] +
                        rng.sample(range(nv), rng.randint(0, min(nv, 5))))
        rng.shuffle(case["junk"])
        case["stale"] = True
    return case

def realisations(rng, a):
    return [dict(a, labels=s) for s in ("int", "str", rng.choice(["tuple", "mixed"]))]

# ------------------------------------------------------------------ implementation side

def build(case):
    import qubovert as qv
    L = Labels(case["labels"])
    st = case["num"]
    d = {L.key(k): num_of(v, st) for k, v in case["terms"]}
    if case.get("junk"):
        M = getattr(qv, case["kind"])()
        items = list(d.items())
        M[L.key(case["junk"])] += 1
        for k, v in items[: len(items) // 2]:
            M[k] += v
        M[L.key(case["junk"])] -= 1
        for k, v in items[len(items) // 2:]:
            M[k] += v
        if not case.get("stale"):
            M.refresh()
    else:
        M = getattr(qv, case["kind"])(d)
    return M, L

def call_kwargs(case, L, target):
    kw = {"lam": lam_py(case["lam"], case["num"])}
    if case["pairs"] is not None:
        kw["pairs"] = {tuple(L.lab(i) for i in p) for p in case["pairs"]}
    if target in ("pubo", "puso"):
        kw["deg"] = case["deg"]
    return kw

def canon_matrix(R):
    return sorted([[list(k), fs(v)] for k, v in R.items()])

def hook_cert(Dm):
    c = getattr(Dm, "_verif_reduction_certificate", None)
    if c is None:
        return None
    out = []
    for t in c:
        lam = t["lam"]
        out.append({"key": list(t["key"]), "v": fs(t["v"]), "lam": fs(lam if lam is not None else 0),
                    "steps": [[int(x), int(y), int(z), bool(f)] for x, y, z, f, _ in t["steps"]],
                    "final": list(t["final"]),
                    "lams_equal": all(l == lam for *_, l in t["steps"])})
    return out

def finite_degree(d):
    """the cached `degree` as a natural number (`-inf` of a model that never had a term: 0)"""
    return int(d) if d == d and d not in (float("inf"), -float("inf")) else 0

def run_impl(case):
    """returns dict(canon=..., M=, R=, L=, info for the Lean lines)"""
    M, L = build(case)
    return observe(case, M, L)

def observe(case, M, L):
    """one conversion of the (possibly already used) model object M; the bookkeeping the code reads at this
    moment (items, mapping, num_binary_variables, cached degree) is what the Lean model is fed"""
    spin = case["kind"] in SPIN
    info = {"M": M, "L": L, "R": None, "cert": None, "Dbool": None}
    info["terms"] = [[L.ids(k), fs(v)] for k, v in M.items()]
    info["mapping"] = [[L.ident(lab), int(i)] for lab, i in M.mapping.items()]
    info["n"] = int(M.num_binary_variables)
    info["cdeg"] = finite_degree(M.degree)
    try:
        R = getattr(M, "to_" + case["target"])(**call_kwargs(case, L, case["target"]))
    except Exception as e:
        info["canon"] = {"err": exc_name(e)}
        return info
    info["R"] = R
    info["canon"] = {"res": canon_matrix(R)}
    # the boolean reduction behind the result (for the certificate): the result itself, or its boolean sibling
    tb = {"qubo": "qubo", "quso": "qubo", "pubo": "pubo", "puso": "pubo"}[case["target"]]
    shortcut = spin and ((case["target"] == "puso" and (case["deg"] is None or case["deg"] >= M.degree)) or
                         (case["target"] == "quso" and M.degree <= 2))
    info["shortcut"] = shortcut
    if not shortcut:
        try:
            Db = R if tb == case["target"] else getattr(M, "to_" + tb)(**call_kwargs(case, L, tb))
            info["Dbool"] = Db
            info["cert"] = hook_cert(Db)
            P = M._create_pubo() if spin else M
            info["bool_terms"] = [[L.ids(k), fs(v)] for k, v in P.items()]
            info["bool_degree"] = P.degree
            info["bool_n"] = int(P.num_binary_variables)
        except Exception as e:                       # the sibling call must not fail when the target call did not
            info["sibling_error"] = exc_name(e)
    return info

# ------------------------------------------------------------------ histories on ONE model object

MUTATORS = ["refresh", "refresh", "set_mapping", "set_mapping", "set_reverse_mapping", "rebuild", "imul", "imul_dict",
            "additem", "copy_convert"]

def gen_convert(rng, puso_only_dyadic=True):
    r = rng.random()
    deg = None if r < 0.2 else rng.choice([2, 2, 3, 4])
    lam = rng.choice(LAMS)
    while not all(dyadic(x) for x in lam_numbers(lam)):
        lam = rng.choice(LAMS)
    return {"op": "convert", "target": rng.choice(TARGETS), "deg": deg, "lam": lam}

def gen_history(rng, big=False):
    """a model (raw keys in random label order, so that refresh() changes the mapping) converted several times,
    with steps in between that change the mapping and/or the terms of the SAME object"""
    a = gen_abstract(rng, big)
    while len(a["terms"]) < 2 or max(len(k) for k, _ in a["terms"]) < 2:
        a = gen_abstract(rng, big)
    terms = [[k, v if dyadic(v) else rng.choice(COEFS[:13])] for k, v in a["terms"]]
    steps = [gen_convert(rng)]
    for _ in range(rng.randint(1, 3)):
        for _ in range(rng.choice([1, 1, 2])):
            m = rng.choice(MUTATORS)
            st = {"op": m, "seed": rng.randrange(1 << 30)}
            if m == "imul":
                st["c"] = rng.choice(["2", "-1", "1/2", "3"])
            if m == "additem":
                st["v"] = rng.choice(["1", "-2", "1/2"])
            steps.append(st)
        steps.append(gen_convert(rng))
    return {"family": "history", "kind": rng.choice(KINDS if rng.random() < 0.5 else sorted(SPIN)), "nv": a["nv"],
            "terms": terms, "num": rng.choice(["int", "frac", "float"]),
            "labels": rng.choice(["int", "str", "tuple", "mixed"]), "steps": steps}

def apply_mutator(M, L, st, num):
    """a step between two conversions; returns the (possibly new) object that the next conversion is called on"""
    import random
    r = random.Random(st["seed"])
    op = st["op"]
    if op == "refresh":
        M.refresh()
    elif op in ("set_mapping", "set_reverse_mapping"):
        mp = M.mapping
        labels = list(mp)
        perm = list(range(len(labels)))
        r.shuffle(perm)
        if op == "set_mapping":
            M.set_mapping({lab: perm[mp[lab]] for lab in labels})
        else:
            M.set_reverse_mapping({perm[mp[lab]]: lab for lab in labels})
    elif op == "rebuild":
        items = list(M.items())
        M.clear()
        r.shuffle(items)
        for k, v in items:
            k = list(k); r.shuffle(k)
            M[tuple(k)] += v
    elif op == "imul":
        M *= num_of(st["c"], num)
    elif op == "imul_dict":
        M *= {(): num_of("2", num)}
    elif op == "additem":
        keys = [k for k in M if k]
        if keys:
            M[r.choice(keys)] += num_of(st["v"], num)
    elif op == "copy_convert":
        M.copy().to_qubo()          # a conversion of a copy must not influence the original
    return M

def consistent_state(M):
    mp = M.mapping
    return sorted(mp.values()) == list(range(M.num_binary_variables)) and set(mp) == M.variables

def run_history(h, rng):
    """executes the history on one real object; returns [(virtual case, info)] for its conversions, the oracle
    evaluated at the moment of each conversion"""
    M, L = build(h)
    out = []
    for idx, st in enumerate(h["steps"]):
        if st["op"] != "convert":
            try:
                M = apply_mutator(M, L, st, h["num"])
            except Exception as e:
                out.append((dict(h, target="qubo", deg=None, lam=["default"], pairs=None, hist=h, step=idx),
                            {"mutator_error": "%s in step %d (%s)" % (exc_name(e), idx, st["op"])}))
                break
            continue
        vc = {"family": "history", "kind": h["kind"], "nv": h["nv"], "terms": h["terms"], "num": h["num"],
              "labels": h["labels"], "target": st["target"], "deg": st["deg"], "lam": st["lam"], "pairs": None,
              "step": idx, "hist": h}
        if not consistent_state(M):
            vc["stale"] = True
        info = observe(vc, M, L)
        info["oracle"] = oracle(vc, info, rng)
        out.append((vc, info))
    return out

def model_line(case, info):
    return {"op": "reduce", "spin": case["kind"] in SPIN, "target": case["target"], "terms": info["terms"],
            "mapping": info["mapping"], "n": info["n"], "cdeg": info["cdeg"], "deg": case["deg"], "lam": case["lam"],
            "pairs": case["pairs"] or []}

def replay_line(case, info):
    deg = 2 if case["target"] in ("qubo", "quso") else case["deg"]
    if deg is None:
        deg = finite_degree(info["bool_degree"])
    post = {"puso": "puso", "quso": "quso"}.get(case["target"], "")
    cert = [{k: v for k, v in t.items() if k != "lams_equal"} for t in info["cert"]]
    return {"op": "reduce_replay", "terms": info["bool_terms"], "mapping": info["mapping"], "n": info["bool_n"],
            "deg": deg, "cert": cert, "post": post}

# ------------------------------------------------------------------ direct oracle (independent of the Lean model)

ORACLE_MAX = 16

def _tables(np, N):
    idx = np.arange(1 << N, dtype=np.int64)
    return [(idx >> i) & 1 for i in range(N)]

def _poly_table(np, terms, cols, scale, size):
    cs = [Fraction(v) * scale for _, v in terms]
    assert all(c.denominator == 1 for c in cs), (terms, scale)
    # exact integer tables: int64 when everything is small, Python integers (dtype=object) otherwise, e.g. when a
    # coefficient of the result is a float image of a non-dyadic rational (huge common denominator)
    small = sum(abs(c.numerator) for c in cs) < (1 << 60)
    dt = np.int64 if small else object
    tot = np.zeros(size, dtype=dt)
    for (k, _), c in zip(terms, cs):
        t = np.full(size, c.numerator, dtype=dt)
        for i in k:
            t = t * (cols[i] if small else cols[i].astype(object))
        tot = tot + t
    return tot

def requested_degree(case, M):
    if case["target"] in ("qubo", "quso"):
        return 2
    return case["deg"] if case["deg"] is not None else M.degree

def admissible(case, info):
    """default penalty, or penalty >= |coefficient| for every term that has to be reduced"""
    if case["lam"][0] == "default":
        return True
    deg = requested_degree(case, info["M"])
    for k, v in info.get("bool_terms", []):
        if len(k) > deg and lam_value(case["lam"], v) < abs(Fraction(v)):
            return False
    return True

def oracle(case, info, rng):
    import numpy as np
    M, R, L = info["M"], info["R"], info["L"]
    spinM, spinD = case["kind"] in SPIN, case["target"] in ("quso", "puso")
    if R is None:
        err = info["canon"]["err"]
        if err == "ValueError" and case["deg"] is not None and case["deg"] < 2:
            return None, "error"
        return "unexpected exception %s" % err, "error"
    if case.get("stale"):
        # the property quantifies over models in the refreshed bookkeeping state; stale ones are covered by the
        # correspondence only
        return None, "skipped-stale"
    n = M.num_binary_variables
    mp = M.mapping
    # bookkeeping clause: labels 0..n-1 <-> M's variables through M.mapping
    if sorted(mp.values()) != list(range(n)) or set(mp) != M.variables:
        return "model not in refreshed state: mapping %r, variables %r, n %r" % (mp, M.variables, n), "state"
    # label clause
    for k in R:
        for i in k:
            if not (isinstance(i, int) and i >= 0):
                return "label %r of the result is not a non-negative integer" % (i,), "labels"
    # degree clause
    want = requested_degree(case, M)
    got = max([len(k) for k in R] + [0])
    if got > want:
        return "degree %d of the result exceeds the requested degree %s" % (got, want), "degree"
    if "sibling_error" in info:
        return "boolean sibling call raised %s although the target call succeeded" % info["sibling_error"], "error"
    N = max([n] + [i + 1 for k in R for i in k])
    if N > ORACLE_MAX:
        return None, "skipped-large"
    # values: all assignments s of D's variables
    Dterms = [(tuple(k), Fraction(fs(v))) for k, v in R.items()]
    Mterms = [(tuple(mp[i] for i in k), Fraction(fs(v))) for k, v in M.items()]
    scale = 1
    for _, v in Dterms + Mterms:
        scale = scale * v.denominator // math.gcd(scale, v.denominator)
    size = 1 << N
    bits = _tables(np, N)
    sD = [1 - 2 * b for b in bits] if spinD else bits          # bit 0 -> 0 / +1 ; bit 1 -> 1 / -1
    sM = [1 - 2 * b for b in bits] if spinM else bits          # convert_solution: 0 <-> +1, 1 <-> -1
    Dt = _poly_table(np, Dterms, sD, scale, size)
    Mt = _poly_table(np, Mterms, sM, scale, size)
    # cross-check the vectorised tables against the real API on sampled assignments (all of them when small)
    idxs = list(range(size)) if size <= 64 else [rng.randrange(size) for _ in range(48)] + [0, size - 1]
    if size > 64 and N > n:
        # assignments whose model variables are all 1 while only an ancilla entry tells boolean from spin form
        # (always an inconsistent ancilla setting; D(s) >= M(convert_solution(s)) is claimed for these too)
        low = 0 if spinD else (1 << n) - 1
        idxs += [((rng.randrange(1, 1 << (N - n))) << n) | low for _ in range(12)]
    for ix in idxs:
        s = [int(sD[i][ix]) for i in range(N)]
        x = M.convert_solution(s, spin=spinD)
        if set(x) != set(mp) or any(x[lab] != int(sM[i][ix]) for lab, i in mp.items()):
            return "convert_solution(%s) = %r does not read labels 0..n-1 through M.mapping" % (s, x), "convert"
        if any(v != 1 for v in s):
            # the documented default call form: the `spin` flag only matters for the all-ones solution
            x0 = M.convert_solution(s)
            if x0 != x:
                return ("convert_solution(%s) without the `spin` keyword = %r, but the solution is unambiguously in %s form "
                        "and converts to %r" % (s, x0, "spin" if spinD else "boolean", x)), "convert"
        if Fraction(fs(M.value(x))) * scale != int(Mt[ix]) or Fraction(fs(R.value(s))) * scale != int(Dt[ix]):
            return "value table mismatch at %s (harness self-check)" % s, "selfcheck"
    # (a) every assignment x of M has an extension with equality, whatever the penalty
    lo = 1 << n
    eq = (Dt == Mt).reshape(size // lo, lo)
    if not eq.any(axis=0).all():
        xi = int((~eq.any(axis=0)).argmax())
        x = {lab: int(sM[i][xi]) for lab, i in mp.items()}
        return "assignment %r of M (value %s) has no extension s with D(s) = M(x)" % (
            x, Fraction(int(Mt[xi]), scale)), "extension"
    # (b) never undercuts, for admissible penalties
    if admissible(case, info):
        bad = Dt < Mt
        if bad.any():
            ix = int(bad.argmax())
            s = [int(sD[i][ix]) for i in range(N)]
            return "D(s) = %s < M(convert_solution(s)) = %s at s = %s" % (
                Fraction(int(Dt[ix]), scale), Fraction(int(Mt[ix]), scale), s), "undercut"
        # (c) consequences: same minimum; minimisers of D convert to minimisers of M
        if int(Dt.min()) != int(Mt.min()):
            return "min D = %s but min M = %s" % (Fraction(int(Dt.min()), scale), Fraction(int(Mt.min()), scale)), "minimum"
        return None, "full"
    return None, "inadmissible-lam"

# ------------------------------------------------------------------ the check

def nontrivial(info, model):
    return bool(model.get("cert")) and any(t["steps"] for t in model["cert"])

def process(ctx, cases, label_groups=None, infos=None):
    if infos is None:
        infos = [run_impl(c) for c in cases]
    bad_mut = [(c, i) for c, i in zip(cases, infos) if "mutator_error" in i]
    for c, i in bad_mut:
        ctx.count("history:mutator-error")
        ctx.notes.append("history step raised: " + i["mutator_error"])
    keep = [k for k, i in enumerate(infos) if "mutator_error" not in i]
    cases, infos = [cases[k] for k in keep], [infos[k] for k in keep]
    models = common.run_driver([model_line(c, i) for c, i in zip(cases, infos)])
    hooked = [i for i, inf in enumerate(infos) if inf.get("cert") is not None]
    rep = common.run_driver([replay_line(cases[i], infos[i]) for i in hooked])
    rep = dict(zip(hooked, rep))
    any_reduction = any(inf.get("Dbool") is not None for inf in infos)
    if any_reduction and not hooked:
        note = ("certificate hook absent in the staged tree: level (ii) certificate replay not run; only level "
                "(i) exact comparison")
        if note not in ctx.notes:
            ctx.notes.append(note)
    for ix, (c, inf, m) in enumerate(zip(cases, infos, models)):
        ctx.case(c, nontrivial(inf, m))
        ctx.traces += 1
        ctx.count("kind:%s->%s" % (c["kind"], c["target"]))
        ctx.count("deg:%s" % c["deg"]); ctx.count("lam:" + c["lam"][0]); ctx.count("labels:" + c["labels"])
        ctx.count("build:" + ("stale" if c.get("stale") else "incremental+refresh" if c.get("junk") else "dict"))
        ctx.count("pairs:" + ("none" if c["pairs"] is None else "unknown" if any(UNKNOWN in p for p in c["pairs"]) else "valid"))
        # level (i)
        mm = {"err": m["err"]} if "err" in m else {"res": m.get("res")}
        if inf["canon"] != mm:
            ctx.diff("exact", c, inf["canon"], mm)
        if "err" in m:
            ctx.count("err:" + m["err"])
        elif m.get("shortcut"):
            ctx.count("route:shortcut")
        else:
            steps = sum(len(t["steps"]) for t in m["cert"])
            reused = sum(1 for t in m["cert"] for s in t["steps"] if not s[3])
            ctx.count("steps", steps); ctx.count("steps-reused", reused)
            ctx.count("ancillas:%d" % min(m["next"] - inf["n"], 12))
            if m.get("self_check") != "ok":
                ctx.diff("self-check", c, "ok", m.get("self_check"))
        # level (ii)
        if ix in rep:
            r = rep[ix]
            ctx.count("certificate-replayed")
            if any(not t["lams_equal"] for t in inf["cert"]):
                ctx.diff("certificate", c, "one penalty value per term", "penalty varies between the steps of a term")
            if not r.get("ok"):
                ctx.diff("certificate", c, inf["canon"], r)
            elif {"res": r["res"]} != inf["canon"]:
                ctx.diff("certificate", c, inf["canon"], {"res": r["res"]})
            if "cert" in m:
                hc = [[t["key"], t["v"], t["steps"], t["final"]] for t in inf["cert"]]
                mc = [[t["key"], t["v"], t["steps"], t["final"]] for t in m["cert"]]
                if hc != mc:
                    ctx.diff("exact-cert", c, hc, mc)
        # direct oracle
        bad, tag = inf["oracle"] if "oracle" in inf else oracle(c, inf, ctx.rng)
        ctx.count("oracle:" + tag)
        if c.get("family") == "history":
            ctx.count("history:conversion-%d" % sum(1 for s in c["hist"]["steps"][: c["step"]] if s["op"] == "convert"))
            for s in c["hist"]["steps"][: c["step"]]:
                if s["op"] != "convert":
                    ctx.count("history:after-" + s["op"])
        if bad:
            ctx.violation("C01:" + tag, c, bad)
    if label_groups:
        for g in label_groups:
            rs = [json.dumps(infos[i]["canon"], sort_keys=True) for i in g]
            if len(set(rs)) > 1:
                ctx.diff("labels", [cases[i] for i in g][0], rs[0], [r for r in rs if r != rs[0]][0])
                ctx.violation("C01:labels", cases[g[0]],
                              "the same abstract model gives different results under label realisations %s"
                              % [cases[i]["labels"] for i in g])

FIXED = [
    # the docstring examples and hand-made corner cases (always run)
    {"kind": "PUBO", "nv": 3, "terms": [[[0], "5"], [[1, 0, 2], "-2"], [[], "-3/2"]], "target": "qubo", "deg": None,
     "lam": ["const", "3"], "pairs": None, "num": "frac"},
    {"kind": "PUSO", "nv": 3, "terms": [[[0], "5"], [[1, 0, 2], "-2"], [[], "-3/2"]], "target": "quso", "deg": None,
     "lam": ["const", "3"], "pairs": None, "num": "frac"},
    {"kind": "PUBO", "nv": 5, "terms": [[[0, 1, 2, 3], "2"], [[0, 1, 4], "-1"], [[2], "3"]], "target": "qubo",
     "deg": None, "lam": ["default"], "pairs": None, "num": "int"},
    {"kind": "PCBO", "nv": 5, "terms": [[[0, 1, 2, 3], "2"], [[0, 1, 4], "-1"], [[2, 3, 4], "3"]], "target": "pubo",
     "deg": 2, "lam": ["default"], "pairs": [[2, 3], [4, 1]], "num": "int"},
    {"kind": "PUBO", "nv": 4, "terms": [[[0, 1, 2, 3], "-4"]], "target": "quso", "deg": None, "lam": ["const", "1"],
     "pairs": None, "num": "int"},
    {"kind": "PCSO", "nv": 4, "terms": [[[0, 1, 2, 3], "1"], [[0, 1], "1/2"]], "target": "puso", "deg": 3,
     "lam": ["abs", "2"], "pairs": None, "num": "frac"},
    {"kind": "PUSO", "nv": 2, "terms": [[[0, 1], "1"]], "target": "puso", "deg": 1, "lam": ["default"],
     "pairs": None, "num": "int"},
    {"kind": "PUSO", "nv": 3, "terms": [[[0, 1, 2], "1"]], "target": "puso", "deg": 1, "lam": ["default"],
     "pairs": None, "num": "int"},
    {"kind": "PUBO", "nv": 1, "terms": [[[], "2"]], "target": "pubo", "deg": None, "lam": ["default"],
     "pairs": None, "num": "int"},
    {"kind": "PUBO", "nv": 3, "terms": [[[0, 1, 2], "1"]], "target": "pubo", "deg": 2, "lam": ["const", "0"],
     "pairs": None, "num": "int"},
]

def check(ctx):
    rng = ctx.rng
    cases, groups = [], []
    for a in [dict(f, family="reduce") for f in FIXED] + [gen_abstract(rng) for _ in range(ctx.scale(1000, 12000))]:
        g = []
        for c in realisations(rng, a):
            g.append(len(cases)); cases.append(c)
        groups.append(g)
    if ctx.tier == "thorough":
        # larger models: validated through the certificate (the oracle skips those with more than 16 variables)
        for a in [gen_abstract(rng, big=True) for _ in range(3000)]:
            g = []
            for c in realisations(rng, a)[:2]:
                g.append(len(cases)); cases.append(c)
            groups.append(g)
    process(ctx, cases, groups)
    # histories: the SAME object converted several times with mapping- / term-changing steps in between
    hist = [gen_history(rng) for _ in range(ctx.scale(350, 5000))]
    process_histories(ctx, hist)
    if ctx.diffs and not ctx.violations:
        search(ctx)

def process_histories(ctx, hist):
    vcs, infos = [], []
    for h in hist:
        for vc, info in run_history(h, ctx.rng):
            vcs.append(vc); infos.append(info)
    process(ctx, vcs, None, infos)

def search(ctx):
    """failing-input search after a correspondence difference: the direct oracle on variants of the disagreeing
    cases (all targets, degrees, penalties) and on a fresh batch of models of higher degree"""
    extra, seen = [], set()
    for d in ctx.diffs[:20]:
        c = d["case"]
        if not isinstance(c, dict) or "terms" not in c:
            continue
        for target in TARGETS:
            for deg in (None, 2, 3):
                for lam in (["default"], ["const", "1"], c["lam"]):
                    v = dict(c, target=target, deg=deg, lam=lam)
                    if not all(dyadic(x) for x in [t[1] for t in v["terms"]] + lam_numbers(lam)):
                        v["num"] = "frac"
                    key = json.dumps(v, sort_keys=True)
                    if key not in seen:
                        seen.add(key); extra.append(v)
    for _ in range(1500):
        a = gen_abstract(ctx.rng)
        a["lam"] = ["default"] if ctx.rng.random() < 0.7 else a["lam"]
        extra.append(dict(a, labels=ctx.rng.choice(["int", "str"])))
    for c in extra:
        inf = run_impl(c)
        bad, tag = oracle(c, inf, ctx.rng)
        if bad:
            ctx.violation("C01:" + tag, c, bad)

def replay(ctx, payload):
    c = payload.get("case") or (payload.get("first_difference") or {}).get("case")
    if not c or "terms" not in c:
        ctx.notes.append("replay file has no case; re-running the full check")
        return check(ctx)
    c = dict(c)
    c.setdefault("labels", "int")
    if c.get("family") == "history":
        return process_histories(ctx, [c.get("hist", c)])
    process(ctx, [c])
