"""C10 — problem classes encode their combinatorial problem faithfully (correspondence + enumeration oracle).

Families (one per class): NP NumberPartitioning, ASC AlternatingSectorsChain, VC VertexCover, BILP, GP GraphPartitioning,
SC SetCover, JS JobSequencing, plus `tolerance` (BILP.is_solution_valid on large right-hand sides).

Correspondence: the instance (labels mapped to ids, set iteration orders that the code itself depends on read from
the real object) goes to the Lean model `Qv.Prob.*`; compared exactly: `num_binary_variables`, `to_qubo()` and
`to_quso()` as canonical term lists, `convert_solution` and `is_solution_valid` on all (n <= 7) or sampled
assignments in list / tuple / dict, boolean / spin form with both `spin` flags and on too-short containers,
`solve_bruteforce` in both modes (same enumeration order).

Round 6: weighted SetCover instances with ZERO weights (0, 0.0, Fraction(0)), equal weights and non-dyadic fractional
weights (`gen_sc_zero`: a zero-weight subset is the only one containing some element in half of the instances — every
cover needs it — and redundant otherwise, so that optimal covers with and without it tie), and the completeness of
`solve_bruteforce(all_solutions=True)` on every class: the inherited solver must list the decoded form of EVERY ground state
of its `to_qubo(...)` over all `num_binary_variables` labels exactly once (independent enumeration), SetCover's and
JobSequencing's own solvers every optimal feasible solution exactly once.

Oracle (written from the property text; shares nothing with the Lean model): an independent decoder, feasibility
test and cost function per class, optimal cost by enumeration of the decision variables, the energies of
`to_qubo()` and `to_quso()` on *all* `num_binary_variables` labels (numpy, exact integers).
"""
import itertools, json, math, os, warnings
from fractions import Fraction
import numpy as np
from . import common
from .common import Labels, fs, exc_name

CEXT = "plain"
RULE = ("instances of the seven classes with <= 16 formulation variables: number lists (ints / Fractions, list or tuple), "
        "chains (N 1..9, chain length 2..4, pbc both ways), graphs as edge sets with repeated / reversed / self-loop edges "
        "over int / str / tuple / mixed labels, integer programs (1..3 rows, 1..5 columns, feasible by construction or not), "
        "weighted edge dicts and sets (isolated vertices through self loops), set systems with optional weights and "
        "user M, job lists / dicts with 1..3 workers, log_trick both ways; duplicated / empty / all-of-U sets, zero-length and "
        "equal-length jobs, odd vertex counts, isolated vertices; weights default, strictly above the documented threshold "
        "(ordinary, sub-unit, large-ratio, and a hair above), exactly at it (weak sentence), below it and free; "
        "weighted SetCover with zero / equal / non-dyadic fractional subset weights (a zero-weight subset needed by every cover, or "
        "redundant); solve_bruteforce(all_solutions=True) compared as a multiset with the independently enumerated optima on every class; "
        "large-magnitude exact integers (10**9 .. 10**15: number lists with part sums differing by 1 or 2 and with a "
        "perfect partition, job lengths, BILP rows) and SetCover weights differing by 2**-30 / 2**-40; the known-finding families "
        "gp-weighted (edge weights > 1) and gp-bidir (an edge in both directions) at the default A and a hair above the "
        "documented threshold; a case is non-trivial "
        "when it has >= 3 formulation variables and the matrix has >= 3 terms; distinct = distinct case JSON")
ASSUMPTIONS = ["coefficients are ints / Fractions / dyadic floats (BILP: numpy int64 / float64 on small values) so that the "
               "implementation's arithmetic is exact; weights of BILP and GraphPartitioning are dyadic rationals because their "
               "conversions divide numpy / Python ints by 2 (floats), all other classes also get non-dyadic Fractions (1/5, 1/20, 3/100 …)",
               "Python set iteration orders the code itself depends on (GraphPartitioning._vertices, SetCover._U, the "
               "variable set of _solve_bruteforce, the edge sets) are read from the real objects and passed to the model as data",
               "the ground-state sentences of all seven classes are Lean theorems about the model (Props/C10.lean); the "
               "enumeration oracle here re-checks them on the real code on every generated instance (a test of the tie, and of "
               "the thresholds' domain: GraphPartitioning on simple graphs with weights in (0, 1] — outside it only through the "
               "families gp-weighted / gp-bidir, whose failures are the known findings C10:gp-weighted-threshold / "
               "C10:gp-bidir-threshold —, SetCover / "
               "JobSequencing only when a user M fits, SetCover only on set systems over U)",
               "large-magnitude JobSequencing instances compare and enumerate to_qubo only: to_quso = qubo_to_quso(to_qubo) "
               "divides Python ints by 2 and 4 (floats, inexact above 2**53)"]

# Two defects this check demonstrated are repaired upstream and stay here as permanent regressions (signatures kept):
#  * 9a5d806  Problem.solve_bruteforce dropped the variables whose coefficients vanish from the matrix (DESIGN.md §10 D7);
#             the model (`solveVia … fill = true`) enumerates all num_binary_variables labels like the repaired code.
#  * 131e8ef  BILP.is_solution_valid compared integer data with np.allclose (rtol 1e-5) and accepted infeasible x for
#             |b_j| >= 1e5; integer dtypes are now compared exactly (model: `BILP.validConv … exact = true`).
D7 = "C10:D7-solve-bruteforce-drops-absent-variables"
TOL = "C10:BILP-allclose-accepts-infeasible"

# ------------------------------------------------------------------ numbers

def num(s, kind):
    f = Fraction(s)
    if kind == "float":
        return float(f)
    if kind == "frac":
        return f
    return int(f) if f.denominator == 1 else f

def F(v):
    if hasattr(v, "item") and not isinstance(v, (int, float, Fraction)):
        v = v.item()
    return Fraction(v)

def cterms(d):
    out = [[sorted(int(i) for i in k), fs(v)] for k, v in d.items()]
    out.sort(key=lambda t: (t[0], t[1]))
    return out

# ------------------------------------------------------------------ generators

def rs(rng, lo, hi, frac=False):
    if frac and rng.random() < 0.4:
        return str(Fraction(rng.randint(lo * 4, hi * 4), rng.choice([2, 4])))
    return str(rng.randint(lo, hi))

def weights_mode(rng):
    """default: the documented defaults; above: strictly above the documented threshold (three regimes); just: a hair
    above it; at: exactly the threshold (only the weak sentence is claimed: ground energy = optimal cost, some ground
    state feasible-optimal — SetCover, JobSequencing, GraphPartitioning); below: under it (nothing claimed;
    correspondence only); free: anything"""
    return rng.choice(["default", "default", "above", "above", "above", "free", "just", "at", "below"])

def gen_np(rng, big=False):
    n = rng.randint(1, 9 if big else 6)
    kind = rng.choice(["int", "int", "frac"])
    S = []
    for _ in range(n):
        v = rs(rng, 1, 7, kind == "frac")
        if Fraction(v) == 0:
            v = "1"
        if rng.random() < 0.15:
            v = str(-Fraction(v))
        S.append(v)
    wm = weights_mode(rng)
    A = None if wm == "default" else rng.choice([rs(rng, 1, 4, True), "1/5", "1/20", "3/100", "1000"]) if wm == "above" \
        else rng.choice(["1/1000000", "1/1024"]) if wm == "just" else "0" if wm == "at" else "-1/2" if wm == "below" \
        else rng.choice(["0", "-1", "2", "1/2"])
    if A is not None and wm == "above" and Fraction(A) <= 0:
        A = "3"
    return dict(cls="NP", S=S, container=rng.choice(["list", "tuple"]), num=kind, A=A, B=None, wmode=wm)

def gen_asc(rng, big=False):
    n = rng.randint(1, 10 if big else 7)
    mn, mx = rs(rng, 1, 3, True), rs(rng, 3, 9, True)
    r = rng.random()
    if r < 0.1:
        mn = "0"
    elif r < 0.3:           # sub-unit strengths
        mn, mx = rng.choice(["1/20", "1/100", "1/5"]), rng.choice(["1/4", "1/2", "9/10"])
    elif r < 0.4:           # large ratio
        mn, mx = rng.choice(["1/100", "1/10"]), rng.choice(["100", "1000"])
    return dict(cls="ASC", n=n, len=rng.randint(2, 4), min=mn, max=mx, pbc=rng.random() < 0.5, num="frac",
                A=None, B=None, wmode="default" if Fraction(mn) > 0 and Fraction(mx) > 0 else "free")

def gen_graph(rng, nmax, emax, loops=True):
    n = rng.randint(1, nmax)
    edges = []
    for _ in range(rng.randint(1, emax)):
        u, v = rng.randrange(n), rng.randrange(n)
        if u == v and not (loops and rng.random() < 0.5):
            v = (u + 1) % n
            if u == v:
                pass
        edges.append([u, v])
    if rng.random() < 0.2 and edges:
        e = rng.choice(edges); edges.append([e[1], e[0]])
    return edges

def ab_weights(rng, wm, thr_of_B, dyadic=False):
    """(A, B) strings (exact Fractions): default -> (None, None); above -> B > 0 and A strictly above thr_of_B(B), in three
    regimes: ordinary (B around 1, margin around 1), sub-unit (B = 1/4 .. 1/100 and a margin of a fraction of B, so that
    A < 1 whenever the threshold allows it — a weight that is squared, or otherwise mis-scaled, only shows below 1) and
    large ratio (A hundreds of times the threshold); free -> anything.  dyadic: powers of two in the denominators only
    (GraphPartitioning goes through pubo_to_puso, whose `1 / 2` turns Fractions into floats, BILP mixes the weights with
    numpy int64 data, whose `/ 2` in qubo_to_quso is a float: both are exact on dyadic values only)"""
    if wm == "default":
        return None, None
    if wm in ("just", "at", "below"):
        B = Fraction(rng.choice([1, 1, 2, 3]), rng.choice([1, 1, 2, 4, 16] if dyadic else [1, 1, 2, 5, 10]))
        thr = thr_of_B(B)
        eps = Fraction(1, rng.choice([64, 1024] if dyadic else [100, 1000, 10 ** 6]))
        A = thr + eps if wm == "just" else thr if wm == "at" else rng.choice([thr - eps, thr / 2, thr - B / 4])
        return str(A), str(B)
    if wm == "above":
        r = rng.random()
        if r < 0.4:         # sub-unit
            B = Fraction(1, rng.choice([4, 8, 16, 32, 32, 64, 128] if dyadic else [4, 8, 10, 20, 20, 50, 100]))
            A = thr_of_B(B) + B * Fraction(1, rng.choice([1, 1, 2, 4]))
        elif r < 0.5:       # large ratio
            B = Fraction(rng.choice([1, 1, 3]), rng.choice([1, 16, 128] if dyadic else [1, 10, 100]))
            A = thr_of_B(B) * rng.choice([16, 128] if dyadic else [10, 100]) + rng.choice([5, 50, 1000])
        else:
            B = Fraction(rs(rng, 1, 3, True))
            if B <= 0:
                B = Fraction(1)
            A = thr_of_B(B) + Fraction(rng.choice([1, 1, 2, 8]), rng.choice([1, 2, 4, 8]))
    else:
        B = Fraction(rs(rng, 1, 3, True))
        if B <= 0:
            B = Fraction(1)
        A = Fraction(rs(rng, -1, 4, True))
    return str(A), str(B)

def gen_vc(rng, big=False):
    edges = gen_graph(rng, 8 if big else 6, 9 if big else 6)
    wm = weights_mode(rng)
    A, B = ab_weights(rng, wm, lambda B: B)
    return dict(cls="VC", edges=edges, style=rng.choice(Labels.STYLES), num="frac", A=A, B=B, wmode=wm)

def gen_bilp(rng, big=False):
    m, n = rng.randint(1, 3), rng.randint(1, 6 if big else 4)
    S = [[rng.randint(-2, 3) for _ in range(n)] for _ in range(m)]
    if rng.random() < 0.2:
        j = rng.randrange(n)
        for row in S:
            row[j] = 0
    c = [rng.randint(-3, 3) for _ in range(n)]
    if rng.random() < 0.75:
        x = [rng.randint(0, 1) for _ in range(n)]
        b = [sum(S[i][j] * x[j] for j in range(n)) for i in range(m)]
    else:
        b = [rng.randint(-2, 4) for _ in range(m)]
    wm = weights_mode(rng)
    sabs = sum(abs(v) for v in c)
    A, B = ab_weights(rng, wm, lambda B: B * sabs, dyadic=True)   # numpy int64 / 2 is a float: dyadic weights only
    kind = rng.choice(["int", "int", "float"])
    if kind == "float" and A is not None:
        # keep floats dyadic
        A, B = str(Fraction(math.ceil(Fraction(A) * 64) + 1, 64)), str(Fraction(math.ceil(Fraction(B) * 64), 64))
        if wm == "above" and Fraction(A) <= Fraction(B) * sabs:
            A = str(Fraction(B) * sabs + Fraction(1, 64))
    return dict(cls="BILP", c=[str(v) for v in c], S=[[str(v) for v in r] for r in S], b=[str(v) for v in b],
                num=kind, A=A, B=B, wmode=wm)

def gen_gp(rng, big=False):
    base = gen_graph(rng, 8 if big else 6, 9 if big else 6)
    simple = rng.random() < 0.6
    if simple:      # simple graph on an even number of vertices, isolated vertices through self loops
        n = rng.choice([2, 4, 4, 6, 6, 8, 3, 5, 7] if big else [2, 4, 4, 6, 3, 5])   # odd: no balanced partition exists
        und = set()
        for _ in range(rng.randint(1, 2 * n)):
            u, v = rng.sample(range(n), 2)
            und.add((min(u, v), max(u, v)))
        base = [[u, v] if rng.random() < 0.5 else [v, u] for u, v in sorted(und)]
        base += [[q, q] for q in range(n) if not any(q in e for e in base)]
        rng.shuffle(base)
    seen, edges = set(), []
    for u, v in base:
        if (u, v) in seen:
            continue
        seen.add((u, v))
        edges.append([u, v])
    as_ = rng.choice(["set", "set", "dict"])
    kind = rng.choice(["int", "frac", "float"])
    wl = []
    for e in edges:
        if as_ == "set":
            w = "1"
        else:
            w = rng.choice(["1", "1", "1/2", "1/4", "3/4"] if simple else ["1", "1", "1/2", "1/4", "2", "3", "3/4"])
        wl.append(w)
    wm = weights_mode(rng)
    verts = {x for e in edges for x in e}
    deg = {}
    for e in edges:
        for q in e:
            deg[q] = deg.get(q, 0) + 1
    md = max(deg.values()) if deg else 0
    thr = Fraction(min(2 * md, len(verts)), 8)
    A, B = ab_weights(rng, wm, lambda B: B * thr, dyadic=True)
    if kind == "float" and A is not None and Fraction(A).denominator > 64:
        pass        # already dyadic; small enough for exact float arithmetic
    elif kind == "float" and A is not None:
        A, B = str(Fraction(math.ceil(Fraction(A) * 64) + 1, 64)), str(Fraction(math.ceil(Fraction(B) * 64), 64))
        if wm == "above" and Fraction(A) <= Fraction(B) * thr:
            A = str(Fraction(B) * thr + Fraction(1, 64))
    return dict(cls="GP", edges=[[u, v, w] for (u, v), w in zip(edges, wl)], **{"as": as_}, style=rng.choice(Labels.STYLES),
                num=kind, A=A, B=B, wmode=wm)

def gen_sc(rng, big=False):
    while True:
        n = rng.randint(1, 3)
        N = rng.randint(1, 4)
        U = list(range(n))
        V = [sorted(rng.sample(U, rng.randint(1, n))) for _ in range(N)]
        if rng.random() < 0.8:
            missing = set(U) - {a for v in V for a in v}
            if missing:
                V[rng.randrange(N)] = sorted(set(V[0]) | missing) if N == 1 else sorted(missing)
        r = rng.random()
        if r < 0.08:                    # an empty set (never useful, its variable must stay 0 in every optimum when B > 0)
            V.insert(rng.randrange(N + 1), [])
            N += 1
        elif r < 0.2:                   # the same set twice: ties between optimal covers
            V.insert(rng.randrange(N + 1), list(rng.choice(V)))
            N += 1
        elif r < 0.26:                  # one set is all of U: the optimum is a single set (several when weights tie)
            V[rng.randrange(N)] = list(U)
        elif r < 0.32:                  # outside the domain (a set with an element that is not in U): `covered == U`
            i = rng.randrange(N)        # rejects every choice containing it; correspondence only (Spec.indomain)
            V[i] = sorted(set(V[i]) | {n})
        log = rng.random() < 0.5
        cnt = max(sum(1 for v in V if a in v) for a in U)
        if cnt == 0:
            continue
        M = None
        if rng.random() < 0.2:
            M = cnt + rng.randint(0, 1)
        Me = M or cnt
        nb = N + n * ((int(math.log2(Me)) + 2) if log else Me)
        if nb <= (16 if big else 13):
            break
    w = None
    if rng.random() < 0.5:
        w = [rng.choice(["1", "1/2", "1/4", "3/4", "1"]) for _ in range(N)]
        w[rng.randrange(N)] = "1"
    wm = weights_mode(rng)
    A, B = ab_weights(rng, wm, lambda B: B)
    return dict(cls="SC", U=U, V=V, weights=w, log=log, M=M, style=rng.choice(Labels.STYLES), num="frac", A=A, B=B,
                wmode=wm)

def gen_js(rng, big=False):
    while True:
        m = rng.randint(1, 3)
        N = rng.randint(1, 3)
        lengths = [rng.randint(1, 3) for _ in range(N)]
        r = rng.random()
        if r < 0.15 and N >= 2:         # a zero-length job (must still be assigned exactly once)
            lengths[rng.randrange(N)] = 0
        elif r < 0.3:                   # equal lengths: ties between optimal schedules
            lengths = [lengths[0]] * N
        if max(lengths) == 0:
            lengths[0] = 1
        log = rng.random() < 0.5
        M = None
        if rng.random() < 0.15:
            M = sum(lengths) + rng.randint(0, 1)
        Me = M or N * max(lengths)
        if Me == 0:
            continue
        nb = m * N + (m - 1) * ((int(math.log2(Me)) + 1) if log else Me)
        if nb <= (16 if big else 12):
            break
    wm = weights_mode(rng)
    A, B = ab_weights(rng, wm, lambda B: B * max(lengths))
    return dict(cls="JS", lengths=lengths, **{"as": rng.choice(["list", "tuple", "dict"])}, m=m, log=log, M=M,
                style=rng.choice(Labels.STYLES), num="frac", A=A, B=B, wmode=wm)

def gen_sc_star(rng, big=False):
    """'star' systems: one element lies in every set, each set also has a private element, so every cover takes all k
    sets and covers the centre k times (k = M in {3, 5, 6, 7}: not a power of two); optional redundant extra sets,
    weights, user M, both log_trick values"""
    k = rng.choice([3, 3, 5, 6, 7] if big else [3, 3, 3, 5])
    U = list(range(k + 1))
    V = [[0, i + 1] for i in range(k)]
    r = rng.random()
    if r < 0.25:
        V.append([rng.randint(1, k)])                    # redundant singleton: optimal covers unchanged
    elif r < 0.4:
        V[rng.randrange(k)] = sorted(set(V[0]) | {rng.randint(1, k)})
    rng.shuffle(V)
    N = len(V)
    w = None
    if rng.random() < 0.5:
        w = [rng.choice(["1", "1/2", "1/4", "3/4"]) for _ in range(N)]
        w[rng.randrange(N)] = "1"
    cnt = max(sum(1 for v in V if a in v) for a in U)
    M = None if rng.random() < 0.8 else cnt + rng.randint(0, 1)
    wm = weights_mode(rng)
    A, B = ab_weights(rng, wm, lambda B: B)
    return dict(cls="SC", U=U, V=V, weights=w, log=rng.random() < 0.75, M=M, style=rng.choice(Labels.STYLES),
                num="frac", A=A, B=B, wmode=wm)

def gen_sc_zero(rng, big=False):
    """weighted SetCover with zero, equal and fractional weights.  At least one subset has weight exactly 0 (legal: only
    `max(weights) == 1` is required).  `needed`: the zero-weight subset is the only one containing some element, so every
    cover — in particular every optimal one — picks it; otherwise it is redundant and every optimal cover comes with and
    without it (ties: all_solutions must list both).  The other weights are all 1 (equal), or drawn from dyadic /
    non-dyadic fractions (non-dyadic only with explicit Fraction A, B: `to_quso` halves ints into floats)."""
    while True:
        n = rng.randint(2, 4 if big else 3)
        N = rng.randint(2, 5 if big else 4)
        U = list(range(n))
        V = [sorted(rng.sample(U, rng.randint(1, n))) for _ in range(N)]
        zi = rng.randrange(N)
        needed = rng.random() < 0.5
        if needed:
            a = rng.choice(V[zi])
            V = [v if i == zi else [b for b in v if b != a] for i, v in enumerate(V)]
        for b in sorted(set(U) - {x for v in V for x in v}):
            j = rng.randrange(N)
            V[j] = sorted(set(V[j]) | {b})
        log = rng.random() < 0.5
        cnt = max(sum(1 for v in V if x in v) for x in U)
        nb = N + n * ((int(math.log2(cnt)) + 2) if log else cnt)
        if nb <= (16 if big else 13):
            break
    wm = weights_mode(rng)
    A, B = ab_weights(rng, wm, lambda B: B)
    mode = rng.choice(["equal", "dyadic", "frac", "frac"])
    if wm == "default" and mode == "frac":
        mode = "dyadic"
    pool = {"equal": ["1"], "dyadic": ["1", "1/2", "1/4", "3/4", "1/2"], "frac": ["1", "1/2", "1/3", "2/5", "2/3", "1/3"]}[mode]
    w = [rng.choice(pool) for _ in range(N)]
    w[zi] = "0"
    if N >= 3 and rng.random() < 0.25:
        w[rng.choice([i for i in range(N) if i != zi])] = "0"
    nz = [i for i in range(N) if w[i] != "0"]
    w[rng.choice(nz)] = "1"
    kind = rng.choice(["frac", "int", "float"]) if (wm == "default" and mode != "frac") else "frac"
    return dict(cls="SC", U=U, V=V, weights=w, log=log, M=None, style=rng.choice(Labels.STYLES), num=kind, A=A, B=B,
                wmode=wm, zero=("needed" if needed else "redundant"))

def gen_js_wide(rng, big=False):
    """JobSequencing with 1, 3 or 4 workers (several slack registers, or none)"""
    while True:
        m = rng.choice([1, 3, 3, 4])
        N = rng.randint(1, 3 if m < 4 else 2)
        lengths = [rng.randint(1, 3) for _ in range(N)]
        log = rng.random() < 0.5
        M = None
        if rng.random() < 0.15:
            M = sum(lengths) + rng.randint(0, 1)
        Me = M or N * max(lengths)
        bits_ = (int(math.log2(Me)) + 1) if log else Me
        if m * N <= 10 and m * N + (bits_ if m > 1 else 0) <= 16:
            break
    wm = weights_mode(rng)
    A, B = ab_weights(rng, wm, lambda B: B * max(lengths))
    return dict(cls="JS", lengths=lengths, **{"as": rng.choice(["list", "tuple", "dict"])}, m=m, log=log, M=M,
                style=rng.choice(Labels.STYLES), num="frac", A=A, B=B, wmode=wm)

def gen_big(rng, big=False):
    """large-magnitude exact integers (10**9 … 10**15) where validity / cost is arithmetic on user data: number lists with
    nearly equal part sums (difference 1 or 2) and with a genuine perfect partition, job lengths, and SetCover weights
    that differ by 2**-30 / 2**-40.  Python ints / Fractions only; energies of these instances are enumerated with Python
    integers (`etype`).  A tolerant comparison (isclose / allclose) of two sums accepts an unequal split here."""
    k = rng.choice([9, 10, 12, 15])
    b = 10 ** k
    r = rng.random()
    wm = rng.choice(["default", "above", "just"])
    if r < 0.6:
        d1, d2 = rng.randint(1, 4), rng.randint(1, 4)
        S = rng.choice([
            [b, b + 1, 1],                      # perfect partition {b + 1} | {b, 1}; {b} | {b + 1, 1} is off by 2
            [b, b + 1],                         # no perfect partition: difference 1
            [2 * b, b, b - 1, 1],               # perfect: {2b} | {b, b - 1, 1}
            [b + d1, b + d2, d1, d2],           # perfect: {b + d1, d2} | {b + d2, d1}
            [b + d1, b, d1 + 1],                # off by one: {b + d1} | {b, d1 + 1}
            [b, b, b + 1, b + 1, 2],            # perfect needs 2 b + 2 = 2 b + 2 … {b, b, 2} | {b + 1, b + 1}
            [3 * b + 1, b, b, b],               # difference 1
        ])
        if rng.random() < 0.5:
            S = list(S); rng.shuffle(S)
        A = None if wm == "default" else rng.choice(["3", "1/7", "1/1000000"])
        return dict(cls="NP", S=[str(v) for v in S], container=rng.choice(["list", "tuple"]), num="int", A=A, B=None,
                    wmode=wm, big=True)
    if r < 0.85:
        m = rng.choice([1, 1, 2])
        lengths = rng.choice([[b, b + 1, 1], [b, b + 1], [b + 1, b, b], [2 * b, b, b - 1, 1] if m == 1 else [b, 1]])
        A, B = (None, None) if wm == "default" else (str(max(lengths) + rng.choice([1, 7])), "1") if wm == "above" \
            else (str(Fraction(max(lengths)) + Fraction(1, 1000)), "1")
        return dict(cls="JS", lengths=lengths, **{"as": rng.choice(["list", "tuple", "dict"])}, m=m, log=True, M=None,
                    style=rng.choice(Labels.STYLES), num="frac", A=A, B=B, wmode=wm, big=True)
    eps = Fraction(1, 2 ** rng.choice([30, 40]))     # dyadic: SetCover.to_quso mixes ints and Fractions into floats
    U = [0, 1]
    V = [[0], [1], [0, 1]]
    w = rng.choice([[Fraction(1, 2), Fraction(1, 2) - eps, 1],          # {V0, V1} beats V2 by eps
                    [Fraction(1, 2), Fraction(1, 2), 1],                # tie between V2 and {V0, V1}
                    [Fraction(1, 2) + eps, Fraction(1, 2), 1]])         # V2 beats {V0, V1} by eps
    A, B = (None, None) if wm == "default" else ("3/2", "1") if wm == "above" else (str(1 + eps), "1")
    return dict(cls="SC", U=U, V=V, weights=[str(x) for x in w], log=rng.random() < 0.5, M=None,
                style=rng.choice(Labels.STYLES), num="frac", A=A, B=B, wmode=wm, big=True)

def gen_gp_family(rng, fam):
    """GraphPartitioning outside the domain on which its documented threshold is valid (the two KNOWN FINDINGS):
    `gp-weighted` — simple graph, even N, positive edge weights with at least one > 1 (dict input: ints, 5/2, 3/2);
    `gp-bidir` — edge set with some edges given in both directions (unit weights).  Default A and A a hair above the
    documented threshold B*min(2*maxdegree, N)/8 (count-based degree, as the code computes it).  Same correspondence and
    same direct oracle as every other instance; a ground-state failure is reported under the family's own signature."""
    n = rng.choice([2, 2, 4, 4, 6])
    und = set()
    for _ in range(rng.randint(1, 2 * n)):
        u, v = rng.sample(range(n), 2)
        und.add((min(u, v), max(u, v)))
    und = sorted(und)
    if fam == "gp-weighted":
        ws = [rng.choice(["1", "2", "3", "10", "5/2", "3/2"]) for _ in und]
        if all(Fraction(w) <= 1 for w in ws):
            ws[rng.randrange(len(ws))] = rng.choice(["10", "3", "5/2"])
        edges = [[u, v, w] if rng.random() < 0.5 else [v, u, w] for (u, v), w in zip(und, ws)]
        as_ = "dict"
    else:
        edges = [[u, v, "1"] for u, v in und]
        back = [[v, u, "1"] for u, v in und if rng.random() < 0.7]
        if not back:
            back = [[und[0][1], und[0][0], "1"]]
        edges += back
        as_ = "set"
    edges += [[q, q, "1"] for q in range(n) if not any(q in e[:2] for e in edges)]
    rng.shuffle(edges)
    deg = {}
    for e in edges:
        for q in e[:2]:
            deg[q] = deg.get(q, 0) + 1
    thr = Fraction(min(2 * max(deg.values()), n), 8)
    if rng.random() < 0.5:
        A, B, wm = None, None, "default"
    else:
        B = Fraction(rng.choice([1, 1, 2, 1]), rng.choice([1, 1, 2]))
        A, B, wm = str(B * thr + Fraction(1, rng.choice([64, 1024]))), str(B), "just"
    return dict(cls="GP", edges=edges, **{"as": as_}, style=rng.choice(Labels.STYLES), num="frac", A=A, B=B, wmode=wm,
                family=fam)

GP_FAMILY_SIG = {"gp-weighted": "C10:gp-weighted-threshold", "gp-bidir": "C10:gp-bidir-threshold"}

TARGETED = dict(SC=gen_sc_star, JS=gen_js_wide)

GEN = dict(NP=gen_np, ASC=gen_asc, VC=gen_vc, BILP=gen_bilp, GP=gen_gp, SC=gen_sc, JS=gen_js)

FIXED = [
    dict(cls="GP", edges=[[0, 1, "1"]], **{"as": "set"}, style="int", num="int", A=None, B=None, wmode="default"),
    dict(cls="NP", S=["3"], container="list", num="int", A=None, B=None, wmode="default"),
    dict(cls="BILP", c=["0", "1"], S=[["0", "1"]], b=["1"], num="int", A=None, B=None, wmode="default"),
    dict(cls="ASC", n=1, len=3, min="1", max="10", pbc=False, num="int", A=None, B=None, wmode="default"),
    dict(cls="ASC", n=2, len=3, min="1", max="10", pbc=True, num="int", A=None, B=None, wmode="default"),
    dict(cls="ASC", n=1, len=2, min="1", max="2", pbc=True, num="int", A=None, B=None, wmode="default"),
    dict(cls="VC", edges=[[0, 0], [1, 2]], style="str", num="int", A=None, B=None, wmode="default"),
    dict(cls="NP", S=["1", "2", "3", "4"], container="tuple", num="int", A=None, B=None, wmode="default"),
    dict(cls="SC", U=[0, 1, 2], V=[[0, 1], [2], [1, 2]], weights=None, log=True, M=None, style="int", num="int",
         A=None, B=None, wmode="default"),
    dict(cls="SC", U=[0, 1, 2], V=[[0, 1], [2], [1, 2]], weights=["1", "1/2", "1"], log=False, M=None, style="str",
         num="frac", A="3/2", B="1", wmode="above"),
    dict(cls="JS", lengths=[1, 2], **{"as": "list"}, m=2, log=True, M=None, style="int", num="int", A=None, B=None,
         wmode="default"),
    dict(cls="JS", lengths=[2, 1, 2], **{"as": "dict"}, m=2, log=False, M=None, style="tuple", num="int", A="7/2",
         B="1", wmode="above"),
    dict(cls="SC", U=[0, 1, 2, 3], V=[[0, 1], [0, 2], [0, 3]], weights=None, log=True, M=None, style="int", num="int",
         A=None, B=None, wmode="default"),
    dict(cls="SC", U=[0, 1, 2, 3], V=[[0, 1], [0, 2], [0, 3]], weights=["1", "1/2", "1/4"], log=True, M=None,
         style="str", num="frac", A="3/2", B="1", wmode="above"),
    dict(cls="SC", U=[0, 1, 2, 3, 4, 5], V=[[0, 1], [0, 2], [0, 3], [0, 4], [0, 5]], weights=None, log=True, M=None,
         style="int", num="int", A="2", B="1", wmode="above"),
    dict(cls="JS", lengths=[2, 1], **{"as": "list"}, m=3, log=True, M=None, style="int", num="int", A=None, B=None,
         wmode="default"),
    dict(cls="JS", lengths=[1, 2], **{"as": "list"}, m=4, log=False, M=None, style="int", num="int", A="5/2", B="1",
         wmode="above"),
    dict(cls="JS", lengths=[3, 1, 2], **{"as": "tuple"}, m=1, log=True, M=None, style="int", num="int", A=None, B=None,
         wmode="default"),
    dict(cls="GP", edges=[[0, 1, "1"], [1, 2, "1"], [2, 3, "1"], [3, 0, "1"], [4, 4, "1"], [5, 5, "1"]],
         **{"as": "set"}, style="mixed", num="int", A="9/8", B="1", wmode="above"),
    # large magnitudes: part sums 10**10 and 10**10 + 2 (a relative difference of 2e-10), a perfect partition exists
    dict(cls="NP", S=[str(10 ** 10), str(10 ** 10 + 1), "1"], container="list", num="int", A=None, B=None,
         wmode="default", big=True),
    dict(cls="NP", S=[str(10 ** 15), str(10 ** 15 + 1)], container="tuple", num="int", A="1/7", B=None,
         wmode="above", big=True),
    dict(cls="NP", S=[str(2 * 10 ** 12), str(10 ** 12), str(10 ** 12 - 1), "1"], container="list", num="int", A=None,
         B=None, wmode="default", big=True),
    dict(cls="JS", lengths=[10 ** 12, 10 ** 12 + 1, 1], **{"as": "list"}, m=1, log=True, M=None, style="int", num="int",
         A=None, B=None, wmode="default", big=True),
    dict(cls="JS", lengths=[10 ** 9, 10 ** 9 + 1], **{"as": "dict"}, m=2, log=True, M=None, style="str", num="int",
         A=str(10 ** 9 + 2), B="1", wmode="above", big=True),
    dict(cls="SC", U=[0, 1], V=[[0], [1], [0, 1]], weights=["1/2", "549755813887/1099511627776", "1"], log=False,
         M=None, style="int", num="frac", A="3/2", B="1", wmode="above", big=True),
    # the two known findings of GraphPartitioning, minimal and larger instances (families gp-weighted / gp-bidir)
    dict(cls="GP", edges=[[0, 1, "10"]], **{"as": "dict"}, style="int", num="int", A=None, B=None, wmode="default",
         family="gp-weighted"),
    dict(cls="GP", edges=[[0, 1, "10"]], **{"as": "dict"}, style="int", num="int", A="1", B="1", wmode="above",
         family="gp-weighted"),
    dict(cls="GP", edges=[[0, 1, "3"], [1, 2, "1"], [2, 3, "1"], [0, 3, "1"]], **{"as": "dict"}, style="str", num="int",
         A=None, B=None, wmode="default", family="gp-weighted"),
    dict(cls="GP", edges=[[0, 1, "5/2"], [1, 2, "5/2"], [2, 3, "1"], [3, 0, "5/2"]], **{"as": "dict"}, style="int",
         num="frac", A="33/64", B="1", wmode="just", family="gp-weighted"),
    dict(cls="GP", edges=[[0, 1, "1"], [1, 0, "1"]], **{"as": "set"}, style="int", num="int", A=None, B=None,
         wmode="default", family="gp-bidir"),
    dict(cls="GP", edges=[[0, 1, "1"], [1, 0, "1"]], **{"as": "set"}, style="str", num="frac", A="5/16", B="1",
         wmode="above", family="gp-bidir"),
    dict(cls="GP", edges=[[0, 1, "1"], [0, 2, "1"], [1, 0, "1"], [1, 2, "1"], [2, 0, "1"], [3, 3, "1"]], **{"as": "set"},
         style="int", num="int", A=None, B=None, wmode="default", family="gp-bidir"),
    # zero / equal / fractional subset weights: the zero-weight subset is needed; is redundant; two optimal covers tie
    dict(cls="SC", U=[0, 1], V=[[0], [1]], weights=["1", "0"], log=True, M=None, style="int", num="int", A=None, B=None,
         wmode="default", zero="needed"),
    dict(cls="SC", U=[0, 1, 2], V=[[0, 1], [2], [1, 2]], weights=["1", "0", "1/2"], log=False, M=None, style="int",
         num="frac", A="3/2", B="1", wmode="above", zero="needed"),
    dict(cls="SC", U=[0, 1, 2], V=[[0], [1, 2], [0, 1], [2]], weights=["0", "1", "1", "0"], log=True, M=None,
         style="str", num="float", A=None, B=None, wmode="default", zero="needed"),
    dict(cls="SC", U=[0, 1, 2], V=[[0, 1, 2], [1], [0, 2]], weights=["1", "0", "1/3"], log=True, M=None, style="tuple",
         num="frac", A="7/5", B="1", wmode="above", zero="redundant"),
    # thresholds exactly met (weak sentence), and a zero-length job / a duplicated set / an odd vertex count
    dict(cls="SC", U=[0, 1, 2], V=[[0, 1], [2], [1, 2], [2]], weights=None, log=True, M=None, style="int", num="int",
         A="1", B="1", wmode="at"),
    dict(cls="JS", lengths=[2, 0, 1], **{"as": "list"}, m=2, log=False, M=None, style="int", num="int", A="2", B="1",
         wmode="at"),
    dict(cls="GP", edges=[[0, 1, "1"], [1, 2, "1"], [2, 3, "1"], [3, 0, "1"]], **{"as": "set"}, style="int", num="int",
         A="1/2", B="1", wmode="at"),
    dict(cls="GP", edges=[[0, 1, "1"], [1, 2, "1"], [2, 0, "1"]], **{"as": "set"}, style="str", num="int", A="2", B="1",
         wmode="above"),
]

# ------------------------------------------------------------------ building the real object

DEFAULT_A = dict(NP="1", VC="2", SC="2", ASC=None, BILP=None, GP=None, JS=None)

def build(case):
    from qubovert import problems as P
    t, k = case["cls"], case.get("num", "int")
    L = Labels(case.get("style", "int"))
    if t == "NP":
        S = [num(s, k) for s in case["S"]]
        return P.NumberPartitioning(tuple(S) if case["container"] == "tuple" else S), L
    if t == "ASC":
        return P.AlternatingSectorsChain(case["n"], case["len"], num(case["min"], k), num(case["max"], k)), L
    if t == "VC":
        return P.VertexCover({(L.lab(u), L.lab(v)) for u, v in case["edges"]}), L
    if t == "BILP":
        return P.BILP([num(s, k) for s in case["c"]], [[num(s, k) for s in r] for r in case["S"]],
                      [num(s, k) for s in case["b"]]), L
    if t == "GP":
        if case["as"] == "set":
            return P.GraphPartitioning({(L.lab(u), L.lab(v)) for u, v, _ in case["edges"]}), L
        return P.GraphPartitioning({(L.lab(u), L.lab(v)): num(w, k) for u, v, w in case["edges"]}), L
    if t == "SC":
        U = {L.lab(a) for a in case["U"]}
        V = [{L.lab(a) for a in v} for v in case["V"]]
        w = None if case["weights"] is None else [num(s, k) for s in case["weights"]]
        return P.SetCover(U, V, weights=w, log_trick=case["log"], M=case["M"]), L
    if t == "JS":
        if case["as"] == "dict":
            jl = {L.lab(i): v for i, v in enumerate(case["lengths"])}
        elif case["as"] == "tuple":
            jl = tuple(case["lengths"])
        else:
            jl = list(case["lengths"])
        return P.JobSequencing(jl, case["m"], log_trick=case["log"], M=case["M"]), L
    raise ValueError(t)

def kwargs_of(case):
    k = case.get("num", "int")
    kw = {}
    if case.get("A") is not None:
        kw["A"] = num(case["A"], k)
    if case.get("B") is not None:
        kw["B"] = num(case["B"], k)
    if case["cls"] == "ASC":
        kw = {"pbc": case["pbc"]}
    return kw

def job_ident(case, L, job):
    return L.ident(job) if case["as"] == "dict" else int(job)

# ------------------------------------------------------------------ solutions to try

def gen_sols(case, n, rng, tier):
    """solution containers as abstract items [(index, value)], with dict / flag / tuple markers"""
    sols = []
    full = n <= 7
    if full:
        asg = list(itertools.product((0, 1), repeat=n))
    else:
        asg = [tuple(rng.randint(0, 1) for _ in range(n)) for _ in range(40)]
        asg += [tuple([0] * n), tuple([1] * n)]
    for x in asg:
        sols.append(dict(items=[[i, str(v)] for i, v in enumerate(x)], dict=False, flag=False))
    extra = asg if n <= 4 else [rng.choice(asg) for _ in range(24)] + [tuple([1] * n), tuple([0] * n)]
    for x in extra:
        z = [1 - 2 * v for v in x]
        form = rng.randrange(4)
        vals = z if form % 2 == 0 else list(x)
        flag = rng.random() < 0.5
        if form < 2:
            sols.append(dict(items=[[i, str(v)] for i, v in enumerate(vals)], dict=False, flag=flag,
                             tuple=rng.random() < 0.5))
        else:
            items = [[i, str(v)] for i, v in enumerate(vals)]
            rng.shuffle(items)
            sols.append(dict(items=items, dict=True, flag=flag))
    # all-ones with both flags, too short containers
    for flag in (False, True):
        sols.append(dict(items=[[i, "1"] for i in range(n)], dict=False, flag=flag))
        sols.append(dict(items=[[i, "1"] for i in range(n)], dict=True, flag=flag))
    if n >= 1:
        sols.append(dict(items=[[i, "1"] for i in range(n - 1)], dict=False, flag=False))
        sols.append(dict(items=[[i, "0"] for i in range(n - 1)], dict=True, flag=False))
        sols.append(dict(items=[[i, "1"] for i in range(n + 1)], dict=False, flag=False))
    return sols

def realise(sol):
    vals = [int(v) for _, v in sol["items"]]
    if sol["dict"]:
        return {i: int(v) for i, v in sol["items"]}
    return tuple(vals) if sol.get("tuple") else vals

# ------------------------------------------------------------------ canonical decoded solutions

def canon_conv(case, L, r):
    t = case["cls"]
    if t == "NP":
        return [[fs(v) for v in r[0]], [fs(v) for v in r[1]]]
    if t in ("ASC", "BILP"):
        return [fs(v) for v in r]
    if t == "VC":
        return sorted(L.ident(v) for v in r)
    if t == "GP":
        return [sorted(L.ident(v) for v in r[0]), sorted(L.ident(v) for v in r[1])]
    if t == "SC":
        return sorted(int(i) for i in r)
    if t == "JS":
        return [sorted(job_ident(case, L, j) for j in w) for w in r]

def attempt(f):
    try:
        return f()
    except Exception as e:
        return {"err": exc_name(e)}

def set_order_of_matrix(Q):
    var = set()
    for x in Q:
        var.update(set(x))
    return [int(v) for v in var]

# ------------------------------------------------------------------ implementation side

def run_impl(case, prob, L, sols, do_brute):
    kw = kwargs_of(case)
    out = {"nvars": int(prob.num_binary_variables)}
    out["qubo"] = attempt(lambda: cterms(prob.to_qubo(**kw)))
    out["quso"] = attempt(lambda: cterms(prob.to_quso(**kw)))
    conv, valid = [], []
    for s in sols:
        conv.append(attempt(lambda: canon_conv(case, L, prob.convert_solution(realise(s), s["flag"]))))
        valid.append(attempt(lambda: bool(prob.is_solution_valid(realise(s), s["flag"]))))
    out["conv"], out["valid"] = conv, valid
    if do_brute:
        bkw = {} if case["cls"] in ("SC", "JS") else kw
        out["brute"] = attempt(lambda: [canon_conv(case, L, prob.solve_bruteforce(**bkw))])
        out["brute_all"] = attempt(lambda: [canon_conv(case, L, r) for r in prob.solve_bruteforce(all_solutions=True, **bkw)])
    else:
        out["brute"] = out["brute_all"] = None
    return out

def model_line(case, prob, L, sols, do_brute):
    t = case["cls"]
    A = case.get("A") if case.get("A") is not None else DEFAULT_A[t]
    B = case.get("B") if case.get("B") is not None else "1"
    line = {"op": "c10", "cls": t, "sols": [dict(items=s["items"], dict=s["dict"], flag=s["flag"]) for s in sols],
            "brute": do_brute}
    if t in ("NP", "VC", "SC"):
        line["A"], line["B"] = A, B
    elif t != "ASC":
        line["A"], line["B"] = A, B
    order = []
    if do_brute and t not in ("JS",):
        if t == "SC":
            order = set_order_of_matrix({(i,): 0 for i in range(len(case["V"]))})
        else:
            try:
                Qd = dict(prob.to_qubo(**kwargs_of(case)))
                for i in range(int(prob.num_binary_variables)):
                    Qd.setdefault((i,), 0)
                order = set_order_of_matrix(Qd)
            except Exception:
                order = []
    line["order"] = order
    line["fill"] = True
    line["exact_int"] = case.get("num") == "int"
    if t == "NP":
        line["S"] = [fs(v) for v in prob._S]
    elif t == "ASC":
        line.update(n=case["n"], len=case["len"], min=case["min"], max=case["max"], pbc=case["pbc"])
    elif t == "VC":
        line["edges"] = [[L.ident(u), L.ident(v)] for u, v in prob._edges]
    elif t == "BILP":
        line.update(c=case["c"], S=case["S"], b=case["b"])
    elif t == "GP":
        src = prob._problem_args[0]
        items = [(k, 1) for k in src] if isinstance(src, set) else list(src.items())
        line["input"] = [[L.ident(k[0]), L.ident(k[1]), fs(w)] for k, w in items]
        line["vorder"] = [L.ident(v) for v in prob._vertices]
    elif t == "SC":
        line.update(U=[L.ident(a) for a in prob._U], V=[sorted(L.ident(a) for a in v) for v in prob._V],
                    weights=None if case["weights"] is None else case["weights"], log=case["log"], M=case["M"])
    elif t == "JS":
        line.update(lengths=[[job_ident(case, L, j), fs(l)] for j, l in prob._lengths.items()], m=case["m"],
                    log=case["log"], M=case["M"])
    return line

def model_extra_checks(case, prob, L, m):
    """fields the model computes from the instance that the implementation stores"""
    bad = []
    t = case["cls"]
    if t == "GP":
        if m.get("degree") != prob.degree:
            bad.append("degree impl=%r model=%r" % (prob.degree, m.get("degree")))
        if sorted(L.ident(v) for v in prob._vertices) != m.get("vertices"):
            bad.append("vertex set")
        if prob._index_to_vertex != dict(enumerate(prob._vertices)):
            bad.append("index_to_vertex is not the enumeration of _vertices")
    if t in ("SC", "JS") and m.get("M") != prob.M:
        bad.append("M impl=%r model=%r" % (prob.M, m.get("M")))
    return bad

# ------------------------------------------------------------------ independent oracle

def int_terms(Q):
    fr = [(tuple(int(i) for i in k), F(v)) for k, v in Q.items()]
    den = 1
    for _, v in fr:
        den = den * v.denominator // math.gcd(den, v.denominator)
    return [(k, int(v * den)) for k, v in fr], den

_BITS = {}
def bits(n):
    if n not in _BITS:
        a = np.arange(1 << n, dtype=np.int64)
        _BITS[n] = np.stack([(a >> (n - 1 - i)) & 1 for i in range(n)], axis=1) if n else np.zeros((1, 0), dtype=np.int64)
    return _BITS[n]

def etype(terms):
    """int64 when every partial sum provably fits, else Python integers (dtype=object: exact, slower) — the
    large-magnitude instances (10**9 … 10**15, squared by the formulations) need the latter"""
    tot = sum(abs(v) for _, v in terms)
    return np.int64 if tot < (1 << 62) else object

def energies(Q, n, spin):
    """exact energies of a QUBO / QUSO dict on all 2^n assignments of labels 0..n-1 (row a = bits of a, big-endian);
    spin: bit 0 -> +1, bit 1 -> -1.  Returns (integer array, denominator)."""
    terms, den = int_terms(Q)
    dt = etype(terms)
    X = bits(n).astype(dt)
    Z = 1 - 2 * X if spin else X
    E = np.zeros(X.shape[0], dtype=dt)
    for k, v in terms:
        col = np.full(X.shape[0], v, dtype=dt)
        for i in k:
            col = col * Z[:, i]
        E += col
    return E, den

def energies_on(terms, labs, spin):
    """exact (integer) energies of the given terms on all assignments of the labels `labs` (first label = most
    significant bit)"""
    pos = {l: i for i, l in enumerate(labs)}
    dt = etype(terms)
    X = bits(len(labs)).astype(dt)
    Z = 1 - 2 * X if spin else X
    E = np.zeros(X.shape[0], dtype=dt)
    for k, v in terms:
        col = np.full(X.shape[0], v, dtype=dt)
        for i in k:
            col = col * Z[:, pos[i]]
        E += col
    return E

def separable_min(Q, ndec, groups, spin):
    """min over the slack registers, for every assignment of the decision labels 0..ndec-1, of a matrix in which no
    term couples two different registers (SetCover: one register per element; JobSequencing: one per worker >= 1):
    F(x) = base(x) + sum_g min_y E_g(x, y).  Returns (F as int64 array over the 2^ndec assignments, denominator),
    or None when the matrix is not of that shape."""
    terms, den = int_terms(Q)
    gof = {l: gi for gi, g in enumerate(groups) for l in g}
    base, per = [], [[] for _ in groups]
    for k, v in terms:
        try:
            gs = {gof[i] for i in k if i >= ndec}
        except KeyError:
            return None
        if len(gs) > 1:
            return None
        (per[gs.pop()] if gs else base).append((k, v))
    dec = list(range(ndec))
    F = energies_on(base, dec, spin)
    for g, tg in zip(groups, per):
        if ndec + len(g) > 17:
            return None
        E = energies_on(tg, dec + list(g), spin).reshape(1 << ndec, 1 << len(g))
        F = F + E.min(axis=1)
    return F, den

class Spec:
    """independent reading of one instance: decision variables, decoder, feasibility, cost"""
    def __init__(self, case, prob, L):
        self.case, self.L, t = case, L, case["cls"]
        k = case.get("num", "int")
        A = case.get("A"); B = case.get("B")
        self.B = Fraction(B) if B is not None else Fraction(1)
        self.A = Fraction(A) if A is not None else None
        if t == "NP":
            self.S = [Fraction(s) for s in case["S"]]
            self.ndec = len(self.S)
            self.A = self.A if self.A is not None else Fraction(1)
        elif t == "ASC":
            self.ndec = case["n"]
        elif t == "VC":
            from qubovert.utils import ordering_key
            labs = sorted({L.lab(x) for e in case["edges"] for x in e}, key=ordering_key)
            self.verts = [L.ident(v) for v in labs]
            assert self.verts == sorted(self.verts)
            self.ndec = len(self.verts)
        elif t == "BILP":
            self.c = [int(v) for v in case["c"]]; self.S = [[int(v) for v in r] for r in case["S"]]
            self.b = [int(v) for v in case["b"]]
            self.ndec = len(self.c)
        elif t == "GP":
            self.verts = sorted({x for e in case["edges"] for x in e[:2]})
            # the bijection index -> vertex is the implementation's choice (a set's order); it must be a bijection
            self.i2v = {i: L.ident(v) for i, v in prob._index_to_vertex.items()}
            self.ndec = len(self.verts)
            self.edges = [(u, v, Fraction(w) if case["as"] == "dict" else Fraction(1)) for u, v, w in case["edges"] if u != v]
        elif t == "SC":
            self.U = set(case["U"]); self.V = [set(v) for v in case["V"]]
            self.indomain = all(v <= self.U for v in self.V)      # a set system over U
            self.w = [Fraction(1)] * len(self.V) if case["weights"] is None else [Fraction(s) for s in case["weights"]]
            self.ndec = len(self.V)
        elif t == "JS":
            self.len = list(case["lengths"]); self.m = case["m"]
            self.ndec = self.m * len(self.len)

    def groups(self, n):
        """the slack registers by the documented label layout (SetCover: `_x`, JobSequencing: `_y`)"""
        t = self.case["cls"]
        if t == "SC":
            N, ne = len(self.V), len(self.U)
            nb = (n - N) // ne if ne else 0
            return [[N + a + ne * mm for mm in range(nb)] for a in range(ne)]
        if t == "JS":
            N, m = len(self.len), self.m
            if m <= 1:
                return []
            nb = (n - m * N) // (m - 1)
            return [[N * m + i * (m - 1) + w - 1 for i in range(nb)] for w in range(1, m)]
        return []

    def decode(self, x):
        """x: tuple of booleans of the first ndec labels -> canonical decoded solution"""
        t = self.case["cls"]
        if t == "NP":
            return [[fs(s) for s, v in zip(self.S, x) if v == 1], [fs(s) for s, v in zip(self.S, x) if v != 1]]
        if t == "ASC":
            return [fs(1 - 2 * v) for v in x]
        if t == "VC":
            return sorted(self.verts[i] for i, v in enumerate(x) if v)
        if t == "BILP":
            return [fs(v) for v in x]
        if t == "GP":
            return [sorted(self.i2v[i] for i, v in enumerate(x) if v == 1), sorted(self.i2v[i] for i, v in enumerate(x) if v != 1)]
        if t == "SC":
            return [i for i, v in enumerate(x) if v]
        if t == "JS":
            N = len(self.len)
            return [sorted(j for j in range(N) if x[j * self.m + w] == 1) for w in range(self.m)]

    def feasible(self, x):
        t = self.case["cls"]
        if t == "NP":
            return sum(s for s, v in zip(self.S, x) if v == 1) == sum(s for s, v in zip(self.S, x) if v != 1)
        if t == "ASC":
            return len(set(x)) <= 1
        if t == "VC":
            chosen = {self.verts[i] for i, v in enumerate(x) if v}
            return all(u in chosen or v in chosen for u, v in self.case["edges"])
        if t == "BILP":
            return all(sum(a * v for a, v in zip(row, x)) == bj for row, bj in zip(self.S, self.b))
        if t == "GP":
            return 2 * sum(x) == len(x)
        if t == "SC":
            cov = set()
            for i, v in enumerate(x):
                if v:
                    cov |= self.V[i]
            return cov == self.U
        if t == "JS":
            N = len(self.len)
            return all(sum(x[j * self.m + w] for w in range(self.m)) == 1 for j in range(N))

    def candidate(self, x):
        """admissible solutions of the optimisation problem: NumberPartitioning minimises the difference over all
        partitions (is_solution_valid = the difference is zero); everywhere else the feasible ones"""
        return True if self.case["cls"] == "NP" else self.feasible(x)

    def cost(self, x):
        t = self.case["cls"]
        if t == "NP":
            d = sum(s for s, v in zip(self.S, x) if v == 1) - sum(s for s, v in zip(self.S, x) if v != 1)
            return self.A * d * d
        if t == "VC":
            return self.B * sum(x)
        if t == "BILP":
            return self.B * sum(a * v for a, v in zip(self.c, x))
        if t == "GP":
            side = {self.i2v[i]: v for i, v in enumerate(x)}
            return self.B * sum(w for u, v, w in self.edges if side[u] != side[v])
        if t == "SC":
            return self.B * sum(w for w, v in zip(self.w, x) if v)
        if t == "JS":
            N = len(self.len)
            return self.B * max(sum(self.len[j] for j in range(N) if x[j * self.m + w]) for w in range(self.m))
        return None

    def simple_unit(self):
        """GraphPartitioning: no edge given in both directions, weights in (0, 1]"""
        und = [tuple(sorted((u, v))) for u, v, _ in self.edges]
        return len(set(und)) == len(und) and all(0 < w <= 1 for _, _, w in self.edges)

    def threshold_ok(self):
        """is (A, B) strictly above the documented threshold (None: the class has no weights)"""
        t = self.case["cls"]
        if t == "ASC":
            return Fraction(self.case["min"]) > 0 and Fraction(self.case["max"]) > 0
        if t == "NP":
            return self.A > 0
        if self.A is None or self.B <= 0:
            return False
        if t in ("VC", "SC"):
            if t == "SC" and not self.indomain:
                return False
            if t == "SC" and self.case["M"] is not None:
                cnt = max(sum(1 for v in self.V if a in v) for a in self.U)
                if self.case["M"] < cnt:
                    return False
            return self.A > self.B
        if t == "BILP":
            return self.A > self.B * sum(abs(v) for v in self.c)
        if t == "JS":
            if self.case["M"] is not None and self.case["M"] < sum(self.len):
                return False
            return self.A > self.B * max(self.len)
        if t == "GP":
            if not self.simple_unit() and not self.case.get("family"):
                return False        # proved domain: simple graphs with weights in (0, 1]; outside it only the two
                                    # known-finding families are held to the documented threshold
            deg = {}
            for u, v, _ in self.case["edges"]:
                for q in (u, v):
                    deg[q] = deg.get(q, 0) + 1
            md = max(deg.values()) if deg else 0
            return self.A > self.B * Fraction(min(2 * md, len(self.verts)), 8)

def threshold_at(sp):
    """the weight equals the documented threshold exactly (SetCover A = B, JobSequencing A = B max length,
    GraphPartitioning A = B min(2 maxdeg, N)/8 on simple graphs with weights in (0, 1]): the weak sentence — ground energy
    = optimal cost, some ground state decodes to a feasible optimal solution — is a theorem (sc_optimal_is_ground,
    js_optimal_is_ground, gp_optimal_is_ground) and is checked like the default-weight sentence"""
    t = sp.case["cls"]
    if sp.A is None or sp.B <= 0 or t not in ("SC", "JS", "GP"):
        return False
    if t == "SC":
        if not sp.indomain:
            return False
        if sp.case["M"] is not None and sp.case["M"] < max(sum(1 for v in sp.V if a in v) for a in sp.U):
            return False
        return sp.A == sp.B
    if t == "JS":
        if sp.case["M"] is not None and sp.case["M"] < sum(sp.len):
            return False
        return sp.A == sp.B * max(sp.len)
    if not sp.simple_unit():
        return False
    deg = {}
    for u, v, _ in sp.case["edges"]:
        for q in (u, v):
            deg[q] = deg.get(q, 0) + 1
    md = max(deg.values()) if deg else 0
    return sp.A == sp.B * Fraction(min(2 * md, len(sp.verts)), 8)

def default_weights_claimed(case):
    return case["cls"] in ("SC", "VC", "NP", "GP", "JS") and case.get("A") is None and case.get("B") is None and \
        not (case["cls"] in ("SC", "JS") and case.get("M") is not None)

def oracle(ctx, case, prob, L, sols, impl):
    """the property on the real objects; returns list of (signature, why)"""
    bad = []
    t = case["cls"]
    sp = Spec(case, prob, L)
    n = int(prob.num_binary_variables)
    kw = kwargs_of(case)
    # ---- num_binary_variables counts the labels of the formulation
    try:
        Q = prob.to_qubo(**kw); Ls = prob.to_quso(**kw)
    except Exception as e:
        return [("C10:%s:to_qubo-raises" % t, "to_qubo/to_quso raises %r" % (e,))]
    used = {int(i) for k in Q for i in k} | {int(i) for k in Ls for i in k}
    if used and (max(used) >= n or min(used) < 0):
        bad.append(("C10:%s:nbv" % t, "matrix label %d outside range(num_binary_variables=%d)" % (max(used), n)))
        return bad
    if t == "GP" and sorted(sp.i2v.values()) != sp.verts:
        bad.append(("C10:GP:convert", "index_to_vertex %r is not a bijection onto the vertices" % (sp.i2v,)))
        return bad
    # ---- convert_solution / is_solution_valid on the tried containers
    for s, cv, vd in zip(sols, impl["conv"], impl["valid"]):
        idx = sorted(i for i, _ in s["items"])
        if idx != list(range(n)):
            continue                        # too short / too long containers: correspondence only
        vals = dict((i, int(v)) for i, v in s["items"])
        raw = [vals[i] for i in range(n)]
        order_vals = [int(v) for _, v in s["items"]]
        # which form is it?  (the flag contract of is_solution_spin: first 0 -> boolean, first -1 -> spin, else flag)
        is_spin = (-1 in raw) or (0 not in raw and s["flag"])
        if t in ("NP", "GP"):
            # these two ignore the flag: a value 1 is side one, anything else side two
            x = tuple(1 if v == 1 else 0 for v in raw)
            want = sp.decode(x[:sp.ndec])
            if t == "NP":       # lists in the container's iteration order
                want = [[fs(sp.S[i]) for i, v in s["items"] if int(v) == 1], [fs(sp.S[i]) for i, v in s["items"] if int(v) != 1]]
            want_valid = sp.feasible(x[:sp.ndec])
        elif t == "ASC":
            z = raw if is_spin else [1 - 2 * v for v in raw]
            want = [fs(v) for v in z]
            want_valid = len(set(v == 1 for v in raw)) <= 1
        else:
            x = tuple((1 - v) // 2 for v in raw) if is_spin else tuple(raw)
            want = sp.decode(x[:sp.ndec])
            want_valid = sp.feasible(x[:sp.ndec])
        if cv != want:
            bad.append(("C10:%s:convert" % t, "convert_solution(%r, spin=%r) = %r, expected %r" % (realise(s), s["flag"], cv, want)))
            break
        if vd != want_valid:
            bad.append(("C10:%s:valid" % t, "is_solution_valid(%r, spin=%r) = %r but feasibility is %r" % (
                realise(s), s["flag"], vd, want_valid)))
            break
    # ---- is_solution_valid on converted solutions (all decision assignments when small)
    if sp.ndec <= 10:
        for x in itertools.product((0, 1), repeat=sp.ndec):
            full = list(x) + [0] * (n - sp.ndec)
            try:
                conv = prob.convert_solution(full)
                v1 = bool(prob.is_solution_valid(conv)); v2 = bool(prob.is_solution_valid(full))
            except Exception as e:
                bad.append(("C10:%s:valid" % t, "convert/is_solution_valid raises %r on %r" % (e, full))); break
            want = sp.feasible(x) if t != "ASC" else len(set(x)) <= 1
            if v1 != want or v2 != want:
                bad.append(("C10:%s:valid" % t, "is_solution_valid(%r)=%r, on its conversion %r; feasibility is %r" % (full, v2, v1, want)))
                break
    # ---- optimum by enumeration of the decision variables
    wide = n > 16       # SetCover / JobSequencing only: the slack registers are minimised one by one
    if bad or sp.ndec > 14 or (wide and t not in ("SC", "JS")):
        return bad
    feas = [x for x in itertools.product((0, 1), repeat=sp.ndec) if sp.candidate(x)]
    has_cost = t != "ASC"
    opt = min(sp.cost(x) for x in feas) if (feas and has_cost) else None
    above = sp.threshold_ok()
    default = (default_weights_claimed(case) and (t != "GP" or sp.simple_unit() or case.get("family"))
               and (t != "SC" or sp.indomain)) or threshold_at(sp)
    if feas and (above or default):
        for name, M, spin in (("to_qubo", Q, False), ("to_quso", Ls, True)):
            if spin and inexact_quso(case):
                continue
            if wide:
                r = separable_min(M, sp.ndec, sp.groups(n), spin)
                if r is None:
                    ctx.count("oracle:not-separable:%s" % t); continue
                Fx, den = r
                fmin = int(Fx.min())
                ground = Fraction(fmin, den)
                if ground != opt:
                    bad.append(("C10:%s:ground-%s" % (t, "above" if above else "default"),
                                "%s(%s): ground energy %s != optimal cost %s" % (name, kw, ground, opt)))
                    continue
                ok_any = False
                for g in np.nonzero(Fx == fmin)[0]:
                    x = tuple(int(b) for b in bits(sp.ndec)[g])
                    good = sp.candidate(x) and sp.cost(x) == opt
                    ok_any = ok_any or good
                    if above and not good:
                        bad.append(("C10:%s:ground-above" % t, "%s(%s): a ground state with decision variables %r decodes to %r which is %s" % (
                            name, kw, x, sp.decode(x), "infeasible" if not sp.feasible(x) else "not optimal")))
                        break
                if not above and not ok_any:
                    bad.append(("C10:%s:ground-default" % t, "%s(): no ground state decodes to a feasible optimal solution" % name))
                ctx.count("oracle:ground-separable:%s:%s" % (t, "above" if above else "default"))
                continue
            E, den = energies(M, n, spin)
            emin = int(E.min())
            if t in ("SC", "JS"):       # self-check of the register-wise minimisation used beyond 16 labels
                r = separable_min(M, sp.ndec, sp.groups(n), spin)
                if r is not None:
                    if Fraction(int(r[0].min()), r[1]) != Fraction(emin, den):
                        raise common.Infra("oracle self-check: register-wise minimum differs from full enumeration on %s" % json.dumps(case))
                    ctx.count("oracle:separable-selfcheck")
            gs = np.nonzero(E == emin)[0]
            ground = Fraction(emin, den)
            if t == "ASC":
                # positive strengths: the ground states are exactly the aligned states
                aligned = {0, (1 << n) - 1}
                if above and set(int(g) for g in gs) != aligned:
                    bad.append(("C10:ASC:ground-above", "%s ground states %r are not exactly the two aligned states" % (name, list(gs)[:8])))
                continue
            if ground != opt:
                bad.append(("C10:%s:ground-%s" % (t, "above" if above else "default"),
                            "%s(%s): ground energy %s != optimal cost %s" % (name, kw, ground, opt)))
                continue
            ok_any = False
            checked = 0
            for g in gs[:4096]:
                x = tuple(int(b) for b in bits(n)[g])
                good = sp.candidate(x[:sp.ndec]) and sp.cost(x[:sp.ndec]) == opt
                ok_any = ok_any or good
                if above and not good:
                    bad.append(("C10:%s:ground-above" % t, "%s(%s): ground state %r decodes to %r which is %s" % (
                        name, kw, x, sp.decode(x[:sp.ndec]), "infeasible" if not sp.feasible(x[:sp.ndec]) else "not optimal")))
                    break
                if good and checked < 4:
                    checked += 1
                    arg = [1 - 2 * b for b in x] if spin else list(x)
                    try:
                        cv = canon_conv(case, L, prob.convert_solution(arg, spin)); vd = bool(prob.is_solution_valid(arg, spin))
                    except Exception as e:
                        cv, vd = repr(e), None
                    exp = sp.decode(x[:sp.ndec])
                    if t in ("NP", "GP"):   # side one = the entries equal to 1, in either form
                        exp = sp.decode(tuple(1 if a == 1 else 0 for a in arg)[:sp.ndec])
                    if cv != exp or vd is not sp.feasible(x[:sp.ndec]):
                        bad.append(("C10:%s:convert" % t, "ground state %r (spin=%r): convert_solution=%r valid=%r, expected %r / True" % (
                            arg, spin, cv, vd, exp)))
                        break
            if len(gs) > 4096:
                ctx.count("oracle:ground-states-capped")
            if not above and not ok_any and len(gs) <= 4096:
                bad.append(("C10:%s:ground-default" % t, "%s(): no ground state decodes to a feasible optimal solution" % name))
            ctx.count("oracle:ground:%s:%s" % (t, "above" if above else "default"))
    # ---- solve_bruteforce returns an optimal feasible solution
    if feas and impl.get("brute") is not None and (above or default or t in ("SC", "JS")):
        absent = sorted(set(range(n)) - {int(i) for k in Q for i in k}) if t not in ("SC", "JS") else []
        for mode, res in (("one", impl["brute"]), ("all", impl["brute_all"])):
            why = None
            incomplete = False
            if isinstance(res, dict):
                incomplete = True
                why = "solve_bruteforce(%s) raises %s" % (mode, res["err"])
            else:
                feas_dec = {json.dumps(sp.decode(x)): x for x in feas}
                for r in res:
                    x = feas_dec.get(json.dumps(r))
                    if t == "ASC":
                        okr = len(r) == n and len(set(r)) <= 1
                    else:
                        okr = x is not None and sp.cost(x) == opt
                    if okr:
                        continue
                    # does the returned object assign every decision variable?  (sets of a cover cannot tell)
                    if t == "NP":
                        complete = len(r[0]) + len(r[1]) == n
                    elif t == "GP":
                        complete = sorted(r[0] + r[1]) == sp.verts
                    elif t in ("ASC", "BILP"):
                        complete = len(r) == n
                    else:
                        complete = True
                    if not complete:
                        incomplete = True
                    if (not complete) or above or t in ("SC", "JS"):
                        why = "solve_bruteforce(%s) returns %r, which is not an optimal feasible solution (optimal cost %s)" % (mode, r, opt)
                        break
                    # default weights, complete solution: a tie between a feasible and an infeasible ground state
                    # (the property's second sentence allows such ties); recorded, not reported
                    ctx.count("oracle:brute-default-tie:%s" % t)
            if why:
                if absent and incomplete:
                    bad.append((D7, "%s: to_qubo(%s) has no term with label(s) %r of its %d variables; %s" % (t, kw, absent, n, why)))
                else:
                    bad.append(("C10:%s:solve-bruteforce" % t, why))
                break
        ctx.count("oracle:brute:%s" % t)
    # ---- solve_bruteforce(all_solutions=True) lists every best solution exactly once
    res = impl.get("brute_all")
    if isinstance(res, list) and not any(sig.endswith(":solve-bruteforce") or sig == D7 for sig, _ in bad):
        want = None
        if t in ("SC", "JS"):
            # the class's own solver: every optimal feasible solution of the stated problem
            if feas:
                want = [sp.decode(x) for x in feas if sp.cost(x) == opt]
        elif n <= 16:
            # the inherited solver solves `to_qubo(...)`: the decoded form of every ground state over all n labels
            E, _ = energies(Q, n, False)
            want = [sp.decode(tuple(int(b) for b in bits(n)[g])[:sp.ndec]) for g in np.nonzero(E == E.min())[0]]
        if want is not None:
            key = (lambda r: json.dumps([sorted(r[0]), sorted(r[1])])) if t == "NP" else json.dumps
            got_l, want_l = sorted(key(r) for r in res), sorted(key(w) for w in want)
            ctx.count("oracle:brute-all:%s:%s" % (t, min(len(want_l), 5)))
            if got_l != want_l:
                absent = sorted(set(range(n)) - {int(i) for k in Q for i in k}) if t not in ("SC", "JS") else []
                bad.append((D7 if (absent and len(got_l) < len(want_l)) else "C10:%s:solve-bruteforce-all" % t,
                            "solve_bruteforce(all_solutions=True) returns %d solution(s) %s; the %s are %d: %s (each exactly once)" % (
                                len(got_l), got_l[:12], "optimal feasible solutions" if t in ("SC", "JS") else
                                "decoded ground states of to_qubo(%s) over all %d labels" % (kw, n), len(want_l), want_l[:12])))
    return bad

# ------------------------------------------------------------------ tolerance family (BILP)

def tolerance_cases(ctx):
    from qubovert.problems import BILP
    out = []
    for b in (100000, 250000, 10 ** 9, 10 ** 12, 10 ** 15):
        p = BILP([1], [[b + 1]], [b])
        v = bool(p.is_solution_valid([1]))
        ctx.count("tolerance:%s" % ("accepts" if v else "rejects"))
        c = dict(cls="tolerance", c=[1], S=[[b + 1]], b=[b], x=[1])
        ctx.case(c, False)
        if v:
            out.append((c, "BILP([1], [[%d]], [%d]).is_solution_valid([1]) is True although S x = %d != b = %d "
                           "(np.allclose with rtol 1e-5)" % (b + 1, b, b + 1, b)))
    # several rows / columns of large integers: exact integer oracle (Python ints), feasible and off-by-one points
    for b in (10 ** 9, 10 ** 12, 10 ** 15):
        S = [[b, 1, 0], [1, b + 1, 1]]
        for x, rhs in (([1, 1, 0], [b + 1, b + 2]), ([1, 1, 0], [b + 1, b + 3]), ([1, 0, 1], [b, 3]), ([1, 0, 1], [b, 2])):
            want = all(sum(a * v for a, v in zip(row, x)) == r for row, r in zip(S, rhs))
            got = bool(BILP([1, 1, 1], S, rhs).is_solution_valid(x))
            ctx.count("tolerance:rows:%s" % ("feasible" if want else "infeasible"))
            c = dict(cls="tolerance", c=[1, 1, 1], S=S, b=rhs, x=x)
            ctx.case(c, False)
            if got != want:
                out.append((c, "BILP([1,1,1], %r, %r).is_solution_valid(%r) is %r but S x == b is %r" % (S, rhs, x, got, want)))
    return out

# ------------------------------------------------------------------ driver of the check

def inexact_quso(case):
    """large-magnitude JobSequencing / SetCover instances: `to_quso` is `qubo_to_quso(to_qubo())`, whose `/ 2` and `/ 4`
    turn Python ints into floats — inexact above 2**53 by construction (ASSUMPTIONS: exact arithmetic only), so only
    `to_qubo` (exact integers) is compared and enumerated there.  NumberPartitioning builds `to_quso` directly (exact)."""
    return bool(case.get("big")) and case["cls"] == "JS"

def documented_nvars(c):
    """number of formulation variables by the documented layout, from the case alone (guards the model side against a
    register the implementation no longer allocates: the driver would build it)"""
    try:
        if c["cls"] == "JS":
            N, m = len(c["lengths"]), c["m"]
            M = c["M"] if c["M"] is not None else N * max(c["lengths"])
            return m * N + max(m - 1, 0) * ((int(math.log2(M)) + 1) if c["log"] else M)
        if c["cls"] == "SC":
            N, n = len(c["V"]), len(c["U"])
            M = c["M"] if c["M"] is not None else max(sum(1 for v in c["V"] if a in v) for a in c["U"])
            return N + n * ((int(math.log2(M)) + 2) if c["log"] else M)
    except (ValueError, TypeError):
        pass
    return 0

def nontrivial(case, impl):
    return impl["nvars"] >= 3 and isinstance(impl["qubo"], list) and len(impl["qubo"]) >= 3

def process(ctx, cases, dense=False):
    prepared = []
    for c in cases:
        try:
            prob, L = build(c)
        except Exception as e:
            # constructor errors: the model must predict them
            prepared.append((c, None, None, [], False, dict(init_err=exc_name(e))))
            continue
        n = int(prob.num_binary_variables)
        if max(n, documented_nvars(c)) > (64 if c["cls"] in ("SC", "JS") else 16):
            ctx.count("skipped:too-big"); continue
        import random
        srng = random.Random(json.dumps(c, sort_keys=True))
        sols = gen_sols(c, n, srng, ctx.tier)
        do_brute = n <= (12 if ctx.tier == "thorough" or dense else 10)
        if c["cls"] == "SC":        # the class's own solver enumerates the N set variables only
            do_brute = len(c["V"]) <= 10
        if c["cls"] == "JS":
            do_brute = c["m"] * len(c["lengths"]) <= 10
        prepared.append((c, prob, L, sols, do_brute, None))
    lines = []
    for c, prob, L, sols, do_brute, ie in prepared:
        if prob is None:
            lines.append(init_line(c))
        else:
            lines.append(model_line(c, prob, L, sols, do_brute))
    models = common.run_driver(lines)
    for (c, prob, L, sols, do_brute, ie), m, line in zip(prepared, models, lines):
        if "driver_error" in m:
            raise common.Infra("driver: %s on %s" % (m["driver_error"], json.dumps(line)[:300]))
        t = c["cls"]
        ctx.traces += 1
        if prob is None:
            ctx.case(c, False); ctx.count("init-error:%s:%s" % (t, ie["init_err"]))
            if m.get("init_err") != ie["init_err"]:
                ctx.diff(t + ":init", c, ie, m)
            continue
        impl = run_impl(c, prob, L, sols, do_brute)
        ctx.case(c, nontrivial(c, impl))
        ctx.count("%s:%s%s" % (t, c["wmode"], ":log" if c.get("log") else ""))
        if c.get("zero"):
            ctx.count("SC:zero-weight-subset:" + c["zero"])
        ctx.count("nvars:%02d" % impl["nvars"])
        ctx.count("sols", len(sols))
        if do_brute:
            ctx.count("brute:%s" % t)
        if "init_err" in m:
            ctx.diff(t + ":init", c, "constructed", m); continue
        extra = model_extra_checks(c, prob, L, m)
        for key in ("nvars", "qubo", "quso", "conv", "valid", "brute", "brute_all"):
            if key == "quso" and inexact_quso(c):
                ctx.count("quso-not-compared:float-division-of-large-ints"); continue
            if impl[key] != m.get(key):
                iv, mv = impl[key], m.get(key)
                if key in ("conv", "valid") and isinstance(iv, list) and isinstance(mv, list) and len(iv) == len(mv):
                    j = next(i for i in range(len(iv)) if iv[i] != mv[i])
                    iv, mv = dict(sol=sols[j], got=iv[j]), dict(sol=sols[j], got=mv[j])
                ctx.diff("%s:%s" % (t, key), c, iv, mv)
                break
        if extra:
            ctx.diff(t + ":instance", c, extra, None)
        found = oracle(ctx, c, prob, L, sols, impl)
        fam = c.get("family")
        if fam in GP_FAMILY_SIG:
            # the documented threshold fails on this family (known finding): ground-state failures — and the
            # solve_bruteforce failure that is their consequence (it solves that QUBO) — carry the family's signature;
            # anything else (convert / valid / nbv / a brute failure without a ground failure) keeps its own
            ground = any(sig.startswith("C10:GP:ground-") for sig, _ in found)
            found = [(GP_FAMILY_SIG[fam], "%s instance %s, A=%s B=%s: %s" % (fam, json.dumps(c["edges"]), c.get("A"), c.get("B"), why))
                     if sig.startswith("C10:GP:ground-") or (ground and sig == "C10:GP:solve-bruteforce") else (sig, why)
                     for sig, why in found]
            ctx.count("%s:%s" % (fam, "fails" if ground else "holds"))
        for sig, why in found:
            ctx.violation(sig, c, why)

def init_line(c):
    t = c["cls"]
    line = {"op": "c10", "cls": t, "sols": [], "brute": False, "order": []}
    if t == "NP":
        line.update(S=c["S"], A="1")
    elif t == "ASC":
        line.update(n=c["n"], len=c["len"], min=c["min"], max=c["max"], pbc=c["pbc"])
    elif t == "BILP":
        line.update(c=c["c"], S=c["S"], b=c["b"], A=None, B="1")
    elif t == "SC":
        line.update(U=c["U"], V=c["V"], weights=c["weights"], log=c["log"], M=c["M"], A="2", B="1")
    elif t == "JS":
        line.update(lengths=[[i, str(l)] for i, l in enumerate(c["lengths"])], m=c["m"], log=c["log"], M=c["M"], A=None, B="1")
    else:
        line.update(edges=[], input=[], vorder=[], A="2", B="1")
    return line

def malformed(rng):
    """constructor errors the model predicts"""
    r = rng.random()
    if r < 0.25:
        return dict(cls="NP", S=["1", "0", "2"], container="list", num="int", A=None, B=None, wmode="free")
    if r < 0.5:
        return dict(cls="ASC", n=rng.choice([0, 3]), len=rng.choice([1, 3]), min=rng.choice(["-1", "1"]), max="2",
                    pbc=False, num="int", A=None, B=None, wmode="free")
    if r < 0.65:
        return dict(cls="BILP", c=["1", "2"], S=[["1", "0", "1"]], b=["1"], num="int", A=None, B=None, wmode="free")
    if r < 0.8:     # JobSequencing: only zero-length jobs (M = 0: log2 domain error) / no job at all (max of nothing)
        return dict(cls="JS", lengths=rng.choice([[0], [0, 0], []]), **{"as": "list"}, m=rng.randint(1, 2), log=rng.random() < 0.5,
                    M=None, style="int", num="int", A=None, B=None, wmode="free")
    return dict(cls="SC", U=[0, 1], V=[[0], [1]], weights=rng.choice([["1/2", "1/2"], ["1"], ["1", "1/2"]]), log=True,
                M=None, style="int", num="frac", A=None, B=None, wmode="free")

def gen_all(ctx):
    rng = ctx.rng
    cases = [dict(c) for c in FIXED]
    per = ctx.scale(130, 1500)
    for t in ("NP", "ASC", "VC", "BILP", "GP", "SC", "JS"):
        cases += [GEN[t](rng) for _ in range(per)]
        cases += [GEN[t](rng, big=True) for _ in range(max(4, per // 12))]
        if t in TARGETED:
            cases += [TARGETED[t](rng, big=(i % 3 == 0)) for i in range(max(12, per // 5))]
    cases += [gen_big(rng) for _ in range(ctx.scale(24, 240))]
    cases += [gen_sc_zero(rng, big=(i % 4 == 0)) for i in range(ctx.scale(40, 400))]
    for fam in ("gp-weighted", "gp-bidir"):
        cases += [gen_gp_family(rng, fam) for _ in range(ctx.scale(12, 120))]
    cases += [malformed(rng) for _ in range(ctx.scale(30, 200))]
    return cases

def check(ctx):
    warnings.simplefilter("ignore")
    for c, why in tolerance_cases(ctx):
        ctx.violation(TOL, c, why)
    process(ctx, gen_all(ctx))
    if ctx.diffs and not ctx.violations:
        search(ctx)

def search(ctx):
    """failing-input search after a correspondence difference: the oracle on variants of the disagreeing cases
    (default / above-threshold / other weights, log_trick flipped, pbc flipped) and on a fresh denser batch"""
    extra = []
    for d in ctx.diffs[:40]:
        c = d["case"]
        if c.get("cls") not in GEN:
            continue
        for A, B, wm in ((None, None, "default"), ("9", "1", "above"), ("41/4", "1/2", "above"), ("33", "2", "above"),
                         ("1/5", "1/20", "above"), ("1/4", "1/100", "above"), ("3/100", "1/1000", "above"),
                         ("1000", "1/10", "above"), ("3/16", "1/16", "above"), ("1/4", "1/128", "above"),
                         ("3/128", "1/1024", "above"), ("1024", "1/8", "above")):
            if c["cls"] in ("GP", "BILP") and A is not None and any(
                    Fraction(v).denominator & (Fraction(v).denominator - 1) for v in (A, B)):
                continue    # GraphPartitioning, BILP: dyadic weights only (floats appear in the conversions)
            if c["cls"] == "ASC":
                A = B = None
            if c["cls"] == "NP":
                B = None
            v = dict(c, A=A, B=B, wmode=wm)
            if A is not None and c["cls"] in ("SC", "JS", "VC", "NP") and c.get("num") == "int":
                v["num"] = "frac"   # all coefficients Fractions: an int / 2 in qubo_to_quso would be a float
            extra.append(v)
            if "log" in c and not c.get("big"):
                extra.append(dict(v, log=not c["log"]))
            if "pbc" in c:
                extra.append(dict(v, pbc=not c["pbc"]))
    for t in GEN:
        extra += [GEN[t](ctx.rng) for _ in range(150)]
    for t in TARGETED:
        extra += [TARGETED[t](ctx.rng, big=(i % 2 == 0)) for i in range(120)]
    extra += [gen_sc_zero(ctx.rng, big=(i % 2 == 0)) for i in range(120)]
    process(ctx, extra, dense=True)

def replay(ctx, payload):
    warnings.simplefilter("ignore")
    c = payload.get("case") or (payload.get("first_difference") or {}).get("case")
    if not c:
        ctx.notes.append("replay file has no case; re-running the full check")
        return check(ctx)
    if c.get("cls") == "tolerance":
        for cc, why in tolerance_cases(ctx):
            ctx.violation(TOL, cc, why)
        return
    process(ctx, [c], dense=True)
