"""Model-coverage audit (DESIGN.md §2.5): do the theorems and the correspondence talk about the same model functions?

The property theorems are about functions of the hand-written Lean model; the model is tied to /repo (a) by the
correspondence — driver handlers run on the same inputs as the real code — and (b) by the generated-source tie.  Nothing in
Lean forces these to meet.  `audit(prop, …)` asks the compiled Lean environment (lean/Qv/TieAudit.lean):

  T = Qv.Model.* definitions reachable from the STATEMENTS of the theorems of Qv/Props/<prop>.lean
  D = Qv.Model.* definitions reachable from the handlers of the driver operations this run actually sent (common.OPS_USED)
  G = Qv.Model.* definitions reachable from the statements of this property's `*_eq_model` theorems
  D' = the same as D for the operations the checks of the other properties send (harness/driver_ops.json; every check
       verifies that it sends only what is declared for it)

and reports T − D − G − D' − allow: model functions a theorem is about that this run validated against the code in no way.
`lean/tie_audit_allow.json` lists, per property, the functions for which that is intended (pure specification vocabulary
with no code counterpart — e.g. the nondeterministic reduction specification, the mathematical evaluation of a polynomial —
each with its reason).  Anything else is a broken tie: the run reports it like a broken proof obligation.
"""
import json, os, re, subprocess
from . import common

ALLOW = os.path.join(common.LEAN, "tie_audit_allow.json")
DECLARED = os.path.join(common.ROOT, "harness", "driver_ops.json")


def _driver_modules():
    src = open(os.path.join(common.LEAN, "Driver.lean")).read()
    return re.findall(r"^import (Qv\.Driver\.\w+)", src, re.M)


def audit(prop, ops_used, tie_theorems, tie_modules):
    """-> dict(ok, problems, report)"""
    imports = ["Qv.TieAudit", "Qv.Props." + prop] + _driver_modules() + sorted(set(tie_modules))
    text = "".join("import %s\n" % m for m in imports) + "open Qv.TieAudit\n"
    text += "#eval allHandlerSides\n#eval theoremSide `Qv.Props.%s\n" % prop
    text += "#eval statementSide #[%s]\n" % ", ".join("`" + t for t in tie_theorems)
    # Qv.TieAudit and the driver modules were built by common.lean_audit of this run (one lake call)
    tmp = os.path.join(common.LEAN, ".lake", "tie_audit_%s_%d.lean" % (prop, os.getpid()))
    open(tmp, "w").write(text)
    lock = common._lake_lock()        # another check may be rebuilding a tie module from a redirected source tree
    try:
        r = subprocess.run(["lake", "env", "lean", tmp], cwd=common.LEAN, capture_output=True, text=True)
        if r.returncode != 0 and tie_modules:
            # a tie module is stale (e.g. rebuilt against a redirected tree by a concurrent run): rebuild, retry once
            subprocess.run(["lake", "build"] + sorted(set(tie_modules)), cwd=common.LEAN, capture_output=True, text=True)
            r = subprocess.run(["lake", "env", "lean", tmp], cwd=common.LEAN, capture_output=True, text=True)
    finally:
        os.unlink(tmp)
        lock.close()
    handlers, T, G, missing = {}, None, set(), []
    for line in r.stdout.splitlines():
        try:
            j = json.loads(line)
        except ValueError:
            continue
        if j.get("side") == "handler":
            handlers.setdefault(j["op"], set()).update(j["model_functions"])
        elif j.get("side") == "theorems":
            T, nthm = set(j["model_functions"]), j["theorems"]
        elif j.get("side") == "tie":
            G, missing = set(j["model_functions"]), j["missing"]
    if T is None:
        return dict(ok=False, problems=["tie audit: no report from Lean: " + (r.stdout + r.stderr)[-400:]], report={})
    allow = {}
    if os.path.exists(ALLOW):
        allow = json.load(open(ALLOW)).get(prop, {})
    used = sorted(o for o in ops_used if o and o != "ping")
    unknown_ops = [o for o in used if o not in handlers]
    D = set()
    for o in used:
        D |= handlers.get(o, set())
    # operations the checks of the OTHER properties send (declared in harness/driver_ops.json; each check verifies its own
    # declaration below): a function they reach is validated against the code by that property's check
    declared = json.load(open(DECLARED))
    undeclared = [o for o in used if o not in declared.get(prop, [])]
    D_other, via = set(), {}
    for q, qops in sorted(declared.items()):
        if q == prop:
            continue
        for o in qops:
            for f in handlers.get(o, set()):
                if f in T and f not in D and f not in G:
                    via.setdefault(f, q)
                D_other.add(f)
    uncovered = sorted(T - D - G - D_other - set(allow))
    stale_allow = sorted(a for a in allow if a not in T)
    problems = []
    if uncovered:
        problems.append("tie audit: theorems of Qv.Props.%s are about model functions that neither a driver operation used in "
                        "this run nor a generated-source theorem ties to the code: %s" % (prop, ", ".join(uncovered)))
    if undeclared:
        problems.append("tie audit: the harness of %s sent driver operations not declared in harness/driver_ops.json: %s" % (
            prop, ", ".join(undeclared)))
    if missing:
        problems.append("tie audit: generated-source theorems not found: %s" % ", ".join(missing))
    report = dict(theorem_model_functions=len(T), exercised_by_driver=len(T & D), tied_to_source=len(T & G),
                  exercised_by_other_checks={q: sorted(f for f, qq in via.items() if qq == q) for q in sorted(set(via.values()))},
                  specification_only={a: allow[a] for a in sorted(set(allow) & T)}, uncovered=uncovered, driver_ops_used=used,
                  driver_ops_declared_not_used=sorted(set(declared.get(prop, [])) - set(used)),
                  driver_ops_unknown_to_lean=unknown_ops, allow_entries_not_needed=stale_allow,
                  exercised_not_in_any_theorem=sorted(D - T)[:400],
                  note="T = model functions reachable from the theorem statements; a function counts as exercised when a driver "
                       "operation sent in this run reaches it, as tied when an *_eq_model theorem statement reaches it")
    return dict(ok=not problems, problems=problems, report=report)
