"""C03 — PCSO comparison constraints become exact non-negative penalties on spins (correspondence + oracle).

Families:
  tmpl   boolean shape templates that force every branch of the helper PCBO's decision tree (sum<=1, x<=y, OR form,
         z==x*y, non-negative with negative offset, always-true / never-true, one- and two-sided ranges), rewritten
         exactly as spin polynomials (x = (1-z)/2, so integer-VALUED with dyadic coefficients), x 6 relations x
         log_trick x 8 bounds modes, lam cycling through {1,2,1/2,3}
  rand   random integer-coefficient spin polynomials (n<=4, degree<=3, raw keys with unsorted / repeated labels)
  seq    sequences of 2..4 constraints on one PCSO (ancilla hand-off between the PCSO and its helper PCBOs)
  run    running-expression histories: ONE PUSO / PCSO object is kept by the harness, passed as H, then mutated in place
         (`expr -= 2`, `expr[k] += c`, `expr *= -1`) to build the next constraint, passed again, ... and mutated once
         more after the last call; the recorded constraints and is_solution_valid must keep the values H had at the
         time of each call (the model is pure: it records the value at call time)
  neutral  bookkeeping-neutral steps on the PCSO between the constraints of `seq` / `run` histories and after the last
         one: `refresh()`, `copy()` (the history continues on the copy), `H += 0`, a cancelling item edit
         (`H[k] += 5; H[k] -= 5`), `subs` of an unused symbol (continues on the result).  The pure model skips them:
         terms, recorded constraints, num_ancillas, is_solution_valid and the ancilla names of later constraints must be
         exactly as if the step had not happened
  lbl    the same abstract case under all four label realisations must give the same abstract result
  mag    extreme-magnitude weights: every template x relation, random calls and histories with lam a small multiple of one
         power-of-two scale per case (2^-60, 3*2^-70, 2^-55, 2^-100, 2^60, 3*2^70), as exact numbers and as floats (PCSO
         penalties are computed through floats inside the library; on one scale that arithmetic is exact); compared exactly

Every case is run on the real `qubovert.PCSO` and on the Lean model (`op: pcso_cons`); compared exactly after
every step: terms, `constraints`, `num_ancillas`, warnings, `is_solution_valid` on all spin assignments, and (observed
through `_pcso._empty_pcbo`) the helper PCBO's terms / counter / recorded constraints.

Direct oracle (from the property text only, no code shared with the model): the spin truth table of the added
function F (Walsh-Hadamard transform of the coefficient difference, exact integers): F >= 0 everywhere; min over the
ancilla spins = 0 exactly where H(z) R 0; >= lam elsewhere (only F >= 0 when warned unsatisfiable); F depends only on
H's spins and ancillas never used before; num_ancillas >= 1 + max ancilla index present; is_solution_valid = all
recorded relations hold.
"""
import sys, warnings
from fractions import Fraction
from math import gcd
from . import common
from .common import Labels, fs, exc_name, canon_terms, ANC

CEXT = "plain"
RULE = ("calls PCSO.add_constraint_R_zero(H, lam, log_trick, bounds, suppress_warnings) on one PCSO, 1..4 calls per case; "
        "H integer-valued on spins (integer coefficients, or the exact spin form of an integer boolean template), n<=4, "
        "degree<=3, given as dict / PUSO / PCSO or as ONE kept PUSO/PCSO object mutated in place between and after the calls "
        "(running-expression histories), bookkeeping-neutral steps on the PCSO between and after the calls (refresh, copy, "
        "+= 0, cancelling item edit, subs of an unused symbol; skipped by the pure model), 4 label realisations, int/Fraction or dyadic float coefficients; "
        "6 relations x log_trick x bounds modes {none, (None,None), exact, loose, left, right, fractional loose} "
        "(valid for the range of H) x lam in {1,2,1/2,3} (+ lam=0 rarely), family mag: lam a small multiple of one "
        "extreme power-of-two scale per case (2^-100 .. 3*2^70, exact and float); non-trivial = some step adds a penalty with "
        ">=2 terms; distinct = distinct case JSON")
ASSUMPTIONS = ["given bounds are valid enclosures of H's range over spin assignments (= the boolean image's range); "
               "lam > 0 (lam = 0 is compared with the model but not judged by the oracle)",
               "with suppress_warnings=True the library cannot warn; the oracle then treats a relation that holds at no "
               "spin assignment as 'warned unsatisfiable' (only F >= 0 required)",
               "truth tables are skipped (counted as oracle-skipped) when a single penalty has more than 16 variables"]

RELS = ["eq", "ne", "lt", "le", "gt", "ge"]
LAMS = ["1", "2", "1/2", "3"]
BMODES = ["none", "nonepair", "exact", "loose", "left", "right", "fracloose", "exact"]
ALL_TAGS = ["eq-special-and", "eq-always", "eq-unsat-pos", "eq-unsat-neg", "eq-min0", "eq-max0", "eq-square",
            "le-special-sum1", "le-special-unary", "le-special-or", "le-special-xley", "le-unsat", "le-always",
            "le-noslack", "le-logslack", "le-unaryslack", "lt-unsat", "lt-always", "lt-shift",
            "ne-unsat", "ne-always-pos", "ne-always-neg", "ne-gt", "ne-lt", "ne-twosided"]

# ------------------------------------------------------------------ polynomials of the generator

def F_(s):
    return Fraction(s)

def spin_of_bool(P):
    """exact spin form of a boolean polynomial {tuple(ids): Fraction} under x = (1 - z)/2"""
    out = {}
    for k, v in P.items():
        k = sorted(set(k))
        for mask in range(1 << len(k)):
            sub = tuple(k[i] for i in range(len(k)) if mask >> i & 1)
            c = Fraction(v) * (-1) ** len(sub) / (1 << len(k))
            out[sub] = out.get(sub, 0) + c
    return {k: v for k, v in out.items() if v != 0}

def items_of(d):
    return [[list(k), fs(v)] for k, v in d.items()]

def hval(items, z):
    """value of the raw items at the spin assignment z (list over ids): a repeated label multiplies twice"""
    tot = Fraction(0)
    for k, v in items:
        m = Fraction(v)
        for i in k:
            m *= z[i]
        tot += m
    return tot

def spins(n):
    for b in range(1 << n):
        yield b, [(-1 if b >> i & 1 else 1) for i in range(n)]

def h_range(items, n):
    vals = [hval(items, z) for _, z in spins(n)]
    return min(vals), max(vals)

def bool_image_bounds(items):
    """coefficient bounds of the boolean image (only used to keep unary slack small in the generator)"""
    P = {}
    for k, v in items:
        odd = sorted(i for i in set(k) if k.count(i) % 2 == 1)
        for mask in range(1 << len(odd)):
            sub = tuple(odd[i] for i in range(len(odd)) if mask >> i & 1)
            P[sub] = P.get(sub, 0) + Fraction(v) * (-2) ** len(sub)
    lo = sum(v for k, v in P.items() if k == () or v < 0)
    hi = sum(v for k, v in P.items() if k == () or v > 0)
    return lo, hi

def rel_holds(rel, v):
    return {"eq": v == 0, "ne": v != 0, "lt": v < 0, "le": v <= 0, "gt": v > 0, "ge": v >= 0}[rel]

BOOL_TEMPLATES = [
    ("sum1-2", {(0,): 1, (1,): 1, (): -1}),
    ("sum1-3", {(0,): 1, (1,): 1, (2,): 1, (): -1}),
    ("sum1-m", {(0, 1): 1, (2,): 1, (): -1}),
    ("xley", {(0,): 1, (1,): -1}),
    ("xley-m", {(0, 1): 1, (2,): -1}),
    ("xley-r", {(2,): -1, (0, 1): 1}),
    ("or", {(): 1, (0,): -1, (1,): -1}),
    ("or-m", {(): 1, (0, 1): -1, (2,): -1}),
    ("and1", {(0,): 1, (1, 2): -1}),
    ("and2", {(1, 2): 2, (0,): -2}),
    ("and-3", {(0,): -3, (1, 2): 3}),
    ("nonneg-off", {(0,): 1, (1,): 2, (2,): 1, (): -2}),
    ("nonneg-off1", {(0,): 2, (1,): 1, (): -1}),
    ("nonneg-off-m", {(0, 1): 1, (2,): 1, (1,): 1, (): -2}),
    ("min0", {(0,): 1, (1,): 1}),
    ("min0-m", {(0, 1): 2, (2,): 1}),
    ("max0", {(0,): -1, (1, 2): -1}),
    ("pos", {(0,): 1, (1,): 1, (): 1}),
    ("neg", {(0,): -1, (): -1}),
    ("const0", {}),
    ("const2", {(): 2}),
    ("constm1", {(): -1}),
    ("two-sided", {(0,): 1, (1,): -1, (2,): 1, (): -1}),
    ("two-sided2", {(0,): 2, (1,): -3, (): 1}),
    ("two-sided-m", {(0, 1): 2, (1, 2): -1, (0,): -1}),
    ("single", {(0,): 1}),
    ("single-neg", {(0,): -1}),
]
SPIN_TEMPLATES = [
    ("z-sum", {(0,): 1, (1,): 1}),
    ("z-prod", {(0, 1): 1, (2,): 1}),
    ("z-off", {(0,): 1, (1,): 1, (): 2}),
    ("z-offneg", {(0,): 1, (0, 1): -1, (): -2}),
    ("z-raw", {(1, 0): 1, (0, 0, 1): 2, (2, 2): 1}),
    ("z-deg3", {(0, 1, 2): 1, (): -1}),
    ("z-one", {(0,): 2}),
    ("z-cancel", {(0, 1): 1, (1, 0): -1}),
    ("z-square", {(0, 0): 1, (): -1}),
    ("z-square2", {(0, 1, 0, 1): 2, (): -2}),
]

def make_bounds(rng, mode, lo, hi):
    if mode in ("none", "nonepair"):
        return None, None
    if mode == "exact":
        return lo, hi
    if mode == "loose":
        a, b = rng.choice([(1, 0), (0, 1), (1, 1), (2, 1), (1, 3)])
        return lo - a, hi + b
    if mode == "left":
        return lo - rng.choice([0, 1, 2]), None
    if mode == "right":
        return None, hi + rng.choice([0, 1, 2])
    a, b = rng.choice([(Fraction(1, 2), Fraction(3, 2)), (Fraction(1, 4), Fraction(1, 2)), (Fraction(5, 2), 0),
                       (0, Fraction(1, 2))])
    return lo - a, hi + b

def make_step(rng, items, n, rel, lt, mode, lam, sup=False, hkind="dict", coef="exact"):
    lo, hi = h_range(items, n)
    blo, bhi = make_bounds(rng, mode, lo, hi)
    if not lt:
        # unary slack: one ancilla per unit of range; keep it small
        clo, chi = bool_image_bounds(items)
        elo = blo if blo is not None else clo
        ehi = bhi if bhi is not None else chi
        if max(-elo, ehi) > 6 or (rel == "ne" and ehi - elo > 7):
            lt = True
    return {"rel": rel, "H": items, "lam": lam, "lt": lt, "lo": None if blo is None else fs(blo),
            "hi": None if bhi is None else fs(bhi), "pair": mode == "nonepair", "sup": sup, "hkind": hkind, "coef": coef}

def case_n(seq):
    acc = set()
    for st in seq:
        for k, _ in st["H"]:
            acc.update(k)
    return (max(acc) + 1) if acc else 0

def mk_case(family, seq, style, name=None):
    c = {"family": family, "labels": style, "seq": seq, "n": case_n(seq)}
    if name:
        c["tmpl"] = name
    return c

def tmpl_cases(rng, all_lams):
    out, idx = [], 0
    tmpls = [(nm, items_of(spin_of_bool(P))) for nm, P in BOOL_TEMPLATES] + [(nm, items_of(H)) for nm, H in SPIN_TEMPLATES]
    for nm, items in tmpls:
        n = case_n([{"H": items}])
        for rel in RELS:
            for lt in (True, False):
                if rel == "eq" and not lt:
                    continue
                for mode in BMODES[:7]:
                    for lam in (LAMS if all_lams else [LAMS[idx % 4]]):
                        st = make_step(rng, items, n, rel, lt, mode, lam, sup=(idx % 11 == 5),
                                       hkind=["dict", "PUSO", "dict", "PCSO"][idx % 4],
                                       coef="float" if idx % 7 == 3 else "exact")
                        out.append(mk_case("tmpl", [st], Labels.STYLES[idx % 4], nm))
                        idx += 1
    return out

def rand_items(rng, n):
    d = {}
    small = rng.random() < 0.4
    for _ in range(rng.choice([1, 2, 2, 3, 3, 4])):
        ln = rng.choice([0, 1, 1, 1, 2, 2, 3])
        key = tuple(rng.sample(range(n), min(ln, n)))
        if rng.random() < 0.15 and n >= 1:
            key = key + (rng.randrange(n),)          # possibly a repeated label
        if rng.random() < 0.5:
            key = tuple(sorted(key))
        c = rng.choice([-1, 1]) if small else rng.choice([-3, -2, -1, -1, 1, 1, 2, 3])
        if key in d:
            continue
        d[key] = c
    return items_of(d)

def rand_step(rng, n):
    r = rng.random()
    if r < 0.25:
        nm, P = rng.choice(BOOL_TEMPLATES)
        items = items_of(spin_of_bool(P))
        if case_n([{"H": items}]) > n:
            items = rand_items(rng, n)
    else:
        items = rand_items(rng, n)
    rel = rng.choice(RELS)
    lt = rng.random() < 0.7
    lam = rng.choice(LAMS + LAMS + LAMS + (["0"] if rng.random() < 0.1 else []))
    return make_step(rng, items, n, rel, lt, rng.choice(BMODES), lam, sup=rng.random() < 0.1,
                     hkind=rng.choice(["dict", "dict", "PUSO", "PCSO"]), coef="float" if rng.random() < 0.15 else "exact")

def rand_case(rng, steps=1):
    n = rng.choice([1, 2, 3, 3, 4])
    seq = [rand_step(rng, n) for _ in range(steps)]
    c = mk_case("rand" if steps == 1 else "seq", seq, rng.choice(Labels.STYLES_X))
    return add_neutral(rng, c) if steps > 1 else c

NEUTRAL = ["refresh", "copy", "iadd0", "cancel", "subs"]

def add_neutral(rng, case, p_step=0.5, p_tail=0.5):
    """sprinkle bookkeeping-neutral steps before the calls (`pre`) and after the last one (`tail`)"""
    for i, st in enumerate(case["seq"]):
        if rng.random() < (p_step if i else 0.15):
            st["pre"] = [rng.choice(NEUTRAL) for _ in range(rng.choice([1, 1, 2]))]
    if rng.random() < p_tail:
        case["tail"] = [rng.choice(NEUTRAL) for _ in range(rng.choice([1, 1, 2]))]
    return case

def fixed_neutral_cases():
    """constraint with ancillas; neutral step; every relation again; neutral step"""
    rng = __import__("random").Random(11)
    H1 = items_of({(0,): 1, (1,): 1, (0, 1): -2})
    H2 = items_of({(0,): 1, (1,): -1, (): 1})
    out, idx = [], 0
    for op in NEUTRAL:
        for rel in RELS:
            for first in ("le", "ne"):
                seq = [make_step(rng, H1, 2, first, True, "none", "1"),
                       dict(make_step(rng, H2, 2, rel, True, "none", LAMS[idx % 4]), pre=[op])]
                c = mk_case("seq", seq, Labels.STYLES[idx % 4]); idx += 1
                c["tail"] = [op]
                out.append(c)
    return out

def canon_items(items):
    """generator-side canonical form {sorted odd-multiplicity ids: Fraction} of raw spin items"""
    d = {}
    for k, v in items:
        key = tuple(sorted(i for i in set(k) if k.count(i) % 2 == 1))
        d[key] = d.get(key, 0) + Fraction(v)
    return {k: v for k, v in d.items() if v != 0}

def next_target(rng, prev, n):
    """the next value of the running expression: a constant shift (`expr -= 2`), a sign flip (`expr *= -1`), a few
    changed terms, the same value again (object shared by two constraints), or something unrelated"""
    r = rng.random()
    d = dict(canon_items(prev))
    if r < 0.35:
        d[()] = d.get((), 0) + rng.choice([-2, -1, 1, 2])
    elif r < 0.45:
        d = {k: -v for k, v in d.items()}
    elif r < 0.7:
        for _ in range(rng.choice([1, 1, 2])):
            ln = rng.choice([1, 1, 2])
            key = tuple(sorted(rng.sample(range(n), min(ln, n))))
            d[key] = d.get(key, 0) + rng.choice([-2, -1, 1, 1, 2])
    elif r < 0.8:
        pass
    else:
        return rand_items(rng, n)
    return items_of({k: v for k, v in d.items() if v != 0})

def run_case(rng, steps):
    n = rng.choice([2, 3, 3, 4])
    obj = rng.choice(["PUSO", "PCSO", "PCSO"])
    seq, items = [], None
    for _ in range(steps):
        if items is None:
            items = rand_items(rng, n) if rng.random() < 0.6 else items_of({(i,): 1 for i in range(n)})
        else:
            items = next_target(rng, items, n)
        rel = rng.choice(RELS)
        lam = rng.choice(LAMS + (["0"] if rng.random() < 0.05 else []))
        st = make_step(rng, items, n, rel, rng.random() < 0.8, rng.choice(BMODES), lam, sup=rng.random() < 0.1,
                       hkind="expr")
        seq.append(st)
    c = mk_case("run", seq, rng.choice(Labels.STYLES_X))
    c["n"] = max(c["n"], n)
    c["running"] = obj
    c["post"] = items_of(canon_items(next_target(rng, items, n) + [[[], rng.choice(["-2", "3"])]]))
    return add_neutral(rng, c)

def fixed_run_cases():
    """the documented style: expr = z0 + z1 + z2; add(expr >= 0); expr -= 2; add(expr <= 0); ..."""
    out = []
    base = {(0,): 1, (1,): 1, (2,): 1}
    shifted = dict(base); shifted[()] = -2
    prod = {(0, 1): 1, (2,): 1}
    prod1 = dict(prod); prod1[()] = 1
    T = [[("ge", base), ("le", shifted)], [("ne", prod), ("lt", prod1)], [("eq", base), ("eq", base), ("gt", shifted)],
         [("le", shifted), ("ge", base), ("ne", {(0,): 1, (1,): -1})]]
    rng = __import__("random").Random(7)
    idx = 0
    for hist in T:
        for obj in ("PUSO", "PCSO"):
            for lam in ("1", "2"):
                seq = [make_step(rng, items_of(H), 3, rel, True, "none", lam, hkind="expr") for rel, H in hist]
                c = mk_case("run", seq, Labels.STYLES[idx % 4]); idx += 1
                c["running"] = obj
                c["post"] = items_of({(0,): 1, (): 5})
                out.append(c)
    return out

# ------------------------------------------------------------------ implementation side

def num_of(s, coef):
    if s is None:
        return None
    f = Fraction(s)
    if coef == "float":
        return float(f)
    return int(f) if f.denominator == 1 else f

def build_H(st, L):
    import qubovert as qv
    d = {}
    for k, v in st["H"]:
        d[L.key(k)] = num_of(v, st["coef"])
    if st["hkind"] == "PUSO":
        return qv.PUSO(d)
    if st["hkind"] == "PCSO":
        H = qv.PCSO(d)
        with warnings.catch_warnings():
            warnings.simplefilter("ignore")
            H.add_constraint_le_zero(dict(d))       # its own constraints / ancillas must not leak into the target
        H2 = qv.PCSO(d)
        H2._constraints = H._constraints
        H2._ancilla = H._ancilla
        return H2
    return d

def morph(expr, items, coef, L):
    """turn the kept object into the polynomial `items` by IN-PLACE operations only (`expr += c`, `expr -= c`,
    `expr *= -1`, `expr[k] += delta`); returns the list of operations performed"""
    tgt = {frozenset(L.key(k)): v for k, v in canon_items(items).items()}
    keyof = {frozenset(k): k for k in expr}
    cur = {frozenset(k): Fraction(v) for k, v in expr.items()}
    ops = []
    if cur and all(tgt.get(k, 0) == -v for k, v in cur.items()) and set(tgt) == set(cur):
        expr *= -1
        return ["imul -1"]
    for fsk in sorted(set(tgt) | set(cur), key=lambda f: (len(f), sorted(map(str, f)))):
        delta = tgt.get(fsk, 0) - cur.get(fsk, 0)
        if delta == 0:
            continue
        dv = num_of(fs(delta), coef)
        if not fsk:
            if delta < 0:
                expr -= -dv
                ops.append("isub %s" % -delta)
            else:
                expr += dv
                ops.append("iadd %s" % delta)
        else:
            key = keyof.get(fsk)
            if key is None:
                ids = sorted(L.ident(x) for x in fsk)
                key = L.key(ids)
            expr[key] += dv
            ops.append("item %s" % delta)
    return ops

def apply_neutral(H, op, L, n):
    """a step that must not change what the PCSO is: returns the object the history continues on"""
    if op == "refresh":
        H.refresh()
    elif op == "copy":
        H = H.copy()
    elif op == "iadd0":
        H += 0
    elif op == "cancel":
        key = (L.lab(0),) if n else ()
        H[key] += 5
        H[key] -= 5
    elif op == "subs":
        import sympy
        H = H.subs(sympy.Symbol("unused_symbol_q"), 3)
    else:
        raise ValueError(op)
    return H

def observe(H, L, n):
    valid = [bool(H.is_solution_valid({L.lab(i): v for i, v in enumerate(z)})) for _, z in spins(n)]
    present = [L.ident(x) - ANC for k in H for x in k if isinstance(x, str) and x.startswith("__a")]
    return {"valid": valid, "L": L, "anc": H.num_ancillas, "present": present, "type": type(H).__name__,
            "rec": {rel: [dict(P) for P in lst] for rel, lst in H.constraints.items()}}

def terms_ids(d, L):
    """{frozenset(ids): Fraction} of a model's terms"""
    out = {}
    for k, v in d.items():
        out[frozenset(L.ids(k))] = Fraction(v)
    return out

def run_impl(case, style=None):
    """the case on the real PCSO: per-step canonical states (for the correspondence) and raw facts (for the oracle)"""
    import qubovert as qv
    pcmod = sys.modules["qubovert._pcso"]
    L = Labels(style or case["labels"])
    n = case["n"]
    H = qv.PCSO()
    outs, facts, warns = [], [], []
    captured = []
    running = None
    orig = pcmod._empty_pcbo

    def spy(pcso):
        h = orig(pcso)
        captured.append(h)
        return h
    pcmod._empty_pcbo = spy
    try:
        for st in case["seq"]:
            mid = None
            if st.get("pre"):
                try:
                    for op in st["pre"]:
                        H = apply_neutral(H, op, L, n)
                    mid = observe(H, L, n)
                except Exception as e:
                    outs.append({"err": exc_name(e)})
                    facts.append({"err": "%s in bookkeeping-neutral step %s: %s" % (exc_name(e), st["pre"], str(e)[:200])})
                    continue
            before = terms_ids(H, L)
            anc_before = H.num_ancillas
            kw = {"lam": num_of(st["lam"], st["coef"]), "suppress_warnings": st["sup"]}
            if st["rel"] != "eq":
                kw["log_trick"] = st["lt"]
            if st["pair"]:
                kw["bounds"] = (None, None)
            elif st["lo"] is not None or st["hi"] is not None:
                kw["bounds"] = (num_of(st["lo"], st["coef"]), num_of(st["hi"], st["coef"]))
            step_warns = []
            try:
                if st["hkind"] == "expr":
                    if running is None:
                        running = getattr(qv, case["running"])()
                    morph(running, st["H"], st["coef"], L)
                    want = {frozenset(L.key(k)): v for k, v in canon_items(st["H"]).items()}
                    got = {frozenset(k): Fraction(v) for k, v in running.items()}
                    if want != got:
                        raise common.Infra("running expression could not be brought to %r by in-place edits: %r" % (
                            st["H"], dict(running)))
                    arg = running
                else:
                    arg = build_H(st, L)
                del captured[:]
                with warnings.catch_warnings(record=True) as w:
                    warnings.simplefilter("always")
                    r = getattr(H, "add_constraint_%s_zero" % st["rel"])(arg, **kw)
                for x in w:
                    m = str(x.message)
                    step_warns.append("always" if "always" in m else "unsat" if "cannot" in m else m)
            except common.Infra:
                raise
            except Exception as e:
                outs.append({"err": exc_name(e)})
                facts.append({"err": exc_name(e) + ": " + str(e)[:200]})
                continue
            warns += step_warns
            cons = {rel: [canon_terms(P, L) for P in lst] for rel, lst in H.constraints.items()}
            valid, cvals = [], []
            for _, z in spins(n):
                sol = {L.lab(i): v for i, v in enumerate(z)}
                valid.append(bool(H.is_solution_valid(sol)))
            helper = None
            if len(captured) == 1:
                h = captured[0]
                helper = {"terms": canon_terms(h, L), "anc": h.num_ancillas,
                          "cons": [[rel, canon_terms(P, L)] for rel, lst in h._constraints.items() for P in lst]}
            outs.append({"terms": canon_terms(H, L), "anc": H.num_ancillas, "cons": cons, "warns": list(warns),
                         "valid": valid, "helper": helper})
            facts.append({"before": before, "after": terms_ids(H, L), "anc_before": anc_before,
                          "anc_after": H.num_ancillas, "warns": step_warns, "valid": valid,
                          "ret_self": r is H, "ncaptured": len(captured), "mid": mid,
                          "rec": {rel: [dict(P) for P in lst] for rel, lst in H.constraints.items()},
                          "L": L})
        do_post = running is not None and case.get("post") is not None
        if do_post or case.get("tail"):
            try:
                for op in case.get("tail") or []:
                    H = apply_neutral(H, op, L, n)
                if do_post:
                    # the caller goes on using its expression object after the last constraint was added
                    morph(running, case["post"], "exact", L)
                ob = observe(H, L, n)
                outs.append({"post": {"terms": canon_terms(H, L), "anc": H.num_ancillas, "valid": ob["valid"],
                                      "cons": {rel: [canon_terms(P, L) for P in lst] for rel, lst in H.constraints.items()}}})
                facts.append(dict(ob, post=True))
            except common.Infra:
                raise
            except Exception as e:
                outs.append({"post": {"err": exc_name(e)}})
                facts.append({"post": True, "err": "%s in the steps after the last call %s: %s" % (
                    exc_name(e), case.get("tail"), str(e)[:200])})
    finally:
        pcmod._empty_pcbo = orig
    return outs, facts

# ------------------------------------------------------------------ direct oracle (property text only)

def wht_table(F, order):
    """values of the spin polynomial F = {frozenset(ids): Fraction} on all assignments of the labels in `order`
    (bit j of the index set <=> spin order[j] is -1); returns (table of ints, common denominator)"""
    den = 1
    for v in F.values():
        den = den * v.denominator // gcd(den, v.denominator)
    pos = {lab: j for j, lab in enumerate(order)}
    m = len(order)
    t = [0] * (1 << m)
    for k, v in F.items():
        idx = 0
        for i in k:
            idx |= 1 << pos[i]
        t[idx] += int(v * den)
    h = 1
    while h < len(t):
        for i in range(0, len(t), h * 2):
            for j in range(i, i + h):
                a, b = t[j], t[j + h]
                t[j], t[j + h] = a + b, a - b
        h *= 2
    return t, den

def check_recorded(tag, f, n, ok_so_far, recorded):
    """is_solution_valid = all relations that were added hold (each H as it was when it was added), and the recorded
    constraints are those polynomials"""
    for b in range(1 << n):
        if f["valid"][b] != ok_so_far[b]:
            return "%s: is_solution_valid(z=%s) = %s but the constraints that were added say %s" % (
                tag, [(-1 if b >> i & 1 else 1) for i in range(n)], f["valid"][b], ok_so_far[b])
    L = f["L"]
    for rel in RELS:
        mine = [h for r, h in recorded if r == rel]
        theirs = f["rec"].get(rel, [])
        if len(mine) != len(theirs):
            return "%s: %d constraints recorded under %r, expected %d" % (tag, len(theirs), rel, len(mine))
        for hm, ht in zip(mine, theirs):
            for _, z in spins(n):
                tv = Fraction(0)
                for k, v in ht.items():
                    m_ = Fraction(v)
                    for lab in k:
                        m_ *= z[L.ident(lab)]
                    tv += m_
                if tv != hval(hm, z):
                    return "%s: a constraint recorded under %r is not the polynomial that was added (at z=%s: %s vs %s)" % (
                        tag, rel, z, tv, hval(hm, z))
    return None

def check_state(tag, f, n, ok_so_far, recorded):
    """a state between / after the calls: still a PCSO, is_solution_valid and the recorded constraints are those of the
    constraints added so far, and num_ancillas covers every ancilla present"""
    if f["type"] != "PCSO":
        return "%s: the model is a %s, not a PCSO" % (tag, f["type"])
    bad = check_recorded(tag, f, n, ok_so_far, recorded)
    if bad:
        return bad
    if f["present"] and f["anc"] < 1 + max(f["present"]):
        return "%s: num_ancillas = %d does not cover ancilla __a%d present in the model" % (
            tag, f["anc"], max(f["present"]))
    return None

def oracle(case, facts, ctx=None):
    n = case["n"]
    ok_so_far = [True] * (1 << n)
    seen_labels = set()
    recorded = []
    steps = list(zip(case["seq"], facts))
    for si, (st, f) in enumerate(steps):
        tag = "step %d (%s, lam=%s, log_trick=%s, bounds=(%s,%s))" % (si, st["rel"], st["lam"], st["lt"], st["lo"], st["hi"])
        if "err" in f:
            return "%s raised %s" % (tag, f["err"])
        if not f["ret_self"]:
            return "%s did not return self" % tag
        if f.get("mid"):
            bad = check_state("before step %d, after the bookkeeping-neutral step(s) %s" % (si, st["pre"]), f["mid"], n,
                              ok_so_far, recorded)
            if bad:
                return bad
        lam = Fraction(st["lam"])
        F = {}
        for k in set(f["before"]) | set(f["after"]):
            d = f["after"].get(k, 0) - f["before"].get(k, 0)
            if d != 0:
                F[k] = d
        for k in f["before"]:
            seen_labels.update(k)
        labs = set()
        for k in F:
            labs.update(k)
        hvars = set()
        for k, _ in st["H"]:
            hvars.update(k)
        user = sorted(i for i in labs if i < ANC)
        anc = sorted(i for i in labs if i >= ANC)
        if not set(user) <= hvars:
            return "%s: the added terms depend on labels %s that do not occur in H" % (tag, sorted(set(user) - hvars))
        reused = [a - ANC for a in anc if a in seen_labels]
        if reused:
            return "%s: ancilla(s) __a%s of the new penalty were already present on the model (names repeat)" % (
                tag, reused)
        present = [i - ANC for k in f["after"] for i in k if i >= ANC]
        if present and f["anc_after"] < 1 + max(present):
            return "%s: num_ancillas = %d does not cover ancilla __a%d present in the model" % (
                tag, f["anc_after"], max(present))
        if f["anc_after"] < f["anc_before"]:
            return "%s: num_ancillas decreased from %d to %d" % (tag, f["anc_before"], f["anc_after"])
        # is_solution_valid against the relations recorded so far (evaluated on the case description)
        hv_all = [hval(st["H"], z) for _, z in spins(n)]
        for b in range(1 << n):
            ok_so_far[b] = ok_so_far[b] and rel_holds(st["rel"], hv_all[b])
        recorded.append((st["rel"], st["H"]))
        bad = check_recorded(tag, f, n, ok_so_far, recorded)
        if bad:
            return bad
        if lam == 0:
            if F or f["anc_after"] != f["anc_before"]:
                return "%s: lam = 0 but terms / ancillas were added" % tag
            continue
        # truth table of F over H's spins and the new ancillas
        uvars = sorted(hvars)
        order = uvars + anc
        if len(order) > 16:
            if ctx:
                ctx.count("oracle-skipped")
            continue
        table, den = wht_table(F, order)
        nu, na = len(uvars), len(anc)
        rows = []
        for ub in range(1 << nu):
            z = [1] * n
            for j, lab in enumerate(uvars):
                if ub >> j & 1:
                    z[lab] = -1
            hv = hval(st["H"], z)
            vals = [table[ub | (ab << nu)] for ab in range(1 << na)]
            rows.append((z, hv, rel_holds(st["rel"], hv), min(vals)))
        satisfiable = any(r[2] for r in rows)
        warned = "unsat" in f["warns"]
        if warned and satisfiable:
            z = next(r[0] for r in rows if r[2])
            return "%s: warned 'cannot be satisfied' although z=%s (H=%s) satisfies the relation" % (
                tag, z, hval(st["H"], z))
        unsat_flag = warned or (st["sup"] and not satisfiable)
        for z, hv, holds, mn in rows:
            if mn < 0:
                return "%s: the added function is negative (%s) at z=%s for some ancilla assignment" % (
                    tag, Fraction(mn, den), z)
            if unsat_flag:
                continue
            if holds and mn != 0:
                return "%s: H(z)=%s satisfies the relation at z=%s but min over ancillas of the penalty is %s, not 0" % (
                    tag, hv, z, Fraction(mn, den))
            if not holds and Fraction(mn, den) < lam:
                return "%s: H(z)=%s violates the relation at z=%s but the penalty can be as low as %s < lam" % (
                    tag, hv, z, Fraction(mn, den))
    if len(facts) > len(case["seq"]) and facts[-1].get("post") and not any("err" in f for f in facts[:-1]):
        what = "after the last call"
        if case.get("tail"):
            what += ", after the bookkeeping-neutral step(s) %s" % case["tail"]
        if case.get("running"):
            what += ", once the caller modified its expression object in place"
        if "err" in facts[-1]:
            return "%s: raised %s" % (what, facts[-1]["err"])
        bad = check_state(what, facts[-1], n, ok_so_far, recorded)
        if bad:
            return bad
    return None

# ------------------------------------------------------------------ driver of the check

def model_line(case):
    seq = [{"rel": s["rel"], "H": s["H"], "lam": s["lam"], "lt": s["lt"], "lo": s["lo"], "hi": s["hi"],
            "sup": s["sup"]} for s in case["seq"]]
    return {"op": "pcso_cons", "n": case["n"], "seq": seq}

def norm_model(m, ctx):
    """model output -> the shape of the implementation's output (tags counted and removed, constraints grouped)"""
    out, seen = [], 0
    for o in m:
        o = dict(o)
        if "err" in o:
            out.append(o); continue
        tags = o.pop("tags", [])
        for t in tags[seen:]:
            ctx.count("branch:" + t)
        seen = max(seen, len(tags))
        cons = {}
        for rel, p in o["cons"]:
            cons.setdefault(rel, []).append(p)
        o["cons"] = cons
        out.append(o)
    return out

def nontrivial(case, outs):
    prev = 0
    for o in outs:
        if "err" in o or "post" in o:
            continue
        if abs(len(o["terms"]) - prev) >= 2:
            return True
        prev = len(o["terms"])
    return False

def process(ctx, cases, all_styles=False):
    models = common.run_driver([model_line(c) for c in cases])
    for c, m in zip(cases, models):
        outs, facts = run_impl(c)
        ctx.case(c, nontrivial(c, outs))
        ctx.traces += 1
        ctx.count("family:" + c["family"])
        if c.get("running"):
            ctx.count("running:" + c["running"])
        for op in [o for st in c["seq"] for o in st.get("pre", [])] + (c.get("tail") or []):
            ctx.count("neutral:" + op)
        for st, o in zip(c["seq"], outs):
            ctx.count("rel:%s:%s" % (st["rel"], "err" if "err" in o else "ok"))
            ctx.count("bounds:%s" % ("none" if st["lo"] is None and st["hi"] is None else
                                     "left" if st["hi"] is None else "right" if st["lo"] is None else "both"))
            ctx.count("log_trick:%s" % st["lt"])
        ctx.count("steps:%d" % len(c["seq"]))
        if isinstance(m, dict) and "driver_error" in m:
            ctx.diff(c["family"], c, outs, m)
            continue
        mm = norm_model(m, ctx)
        if outs and "post" in outs[-1] and mm and "err" not in mm[-1]:
            mm.append({"post": {k: mm[-1][k] for k in ("terms", "anc", "valid", "cons")}})
        cmp_outs = []
        for o, mo in zip(outs, mm):
            o = dict(o)
            if "err" not in o and o.get("helper") is None and "err" not in mo and mo.get("helper") is not None:
                # the helper PCBO was not observable (no single call of _empty_pcbo): not compared
                ctx.count("helper-not-observed")
                o["helper"] = mo["helper"]
            cmp_outs.append(o)
        if cmp_outs != mm:
            ctx.diff(c["family"], c, outs, mm)
        bad = oracle(c, facts, ctx)
        if bad:
            ctx.violation("C03:" + c["family"], c, bad)
        if all_styles or c.get("allstyles"):
            for style in Labels.STYLES:
                if style == c["labels"]:
                    continue
                o2, f2 = run_impl(c, style)
                ctx.count("label-realisations")
                if o2 != outs:
                    ctx.diff("labels", dict(c, labels=style), o2, outs)
                    bad = oracle(c, f2, ctx)
                    if bad:
                        ctx.violation("C03:labels", dict(c, labels=style), bad)

# one power-of-two scale per case (2^-60, 3*2^-70, 2^-55, 2^-100, 2^60, 3*2^70): PCSO penalties are computed through
# pubo_to_puso, i.e. in floats, which is exact as long as every coefficient is a small-integer multiple of one power of two
MAG_SCALES = ["1/1152921504606846976", "3/1180591620717411303424", "1/36028797018963968",
              "1/1267650600228229401496703205376", "1152921504606846976", "3541774862152233910272"]

def mag_cases(rng, reps):
    """extreme-magnitude weights: every template x relation with one weight per scale, random single calls and random
    histories whose weights are small multiples of one scale; exact (int / Fraction) and float weights"""
    out, idx = [], 0
    tmpls = [(nm, items_of(spin_of_bool(P))) for nm, P in BOOL_TEMPLATES] + [(nm, items_of(H)) for nm, H in SPIN_TEMPLATES]
    for nm, items in tmpls:
        n = case_n([{"H": items}])
        for rel in RELS:
            lam = MAG_SCALES[idx % len(MAG_SCALES)]
            st = make_step(rng, items, n, rel, True, BMODES[idx % 7], lam, sup=(idx % 11 == 5),
                           hkind=["dict", "PUSO", "dict", "PCSO"][idx % 4], coef="float" if idx % 3 == 1 else "exact")
            out.append(mk_case("mag", [st], Labels.STYLES[idx % 4], nm))
            idx += 1
    for _ in range(reps):
        c = rand_case(rng, rng.choice([1, 1, 2, 3]))
        scale = Fraction(rng.choice(MAG_SCALES))
        coef = "float" if rng.random() < 0.3 else "exact"
        for st in c["seq"]:
            if st["lam"] != "0":
                st["lam"] = fs(scale * rng.choice([1, 1, 2, 3]))
            st["coef"] = coef
            # the neutral step "cancel" (+5 then -5 on a stored float) is not neutral next to a coefficient of size 2^-60
            if st.get("pre"):
                st["pre"] = ["iadd0" if op == "cancel" else op for op in st["pre"]]
        if c.get("tail"):
            c["tail"] = ["refresh" if op == "cancel" else op for op in c["tail"]]
        c["family"] = "mag"
        out.append(c)
    return out

def check(ctx):
    rng = ctx.rng
    cases = tmpl_cases(rng, ctx.tier == "thorough")
    for i, c in enumerate(cases):
        if i % 9 == 0:
            c["allstyles"] = True
    rnd = [rand_case(rng) for _ in range(ctx.scale(900, 15000))]
    seqs = [rand_case(rng, rng.choice([2, 2, 3, 4])) for _ in range(ctx.scale(350, 5000))]
    for i, c in enumerate(seqs):
        if i % 7 == 0:
            c["allstyles"] = True
    runs = fixed_neutral_cases() + fixed_run_cases() + [run_case(rng, rng.choice([2, 2, 3, 4])) for _ in range(ctx.scale(350, 5000))]
    for i, c in enumerate(runs):
        if i % 7 == 0:
            c["allstyles"] = True
    mags = mag_cases(rng, ctx.scale(150, 2500))        # generated last: the earlier streams are unchanged
    process(ctx, cases + rnd + seqs + runs + mags)
    missing = [t for t in ALL_TAGS if ctx.hist.get("branch:" + t, 0) < 5]
    if missing:
        raise common.Infra("coverage self-check: helper branches hit fewer than 5 times: %s" % missing)
    if ctx.hist.get("oracle-skipped", 0) * 20 > ctx.evaluations:
        raise common.Infra("coverage self-check: too many truth tables skipped (%d)" % ctx.hist["oracle-skipped"])
    ctx.exhaustive = False
    if ctx.diffs and not ctx.violations:
        search(ctx)

def search(ctx):
    """failing-input search after a correspondence difference: the direct oracle on every single step of the
    disagreeing cases under all relations / log_trick / bounds modes, on prefixes, and on a fresh random batch"""
    rng = ctx.rng
    extra = []
    for d in ctx.diffs[:40]:
        c = d["case"]
        for i, st in enumerate(c["seq"]):
            pre = mk_case("search", c["seq"][:i + 1], c["labels"])
            if c.get("running"):
                pre["running"], pre["post"], pre["n"] = c["running"], c.get("post"), c["n"]
            if c.get("tail"):
                pre["tail"] = c["tail"]
            extra.append(pre)
            n = case_n([st])
            for rel in RELS:
                for lt in (True, False):
                    for mode in ("none", "exact", "loose"):
                        extra.append(mk_case("search", [make_step(rng, st["H"], n, rel, lt, mode, st["lam"] if st["lam"] != "0" else "1")],
                                             c["labels"]))
    extra += [rand_case(rng, rng.choice([1, 2, 3])) for _ in range(1500)]
    extra += fixed_neutral_cases() + fixed_run_cases() + [run_case(rng, rng.choice([2, 3])) for _ in range(500)]
    extra += [rand_case(rng, rng.choice([2, 3])) for _ in range(500)]
    for c in extra:
        _, facts = run_impl(c)
        bad = oracle(c, facts)
        if bad:
            ctx.violation("C03:" + c["family"], c, bad)

def replay(ctx, payload):
    c = payload.get("case") or (payload.get("first_difference") or {}).get("case")
    if not c:
        ctx.notes.append("replay file has no case; re-running the full check")
        return check(ctx)
    process(ctx, [c])
