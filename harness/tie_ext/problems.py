"""Tie extension for the problem classes of `qubovert/problems` (property C10).

Generated unit: `lean/Qv/Gen/SourceProblems.lean`; trusted primitives: `lean/Qv/Gen/PreludeProblems.lean`; proofs:
`lean/Qv/Proofs/GenEq/Problems*.lean`; distinguishing-input search: `lean/Qv/Gen/Search/Problems.lean`.

A method of a problem class is rendered in the translator's *monadic* mode (every operation that may raise is an `Except Err`
action bound in evaluation order) with these additional rules — one per construct, anything else is `Untranslatable`:

  instance data   `self._x` -> the parameter the registry's `attrs` table names for `_x` (the `__init__` methods are not
                  translated; the instance invariants they establish appear as the instantiation / hypotheses of the theorems)
  matrices        `QUBOMatrix()` / `QUSOMatrix()` -> the empty term list; `Cls({k: e for …})` -> pyMatOfDict;
                  `M[(a, b)] += e`, `-=`, `= e` -> pyMatIAddItem / pyMatSetItem (key: a tuple display of naturals);
                  `M += c` (number) -> pyMatIAddNum; `M += R` -> pyMatIAdd; `M *= R` -> pyMatIMul; `c * M`, `M * c` ->
                  pyMatMulNum; `M * R` -> pyMatMul; `PCBO().add_constraint_OR(a, b, lam=e)` -> pyPcboOR;
                  `PCSO().add_constraint_eq_zero({…}, lam=e)` -> pyPcsoEqZero.  A matrix local that is written in a loop is part
                  of the loop state (pyForM)
  containers      `l[i]` (list / numpy row, non-literal index) -> pyListAt; `d[x]`, `inv[i]` on enumerate-dicts -> pyIndexOf /
                  pyDictAt; `solution[i]` -> pySolGet; `d.items()`, `d.values()` on an edge dict / a solution;
                  `range(n)` (n natural) -> List.range; `range(a, b)` -> pyRange2; `x in s` -> List.contains;
                  `sum(l)` -> pySum; `min(a, b)` / `max(a, b)` on naturals; `len(s)`; `a // b` on naturals / ints with natural divisor
  comprehensions  `[e for …]`, `tuple(…)`, `set(…)`, `self._input_type(…)`, dict comprehensions, with an element that may raise
                  -> pyMapM over the (filtered) source; `set(…)` of labels -> pySortedSet; `int(bool(e))`, `int(<comparison>)` -> if e then 1 else 0
  solutions       `dict(enumerate(solution))` is the identity on the item-list representation (the `_is_dict` flag becomes true);
                  `is_solution_spin(solution, spin)` -> the generated `Qv.Gen.is_solution_spin` (tied in group Convert);
                  `spin_to_boolean` -> pySpinToBoolean; `self.convert_solution(…)` -> the registered method of the same class
  numpy           `np.array(l)` of a list is the list; `S @ np.array([x]).T` -> pyMatVec; `np.array([b]).T` -> the column `b`;
                  `np.array_equal`, `np.allclose` -> pyArrayEqual / pyAllClose
  registry        `skip`: statements not translated (dynamic type tests on `solution`); `static`: an expression whose truth value
                  is fixed by the registry's typing of `solution` (only the taken branch is translated); `symbolic`: an expression
                  named as a Bool parameter (the numpy dtype test); `defaults`: a second definition `<name>_default` applies the
                  function to the default arguments read from the `def` line.
"""
import ast
from harness import translate as T
from harness.translate import (Fn, Untranslatable, Simple, TTuple, TOpt, TList, TV, RAT, INT, NAT, BOOL, PROP, VAR, KEY,
                               POLY, OPAQUE, res, lean_ty, coerce, is_num, mangle, same)

MATQ = Simple("Mat.qubom", "Poly")
MATS = Simple("Mat.qusom", "Poly")
TERMS = Simple("Terms", "Poly")             # the terms of a PCBO / PCSO object, only ever added to a matrix
SOL = Simple("Sol", "Sol")
INDEXOF = Simple("IndexOf", "List Var")     # dict {x: i} given by the list of x in index order
DICTAT = Simple("DictAt", "List Var")       # dict {i: x}
EDGEDICT = Simple("EdgeDict", "List ((Var × Var) × Rat)")
SETVAR = Simple("SetVar", "List Var")       # a Python set of labels as a value: sorted duplicate-free list
SEQCTOR = Simple("SeqCtor", "Unit")         # `self._input_type` (tuple or list): building one from a generator is the list
LISTRAT = lambda: TList(RAT)                # noqa: E731
KIND = {MATQ: ".qubom", MATS: ".qusom"}

T.PARAM_TYPES.update({
    "P.Sol": lambda: SOL, "P.ListRat": LISTRAT, "P.ListListRat": lambda: TList(TList(RAT)),
    "P.Edges": lambda: TList(TTuple([VAR, VAR])), "P.EdgeDict": lambda: EDGEDICT, "P.IndexOf": lambda: INDEXOF,
    "P.DictAt": lambda: DICTAT, "P.SetVar": lambda: SETVAR, "P.SeqCtor": lambda: SEQCTOR, "P.OptRat": lambda: TOpt(RAT),
    "P.PairListRat": lambda: TTuple([TList(RAT), TList(RAT)]), "P.PairSetVar": lambda: TTuple([SETVAR, SETVAR]),
    "P.ListVar": lambda: TList(VAR), "P.ListListVar": lambda: TList(TList(VAR)),
})


def is_nat(t):
    t = res(t)
    return t is NAT or t is VAR or isinstance(t, TV)


def as_nat(s, t, node):
    t = res(t)
    if isinstance(t, TV):
        t.ref = NAT
        return s
    if t is NAT or t is VAR:
        return s
    if t is INT:
        return "(Int.toNat %s)" % s         # a label / index computed as `n - 1`: natural by the class invariants
    raise Untranslatable("a %s where a natural number (label / index) is needed" % lean_ty(t), node)


class FnExt(Fn):
    def __init__(self, entry, module_src, fnode, done):
        e = dict(entry)
        self.attrs = {a: (ln, ty) for a, ln, ty in e.get("attrs", [])}
        seen, aparams = set(), []
        for a, ln, ty in e.get("attrs", []):
            if ln not in seen and ty != "P.SeqCtor":
                seen.add(ln)
                aparams.append((ln, ty))
        self.pyparams = list(e["pyparams"])
        pp = []
        for p in self.pyparams:
            pp.append((p[0], p[1]))
            if p[1] == "P.Sol":
                pp.append((p[0] + "_is_dict", "Bool"))
        self.nattr = len(aparams)
        e["params"] = [("self", "Opaque")] + aparams + pp + [(v, "Bool") for v in e.get("symbolic", {}).values()]
        e["monadic"] = True
        if e.get("normalize"):
            from . import util as _U       # exact syntactic normalisations of the function's AST (harness/tie_ext/util.py)
            fnode = _U.normalize_fn(fnode, e, module_src)
        Fn.__init__(self, e, module_src, fnode, done)
        self.skip = {ast.dump(ast.parse(s).body[0]) for s in e.get("skip", [])}
        self.static = {ast.dump(ast.parse(s).body[0].value): v for s, v in e.get("static", {}).items()}
        self.symbolic = {ast.dump(ast.parse(s).body[0].value): v for s, v in e.get("symbolic", {}).items()}

    # ---- signature: python parameters (names and defaults) must be what the registry expects
    def check_signature(self):
        a = self.fnode.args
        for d in self.fnode.decorator_list:
            raise Untranslatable("decorator %s" % ast.unparse(d), self.fnode)
        if a.kwarg or a.posonlyargs or a.vararg or a.kwonlyargs:
            raise Untranslatable("signature with *args/**kwargs/keyword-only parameters", self.fnode)
        got = [x.arg for x in a.args]
        want = ["self"] + [p[0] for p in self.pyparams]
        if got != want:
            raise Untranslatable("signature changed: parameters %s, registry expects %s" % (got, want), self.fnode)
        dflt = dict(zip(got[len(got) - len(a.defaults):], a.defaults))
        for p in self.pyparams:
            if len(p) > 2 and (p[0] not in dflt or ast.unparse(dflt[p[0]]) != p[2]):
                raise Untranslatable("default of parameter %s changed (registry expects %s)" % (p[0], p[2]), self.fnode)

    def default_args(self):
        """the default value of every python parameter, rendered at the parameter's type"""
        a = self.fnode.args
        names = [x.arg for x in a.args]
        dflt = dict(zip(names[len(names) - len(a.defaults):], a.defaults))
        out = []
        for p in self.pyparams:
            d = dflt.get(p[0])
            if d is None:
                raise Untranslatable("parameter %s has no default" % p[0], self.fnode)
            if p[1] == "P.OptRat" and isinstance(d, ast.Constant) and d.value is None:
                out.append("none")
            elif p[1] == "P.OptRat" and isinstance(d, ast.Constant) and type(d.value) is int:
                out.append("(some (%d : Rat))" % d.value)
            elif p[1] == "Rat" and isinstance(d, ast.Constant) and type(d.value) is int and d.value >= 0:
                out.append("(%d : Rat)" % d.value)
            elif p[1] == "Bool" and isinstance(d, ast.Constant) and isinstance(d.value, bool):
                out.append("true" if d.value else "false")
            else:
                raise Untranslatable("default %s of parameter %s" % (ast.unparse(d), p[0]), self.fnode)
        return out

    def translate(self):
        binders, ptys, rty, body = Fn.translate(self)
        if self.e.get("defaults"):
            name = self.e["lean"]
            ab = binders[:self.nattr]
            anames = [b[1:].split(" : ")[0] for b in ab]
            body += ("\n\n/-- `%s` called with its default arguments, read from its `def` line -/\n"
                     "def %s_default %s : %s :=\n  %s %s" % (
                         self.e["func"], name, " ".join(ab), rty, name, " ".join(anames + self.default_args())))
        return binders, ptys, rty, body

    # ---- expressions
    def self_attr(self, n):
        if isinstance(n, ast.Attribute) and isinstance(n.value, ast.Name) and n.value.id == "self":
            if n.attr not in self.attrs:
                raise Untranslatable("attribute self.%s is not in the registry's attrs table" % n.attr, n)
            ln, ty = self.attrs[n.attr]
            return mangle(ln), T.PARAM_TYPES[ty]()
        return None

    def np_name(self, n, attr):
        """`np.<attr>` where np is `import numpy as np`"""
        if isinstance(n, ast.Attribute) and n.attr == attr and isinstance(n.value, ast.Name) and n.value.id == "np":
            self.need_module_alias("numpy", "np", n)
            return True
        return False

    def column(self, n, env):
        """`np.array([x]).T` for a 1-d `x`: the column, i.e. the list `x`"""
        if isinstance(n, ast.Attribute) and n.attr == "T" and isinstance(n.value, ast.Call) \
                and self.np_name(n.value.func, "array") and len(n.value.args) == 1 and not n.value.keywords \
                and isinstance(n.value.args[0], ast.List) and len(n.value.args[0].elts) == 1:
            s, t = self.expr(n.value.args[0].elts[0], env)
            if isinstance(res(t), TList) and res(res(t).elt) is RAT:
                return s, res(t)
            raise Untranslatable("np.array([x]).T of a %s" % lean_ty(t), n)
        return None

    def expr(self, n, env, expected=None):
        if ast.dump(n) in self.symbolic:
            return "(%s = true)" % self.symbolic[ast.dump(n)], PROP
        a = self.self_attr(n)
        if a is not None:
            if a[1] is SEQCTOR:
                raise Untranslatable("self._input_type used other than as a constructor call", n)
            return a
        c = self.column(n, env)
        if c is not None:
            return c
        if isinstance(n, ast.DictComp):
            return self.dictcomp(n, env)
        if isinstance(n, ast.ListComp):
            return self.gen_list(n, env)
        if isinstance(n, ast.Compare) and len(n.ops) == 1 and isinstance(n.ops[0], (ast.In, ast.NotIn)):
            x, tx = self.expr(n.left, env)
            s, ts = self.expr(n.comparators[0], env)
            ts = res(ts)
            if not (is_nat(tx) and (ts is SETVAR or ts is KEY or (isinstance(ts, TList) and is_nat(ts.elt)))):
                raise Untranslatable("`in` on a %s" % lean_ty(ts), n)
            return "(List.contains %s %s = %s)" % (s, as_nat(x, tx, n), "true" if isinstance(n.ops[0], ast.In) else "false"), PROP
        if isinstance(n, ast.Tuple) and n.elts and expected is None:
            parts = [self.expr(x, env) for x in n.elts]
            if len(parts) >= 2:
                return "(" + ", ".join(s for s, _ in parts) + ")", TTuple([t for _, t in parts])
        return Fn.expr(self, n, env, expected)

    def key_of(self, n, env):
        """the key of an item statement: a tuple display of naturals"""
        if not isinstance(n, ast.Tuple):
            raise Untranslatable("matrix key that is not a tuple display", n)
        parts = [self.expr(x, env) for x in n.elts]
        return "[" + ", ".join(as_nat(s, t, n) for s, t in parts) + "]"

    def mapm(self, src, et, lets, elt_fn, node):
        """(list expression, elt type) of `elt for … in src`, where elt may raise"""
        (e, te), frame = self.framed(elt_fn)
        if res(te) is PROP:
            e, te = coerce(e, PROP, BOOL), BOOL
        if isinstance(res(te), TV):
            res(te).ref = INT
        if frame:
            body = self.wrap(frame, "(Except.ok %s)" % e, "      ")
            return self.bind("(pyMapM %s (fun (_py_it : %s) => %s%s))" % (src, lean_ty(et), lets, body), TList(te), node)
        return "(List.map (fun (_py_it : %s) => %s%s) %s)" % (lean_ty(et), lets, e, src), TList(te)

    def gen_source(self, n, env):
        g = self.one_generator(n)
        src, et = self.iter_source(g.iter, env)
        lets, env2 = self.bind_target(g.target, et, "_py_it", env)
        if g.ifs:
            c = " ∧ ".join(self.pure_only(lambda i=i: self.cond(i, env2), "a comprehension filter", n) for i in g.ifs)
            src = "(List.filter (fun (_py_it : %s) => %sdecide %s) %s)" % (lean_ty(et), lets, c, src)
        return src, et, lets, env2

    def gen_list(self, n, env):
        src, et, lets, env2 = self.gen_source(n, env)
        return self.mapm(src, et, lets, lambda: self.expr(n.elt, env2), n)

    def dictcomp(self, n, env):
        src, et, lets, env2 = self.gen_source(n, env)

        def item():
            k = self.key_of(n.key, env2)
            v, tv = self.expr(n.value, env2)
            if not is_num(tv):
                raise Untranslatable("dict comprehension value that is not a number", n)
            return "(%s, %s)" % (k, coerce(v, tv, RAT, n)), TTuple([KEY, RAT])
        s, _ = self.mapm(src, et, lets, item, n)
        return s, POLY

    def subscript(self, n, env):
        if isinstance(n.slice, ast.Slice):
            return Fn.subscript(self, n, env)
        if self.const_index(n) is not None:
            v, tv = self.expr(n.value, env)
            if isinstance(res(tv), TTuple):
                return Fn.subscript(self, n, env)
        v, tv = self.expr(n.value, env)
        tv = res(tv)
        i, ti = self.expr(n.slice, env)
        if isinstance(tv, TList):
            return self.bind("(pyListAt %s %s)" % (v, as_nat(i, ti, n)), tv.elt, n)
        if tv is INDEXOF:
            return self.bind("(pyIndexOf %s %s)" % (v, as_nat(i, ti, n)), NAT, n)
        if tv is DICTAT:
            return self.bind("(pyDictAt %s %s)" % (v, as_nat(i, ti, n)), VAR, n)
        if tv is SOL and isinstance(n.value, ast.Name):
            return self.bind("(pySolGet %s %s_is_dict %s)" % (v, mangle(n.value.id), as_nat(i, ti, n)), RAT, n)
        raise Untranslatable("subscript of a %s" % lean_ty(tv), n)

    def imported(self, module, name, node):
        self.need_import(module, name, node)

    def call(self, n, env):
        f = n.func
        if isinstance(f, ast.Name) and f.id in ("QUBOMatrix", "QUSOMatrix") and f.id not in env and not n.keywords:
            self.imported("qubovert.utils", f.id, n)
            ty = MATQ if f.id == "QUBOMatrix" else MATS
            if not n.args:
                return "([] : Poly)", ty
            if len(n.args) == 1:
                d, td = self.expr(n.args[0], env)
                if res(td) is POLY:
                    return self.bind("(pyMatOfDict %s %s)" % (KIND[ty], d), ty, n)
            raise Untranslatable("%s(...) with these arguments" % f.id, n)
        if isinstance(f, ast.Attribute) and isinstance(f.value, ast.Call) and isinstance(f.value.func, ast.Name) \
                and not f.value.args and not f.value.keywords and f.value.func.id in ("PCBO", "PCSO"):
            cls = f.value.func.id
            self.imported("qubovert", cls, n)
            kws = {k.arg: k.value for k in n.keywords}
            if set(kws) != {"lam"}:
                raise Untranslatable("%s().%s without exactly the keyword lam" % (cls, f.attr), n)
            lam, tl = self.expr(kws["lam"], env)
            lam = coerce(lam, tl, RAT, n)
            if cls == "PCBO" and f.attr == "add_constraint_OR" and len(n.args) == 2:
                parts = [self.expr(x, env) for x in n.args]
                return self.bind("(pyPcboOR %s %s %s)" % (as_nat(*parts[0], n), as_nat(*parts[1], n), lam), TERMS, n)
            if cls == "PCSO" and f.attr == "add_constraint_eq_zero" and len(n.args) == 1:
                d, td = self.expr(n.args[0], env)
                if res(td) is not POLY:
                    raise Untranslatable("add_constraint_eq_zero of a %s" % lean_ty(td), n)
                return self.bind("(pyPcsoEqZero %s %s)" % (d, lam), TERMS, n)
            raise Untranslatable("%s().%s" % (cls, f.attr), n)
        if isinstance(f, ast.Attribute) and isinstance(f.value, ast.Name) and f.value.id == "self" and not n.keywords:
            if f.attr in self.attrs and self.attrs[f.attr][1] == "P.SeqCtor" and len(n.args) == 1 \
                    and isinstance(n.args[0], ast.GeneratorExp):
                return self.gen_list(n.args[0], env)        # tuple(...) / list(...) of a generator: the list
            return self.call_own_method(n, env)
        if isinstance(f, ast.Attribute) and f.attr in ("items", "values") and not n.args and not n.keywords:
            v, tv = self.expr(f.value, env)
            if res(tv) is EDGEDICT:
                if f.attr == "items":
                    return v, TList(TTuple([TTuple([VAR, VAR]), RAT]))
                return "(List.map Prod.snd %s)" % v, TList(RAT)
            if res(tv) is SOL:
                if f.attr == "items":
                    return v, TList(TTuple([NAT, RAT]))
                return "(List.map Prod.snd %s)" % v, TList(RAT)
            raise Untranslatable(".%s() of a %s" % (f.attr, lean_ty(tv)), n)
        if isinstance(f, ast.Attribute) and isinstance(f.value, ast.Name) and f.value.id == "np" and not n.keywords:
            self.need_module_alias("numpy", "np", n)
            if f.attr == "array" and len(n.args) == 1:
                s, t = self.expr(n.args[0], env)
                if isinstance(res(t), TList):
                    return s, t
                raise Untranslatable("np.array of a %s" % lean_ty(t), n)
            if f.attr in ("array_equal", "allclose") and len(n.args) == 2:
                (a, ta), (b, tb) = [self.expr(x, env) for x in n.args]
                if not all(isinstance(res(t), TList) and res(res(t).elt) is RAT for t in (ta, tb)):
                    raise Untranslatable("np.%s on these arguments" % f.attr, n)
                return "(%s %s %s)" % ("pyArrayEqual" if f.attr == "array_equal" else "pyAllClose", a, b), BOOL
            raise Untranslatable("np.%s" % f.attr, n)
        if not isinstance(f, ast.Name) or n.keywords or f.id in env:
            return Fn.call(self, n, env)
        name, args = f.id, n.args
        if name in T.BUILTINS | {"bool", "enumerate"} and name in self.module_names():
            raise Untranslatable("builtin %s is rebound in this module" % name, n)
        if name == "is_solution_spin" and len(args) == 2 and isinstance(args[0], ast.Name):
            self.imported("qubovert.utils", name, n)
            callee = self.done.get("is_solution_spin")
            if not callee or callee["status"] != "translated":
                raise Untranslatable("is_solution_spin is not translated", n)
            s, ts = self.expr(args[0], env)
            if res(ts) is not SOL:
                raise Untranslatable("is_solution_spin of a %s" % lean_ty(ts), n)
            d, td = self.expr(args[1], env)
            return "(is_solution_spin (List.map Prod.snd %s) %s_is_dict %s)" % (s, mangle(args[0].id), coerce(d, td, BOOL, n)), BOOL
        if name in ("spin_to_boolean", "boolean_to_spin") and len(args) == 1:
            self.imported("qubovert.utils", name, n)
            s, ts = self.expr(args[0], env)
            if res(ts) is not SOL:
                raise Untranslatable("%s of a %s" % (name, lean_ty(ts)), n)
            return self.bind("(%s %s)" % ("pySpinToBoolean" if name == "spin_to_boolean" else "pyBooleanToSpin", s), SOL, n)
        if name == "dict" and len(args) == 1 and isinstance(args[0], ast.Call) and isinstance(args[0].func, ast.Name) \
                and args[0].func.id == "enumerate" and len(args[0].args) == 1 and not args[0].keywords:
            s, ts = self.expr(args[0].args[0], env)
            if res(ts) is SOL:
                return s, SOL            # the item list of a list / tuple is `enumerate` of it
            raise Untranslatable("dict(enumerate(…)) of a %s" % lean_ty(ts), n)
        if name == "sum" and len(args) == 1 and not isinstance(args[0], ast.GeneratorExp):
            s, ts = self.expr(args[0], env)
            if isinstance(res(ts), TList) and res(res(ts).elt) is RAT:
                return "(pySum %s)" % s, RAT
            raise Untranslatable("sum of a %s" % lean_ty(ts), n)
        if name in ("set", "tuple", "list") and len(args) == 1 and isinstance(args[0], ast.GeneratorExp):
            l, tl = self.gen_list(args[0], env)
            if name != "set":
                return l, tl
            if not is_nat(res(tl).elt):
                raise Untranslatable("set of %s" % lean_ty(res(tl).elt), n)
            return "(pySortedSet %s)" % l, SETVAR
        if name == "len" and len(args) == 1:
            s, ts = self.expr(args[0], env)
            if res(ts) is SETVAR:
                return "(List.length %s)" % s, NAT
            if isinstance(res(ts), TList) or res(ts) is KEY:
                return "(List.length %s)" % s, NAT
            raise Untranslatable("len of a %s" % lean_ty(ts), n)
        if name in ("min", "max") and len(args) == 2:
            (a, ta), (b, tb) = [self.expr(x, env) for x in args]
            if is_nat(ta) and is_nat(tb):
                return "(%s %s %s)" % (name, as_nat(a, ta, n), as_nat(b, tb, n)), NAT
            raise Untranslatable("%s of two non-naturals" % name, n)
        if name == "bool" and len(args) == 1:
            s, ts = self.expr(args[0], env)
            if res(ts) is BOOL:
                return s, BOOL
            raise Untranslatable("bool() of a %s" % lean_ty(ts), n)
        if name == "int" and len(args) == 1 and isinstance(args[0], ast.Call) and isinstance(args[0].func, ast.Name) \
                and args[0].func.id == "bool" and len(args[0].args) == 1:
            c = self.cond(args[0].args[0], env)
            return "(if %s then (1 : Rat) else (0 : Rat))" % c, RAT
        if name == "int" and len(args) == 1 and isinstance(args[0], (ast.Compare, ast.BoolOp)):
            c = self.cond(args[0], env)         # int(True) = 1, int(False) = 0
            return "(if %s then (1 : Rat) else (0 : Rat))" % c, RAT
        return Fn.call(self, n, env)

    def call_own_method(self, n, env):
        f = n.func
        cls = self.e["func"].split(".")[0]
        qual = "%s.%s" % (cls, f.attr)
        reg = [r for r in REGISTRY if r["func"] == qual and r["file"] == self.e["file"]]
        callee = self.done.get(qual)
        if callee is None or not reg or callee["file"] != self.e["file"] or callee["status"] != "translated" \
                or callee["lean"] != reg[-1]["lean"] or reg[-1].get("symbolic"):
            raise Untranslatable("method self.%s is not a translated method of this class" % f.attr, n)
        reg = reg[-1]
        if len(n.args) != len(reg["pyparams"]):
            raise Untranslatable("call of self.%s with %d arguments" % (f.attr, len(n.args)), n)
        args, seen = [], set()
        for _, ln, ty in reg["attrs"]:
            if ln not in seen and ty != "P.SeqCtor":
                seen.add(ln)
                args.append(mangle(ln))
        for a, p in zip(n.args, reg["pyparams"]):
            s, t = self.expr(a, env)
            args.append(coerce(s, t, T.PARAM_TYPES[p[1]](), n))
            if p[1] == "P.Sol":
                if not isinstance(a, ast.Name):
                    raise Untranslatable("a computed solution container", n)
                args.append(mangle(a.id) + "_is_dict")
        return self.bind("(%s %s)" % (callee["lean"], " ".join(args)), callee["ret_ty"], n)

    def binop(self, op, left, right, env, node):
        if isinstance(op, ast.MatMult):
            a, ta = self.expr(left, env)
            c = self.column(right, env)
            if c is None or not (isinstance(res(ta), TList) and isinstance(res(res(ta).elt), TList)):
                raise Untranslatable("@ other than (2-d array) @ np.array([x]).T", node)
            return "(pyMatVec %s %s)" % (a, c[0]), TList(RAT)
        if isinstance(op, ast.Mult):
            (a, ta), fa = self.framed(lambda: self.expr(left, env))
            self.pend[-1].extend(fa)
            b, tb = self.expr(right, env)
            ta, tb = res(ta), res(tb)
            if ta in KIND and is_num(tb):
                return self.bind("(pyMatMulNum %s %s %s)" % (KIND[ta], a, coerce(b, tb, RAT, node)), ta, node)
            if tb in KIND and is_num(ta):
                return self.bind("(pyMatMulNum %s %s %s)" % (KIND[tb], b, coerce(a, ta, RAT, node)), tb, node)
            if ta in KIND and (tb in KIND or tb is TERMS):
                return self.bind("(pyMatMul %s %s %s)" % (KIND[ta], a, b), ta, node)
            if not (is_num(ta) and is_num(tb)):
                raise Untranslatable("* on %s and %s" % (lean_ty(ta), lean_ty(tb)), node)
            t = T.num_join(ta, tb)
            return "(%s * %s)" % (coerce(a, ta, t), coerce(b, tb, t)), t
        if isinstance(op, ast.FloorDiv):
            a, ta = self.expr(left, env)
            b, tb = self.expr(right, env)
            ta, tb = res(ta), res(tb)
            if isinstance(tb, TV):
                tb.ref = NAT
                tb = NAT
            if tb is NAT and (ta is NAT or isinstance(ta, TV)):
                return "(%s / %s)" % (as_nat(a, ta, node), b), NAT
            if tb is NAT and ta is INT:
                return "(%s / (Nat.cast %s : Int))" % (a, b), INT      # floor division: the divisor is not negative
            raise Untranslatable("// on %s and %s" % (lean_ty(ta), lean_ty(tb)), node)
        if isinstance(op, ast.Mod):
            a, ta = self.expr(left, env)
            b, tb = self.expr(right, env)
            if res(ta) is INT and (isinstance(res(tb), TV) or res(tb) in (NAT, INT)):
                return "(%s %% %s)" % (a, coerce(b, tb, INT, node)), INT
            if is_nat(ta) and is_nat(tb):
                return "(%s %% %s)" % (as_nat(a, ta, node), as_nat(b, tb, node)), NAT
            raise Untranslatable("% on these operands", node)
        return Fn.binop(self, op, left, right, env, node)

    def cond(self, n, env):
        if ast.dump(n) in self.symbolic:
            return "(%s = true)" % self.symbolic[ast.dump(n)]
        return Fn.cond(self, n, env)

    # ---- iteration
    def iter_source(self, n, env):
        if isinstance(n, ast.Call) and isinstance(n.func, ast.Name) and n.func.id == "range" and not n.keywords \
                and "range" not in env and len(n.args) in (1, 2):
            if "range" in self.module_names():
                raise Untranslatable("builtin range is rebound in this module", n)
            parts = [self.expr(a, env) for a in n.args]
            if len(parts) == 1 and res(parts[0][1]) is INT:
                return "(pyRangeNat %s)" % parts[0][0], NAT
            if not all(is_nat(t) for _, t in parts):
                raise Untranslatable("range of something that is not an int", n)
            if len(parts) == 1:
                return "(List.range %s)" % as_nat(*parts[0], n), NAT
            return "(pyRange2 %s %s)" % (as_nat(*parts[0], n), as_nat(*parts[1], n)), NAT
        if isinstance(n, ast.Call) and isinstance(n.func, ast.Attribute) and n.func.attr == "items" and not n.args \
                and not n.keywords:
            s, t = self.expr(n, env)
            return s, res(t).elt
        s, t = self.expr(n, env)
        t = res(t)
        if isinstance(t, TList):
            return s, t.elt
        if t is SETVAR:
            return s, VAR
        raise Untranslatable("iteration over a %s" % lean_ty(t), n)

    def bind_target(self, target, elt_ty, it, env):
        env = dict(env)
        if isinstance(target, ast.Name):
            env[target.id] = elt_ty
            return "let %s : %s := %s; " % (mangle(target.id), lean_ty(elt_ty), it), env
        et = res(elt_ty)
        if isinstance(target, ast.Tuple) and isinstance(et, TTuple) and len(target.elts) == len(et.elts):
            lets = ""
            for i, (x, t) in enumerate(zip(target.elts, et.elts)):
                l2, env = self.bind_target(x, t, T.proj(it, i, len(et.elts)), env)
                lets += l2
            return lets, env
        raise Untranslatable("loop target does not match the element type %s" % lean_ty(elt_ty), target)

    def assigned(self, stmts):
        out = Fn.assigned(self, stmts)
        for s in stmts:
            for n in ast.walk(s):
                if isinstance(n, ast.Subscript) and isinstance(n.ctx, ast.Store) and isinstance(n.value, ast.Name) \
                        and n.value.id not in out:
                    out.append(n.value.id)
        return out

    # ---- statements
    def static_value(self, test):
        d = ast.dump(test)
        if d in self.static:
            return self.static[d]
        if isinstance(test, ast.UnaryOp) and isinstance(test.op, ast.Not):
            v = self.static_value(test.operand)
            return None if v is None else (not v)
        return None

    def if_(self, test, body, orelse, env, cont, ind, flow, node):
        v = self.static_value(test)
        if v is not None:
            return self.block(body if v else orelse, env, cont, ind, flow)
        return Fn.if_(self, test, body, orelse, env, cont, ind, flow, node)

    def stmt(self, stmts, env, k, ind, flow):
        s, rest = stmts[0], stmts[1:]
        pad = " " * ind

        def cont(env2):
            return self.block(rest, env2, k, ind, flow)

        if ast.dump(s) in self.skip:
            return cont(env)
        tgt = None
        if isinstance(s, ast.AugAssign):
            tgt = s.target
        elif isinstance(s, ast.Assign) and len(s.targets) == 1:
            tgt = s.targets[0]
        if tgt is not None and isinstance(tgt, ast.Subscript) and isinstance(tgt.value, ast.Name) \
                and tgt.value.id in env and res(env[tgt.value.id]) in KIND:
            m = tgt.value.id
            kind = KIND[res(env[m])]
            key = self.key_of(tgt.slice, env)
            v, tv = self.expr(s.value, env)
            v = coerce(v, tv, RAT, s)
            if isinstance(s, ast.Assign):
                act = "(pyMatSetItem %s %s %s %s)" % (kind, mangle(m), key, v)
            elif isinstance(s.op, ast.Add):
                act = "(pyMatIAddItem %s %s %s %s)" % (kind, mangle(m), key, v)
            elif isinstance(s.op, ast.Sub):
                act = "(pyMatIAddItem %s %s %s (-%s))" % (kind, mangle(m), key, v)
            else:
                raise Untranslatable("item statement with operator %s" % type(s.op).__name__, s)
            nm, _ = self.bind(act, env[m], s)
            return "let %s : Poly := %s;\n%s%s" % (mangle(m), nm, pad, cont(env))
        if isinstance(s, ast.AugAssign) and isinstance(s.target, ast.Name) and s.target.id in env \
                and res(env[s.target.id]) in KIND:
            m = s.target.id
            kind = KIND[res(env[m])]
            v, tv = self.expr(s.value, env)
            tv = res(tv)
            if isinstance(s.op, ast.Add) and is_num(tv):
                act = "(pyMatIAddNum %s %s %s)" % (kind, mangle(m), coerce(v, tv, RAT, s))
            elif isinstance(s.op, ast.Add) and (tv in KIND or tv is TERMS):
                act = "(pyMatIAdd %s %s %s)" % (kind, mangle(m), v)
            elif isinstance(s.op, ast.Mult) and (tv in KIND or tv is TERMS):
                act = "(pyMatIMul %s %s %s)" % (kind, mangle(m), v)
            else:
                raise Untranslatable("`%s %s= …` on a matrix with a %s" % (m, type(s.op).__name__, lean_ty(tv)), s)
            nm, _ = self.bind(act, env[m], s)
            return "let %s : Poly := %s;\n%s%s" % (mangle(m), nm, pad, cont(env))
        if isinstance(s, ast.Assign) and len(s.targets) == 1 and isinstance(s.targets[0], ast.Name) \
                and s.targets[0].id in env and res(env[s.targets[0].id]) is SOL and isinstance(s.value, ast.Call) \
                and isinstance(s.value.func, ast.Name) and s.value.func.id == "dict":
            x = s.targets[0].id
            v, tv = self.expr(s.value, env)
            return "let %s : Sol := %s;\n%slet %s_is_dict : Bool := true;\n%s%s" % (mangle(x), v, pad, mangle(x), pad, cont(env))
        return Fn.stmt(self, stmts, env, k, ind, flow)


# ------------------------------------------------------------------------------------------------------ registry
_P = "qubovert/problems/"
NOTE_INIT = "`__init__` (the instance data `self._…` are parameters; their invariants are the instantiation of the theorem)"
NOTE_DISPATCH = ("the dynamic type test on `solution` (which path runs depends on the Python type of the argument; the "
                 "solver-output path and the already-converted path are two generated definitions)")


def _mk(file, cls, attrs, func, lean, pyparams, group, **kw):
    d = dict(file=_P + file, func="%s.%s" % (cls, func), lean=lean, attrs=attrs, pyparams=pyparams, unit="Problems",
             group=group, props=["C10"], not_translated=[NOTE_INIT] + kw.pop("notes", []))
    d.update(kw)
    return d


SOLP = [("solution", "P.Sol"), ("spin", "Bool", "False")]

NP_FILE, NP_ATTRS = "np/partitioning/_number_partitioning.py", [("_S", "self_S", "P.ListRat"), ("_N", "self_N", "Nat"),
                                                                ("_input_type", "self_input_type", "P.SeqCtor")]
NP_SKIP = ["not_converted = (not isinstance(solution, tuple) or len(solution) != 2 or "
           "not isinstance(solution[0], self._input_type) or not isinstance(solution[1], self._input_type))"]
GP_FILE = "np/partitioning/_graph_partitioning.py"
GP_ATTRS = [("_edges", "self_edges", "P.EdgeDict"), ("_vertex_to_index", "self_order", "P.IndexOf"),
            ("_index_to_vertex", "self_order", "P.DictAt"), ("_N", "self_N", "Nat"), ("_degree", "self_degree", "Nat")]
GP_SKIP = ["not_converted = (not isinstance(solution, tuple) or len(solution) != 2 or "
           "not isinstance(solution[0], set) or not isinstance(solution[1], set))"]
VC_FILE = "np/covering/_vertex_cover.py"
VC_ATTRS = [("_edges", "self_edges", "P.Edges"), ("_vertex_to_index", "self_vertices", "P.IndexOf"),
            ("_index_to_vertex", "self_vertices", "P.DictAt"), ("_N", "self_N", "Nat")]
BILP_FILE = "np/bilp/_bilp.py"
BILP_ATTRS = [("_c", "self_c", "P.ListRat"), ("_S", "self_S", "P.ListListRat"), ("_b", "self_b", "P.ListRat"),
              ("_N", "self_N", "Nat"), ("_m", "self_m", "Nat")]
BILP_DTYPE = "np.issubdtype(lhs.dtype, np.integer) and np.issubdtype(rhs.dtype, np.integer)"

REGISTRY = [
    # ---- NumberPartitioning
    _mk(NP_FILE, "NumberPartitioning", NP_ATTRS, "to_quso", "NumberPartitioning_to_quso", [("A", "Rat")], "Problems",
        defaults=True, extra_theorems=["NumberPartitioning_to_quso_default_eq_model"]),
    _mk(NP_FILE, "NumberPartitioning", NP_ATTRS, "convert_solution", "NumberPartitioning_convert_solution", SOLP, "Problems"),
    _mk(NP_FILE, "NumberPartitioning", NP_ATTRS, "is_solution_valid", "NumberPartitioning_is_solution_valid", SOLP, "Problems",
        skip=NP_SKIP, static={"not_converted": True}, notes=[NOTE_DISPATCH]),
    _mk(NP_FILE, "NumberPartitioning", NP_ATTRS, "is_solution_valid", "NumberPartitioning_is_solution_valid_converted",
        [("solution", "P.PairListRat"), ("spin", "Bool", "False")], "Problems",
        skip=NP_SKIP, static={"not_converted": False}, notes=[NOTE_DISPATCH]),
    # ---- GraphPartitioning
    _mk(GP_FILE, "GraphPartitioning", GP_ATTRS, "to_quso", "GraphPartitioning_to_quso", [("A", "P.OptRat"), ("B", "Rat")],
        "Problems", defaults=True, extra_theorems=["GraphPartitioning_to_quso_default_eq_model"]),
    _mk(GP_FILE, "GraphPartitioning", GP_ATTRS, "convert_solution", "GraphPartitioning_convert_solution", SOLP, "Problems"),
    _mk(GP_FILE, "GraphPartitioning", GP_ATTRS, "is_solution_valid", "GraphPartitioning_is_solution_valid", SOLP, "Problems",
        skip=GP_SKIP, static={"not_converted": True}, notes=[NOTE_DISPATCH]),
    _mk(GP_FILE, "GraphPartitioning", GP_ATTRS, "is_solution_valid", "GraphPartitioning_is_solution_valid_converted",
        [("solution", "P.PairSetVar"), ("spin", "Bool", "False")], "Problems",
        skip=GP_SKIP, static={"not_converted": False}, notes=[NOTE_DISPATCH]),
    # ---- VertexCover
    _mk(VC_FILE, "VertexCover", VC_ATTRS, "to_qubo", "VertexCover_to_qubo", [("A", "Rat"), ("B", "Rat")], "Problems2",
        defaults=True, extra_theorems=["VertexCover_to_qubo_default_eq_model"]),
    _mk(VC_FILE, "VertexCover", VC_ATTRS, "convert_solution", "VertexCover_convert_solution", SOLP, "Problems2"),
    _mk(VC_FILE, "VertexCover", VC_ATTRS, "is_solution_valid", "VertexCover_is_solution_valid", SOLP, "Problems2",
        static={"isinstance(solution, set)": False}, notes=[NOTE_DISPATCH]),
    _mk(VC_FILE, "VertexCover", VC_ATTRS, "is_solution_valid", "VertexCover_is_solution_valid_converted",
        [("solution", "P.SetVar"), ("spin", "Bool", "False")], "Problems2",
        static={"isinstance(solution, set)": True}, notes=[NOTE_DISPATCH]),
    # ---- BILP
    _mk(BILP_FILE, "BILP", BILP_ATTRS, "to_qubo", "BILP_to_qubo", [("A", "P.OptRat"), ("B", "Rat")], "Problems3",
        defaults=True, extra_theorems=["BILP_to_qubo_default_eq_model", "BILP.new_shape"]),
    _mk(BILP_FILE, "BILP", BILP_ATTRS, "convert_solution", "BILP_convert_solution", SOLP, "Problems3"),
    _mk(BILP_FILE, "BILP", BILP_ATTRS, "is_solution_valid", "BILP_is_solution_valid", SOLP, "Problems3",
        static={"isinstance(solution, np.ndarray)": False}, symbolic={BILP_DTYPE: "exact"},
        notes=[NOTE_DISPATCH, "the numpy dtype test `%s` is the Bool parameter `exact` (numbers are exact rationals)" % BILP_DTYPE]),
    _mk(BILP_FILE, "BILP", BILP_ATTRS, "is_solution_valid", "BILP_is_solution_valid_converted",
        [("solution", "P.ListRat"), ("spin", "Bool", "False")], "Problems3",
        static={"isinstance(solution, np.ndarray)": True}, symbolic={BILP_DTYPE: "exact"},
        notes=[NOTE_DISPATCH, "the numpy dtype test is the Bool parameter `exact`"]),
]

ASC_FILE = "benchmarking/_alternating_sectors_chain.py"
ASC_ATTRS = [("_N", "self_N", "Nat"), ("_chain_length", "self_chain_length", "Nat"),
             ("_min_strength", "self_min_strength", "Rat"), ("_max_strength", "self_max_strength", "Rat")]
REGISTRY += [
    _mk(ASC_FILE, "AlternatingSectorsChain", ASC_ATTRS, "to_quso", "AlternatingSectorsChain_to_quso", [("pbc", "Bool")], "Problems4",
        defaults=True, extra_theorems=["AlternatingSectorsChain_to_quso_default_eq_model"], normalize=("helper",),
        notes=["`ZeroDivisionError` of `// self._chain_length` (excluded by `__init__`: chain_length >= 2); the label `N - 1` is read as "
               "a natural number (`__init__`: N >= 1, the hypothesis of the theorem)"]),
]

UNITS = {"Problems": ("SourceProblems.lean", ["Qv.Gen.Source", "Qv.Gen.PreludeProblems"])}


# ------------------------------------------------------------------------------------------------------ replay on the real code
# (harness/gen_search.py: a distinguishing input found by lean/Qv/Gen/Search/Problems*.lean is replayed on the real function and,
# where the property gives a direct oracle — energy identity / feasibility —, on that oracle)
import itertools
from fractions import Fraction as _Fr
from harness import gen_search as _gs


class _Shown(_gs.SatResult):
    """a result printed exactly like the Lean side prints it"""
    def __init__(self, text, value=None):
        self.text, self.value = text, value

    def __str__(self):
        return self.text


def _r(v):
    return '"%s"' % _gs.fs(_Fr(v))


def _rats(l):
    return "[" + ", ".join(_r(v) for v in l) + "]"


def _nats(l):
    return "[" + ", ".join(str(int(v)) for v in l) + "]"


def _poly(D):
    items = sorted((tuple(int(i) for i in k), _Fr(v)) for k, v in D.items())
    return _Shown("[" + ", ".join("[%s, %s]" % (_nats(k), _r(v)) for k, v in items) + "]", dict(items))


def _bool(b):
    return _Shown("true" if b else "false", bool(b))


def _sol(inp):
    items = [(int(i), _Fr(v)) for i, v in inp["solution"]]
    if inp["is_dict"]:
        return dict(items)
    return [v for _, v in items]


def _opt(x):
    return None if x is None else _Fr(x)


def _kw(inp, names):
    return {n: _Fr(inp[n]) for n in names if inp.get(n) is not None}


def _np(inp):
    from qubovert.problems import NumberPartitioning
    return NumberPartitioning([_Fr(s) for s in inp["S"]])


def _gp(inp):
    from qubovert.problems import GraphPartitioning
    p = GraphPartitioning({(u, v): _Fr(w) for u, v, w in inp["edges"]})
    order = list(inp["order"])          # the enumeration of the vertex set is data of the instance
    p._vertex_to_index = {x: i for i, x in enumerate(order)}
    p._index_to_vertex = {i: x for i, x in enumerate(order)}
    return p


def _vc(inp):
    from qubovert.problems import VertexCover
    return VertexCover({(u, v) for u, v in inp["edges"]})


def _bilp(inp):
    from qubovert.problems import BILP
    import numpy as np
    p = BILP([0] * len(inp["c"]), [[0] * len(inp["c"])] * len(inp["S"]), [0] * len(inp["b"]))
    ints = all(_Fr(v).denominator == 1 for v in inp["c"] + inp["b"] + [x for r in inp["S"] for x in r])
    conv = (lambda v: int(_Fr(v))) if ints else (lambda v: _Fr(v))
    p._c = np.array([conv(v) for v in inp["c"]], dtype=None if ints else object)
    p._S = np.array([[conv(v) for v in r] for r in inp["S"]], dtype=None if ints else object).reshape(len(inp["S"]), len(inp["c"]))
    p._b = np.array([conv(v) for v in inp["b"]], dtype=None if ints else object)
    return p


def _value(D, x):
    return sum((v * _gs.prod(_Fr(x[i]) for i in k) for k, v in D.items()), _Fr(0))


def _energy_oracle(dom, nvars, want):
    def oracle(inp, got, names):
        n = nvars(inp)
        if n > 10:
            return None, "too many variables to enumerate"
        for t in itertools.product(dom, repeat=n):
            e, w = _value(got.value, t), want(inp, t)
            if e != w:
                return False, "at %s the returned matrix has energy %s, the defining penalty form is %s" % (list(t), _gs.fs(e), _gs.fs(w))
        return True, "energy identity holds on all %d assignments" % len(dom) ** n
    return oracle


def _np_form(inp, z):
    A = _Fr(inp["A"]) if inp.get("A") is not None else 1
    return A * sum(_Fr(s) * zi for s, zi in zip(inp["S"], z)) ** 2


def _vc_verts(inp):
    return sorted({y for e in inp["edges"] for y in e})


def _vc_form(inp, x):
    A, B = (_Fr(inp["A"]), _Fr(inp["B"])) if inp.get("A") is not None else (2, 1)
    ix = {v: i for i, v in enumerate(_vc_verts(inp))}
    return B * sum(x) + A * sum((1 - x[ix[u]]) * (1 - x[ix[v]]) for u, v in inp["edges"])


def _bilp_form(inp, x):
    B = _Fr(inp["B"]) if inp.get("B") is not None else 1
    A = _Fr(inp["A"]) if (inp.get("A") is not None and inp.get("B") is not None) else B * len(inp["c"])
    return B * sum(_Fr(c) * xi for c, xi in zip(inp["c"], x)) + A * sum(
        (_Fr(b) - sum(_Fr(s) * xi for s, xi in zip(row, x))) ** 2 for row, b in zip(inp["S"], inp["b"]))


def _gp_form(inp, z):
    B = _Fr(inp["B"]) if inp.get("B") is not None else 1
    edges = [(u, v, _Fr(w)) for u, v, w in inp["edges"]]
    if inp.get("A") is not None and inp.get("B") is not None:
        A = _Fr(inp["A"])
    else:
        deg = {}
        for u, v, _ in edges:
            for q in (u, v):
                deg[q] = deg.get(q, 0) + 1
        A = _Fr(min(2 * max(deg.values(), default=0), len(inp["order"]))) * B / 8
    ix = {v: i for i, v in enumerate(inp["order"])}
    return A * sum(z) ** 2 + B * sum(w * (1 - z[ix[u]] * z[ix[v]]) / 2 for u, v, w in edges if u != v)


def _call_to(make, meth, names):
    def real(inp):
        p = make(inp)
        if any(inp.get(n) is None for n in names[-1:]):        # the last weight omitted: the call with the defaults
            return _poly(getattr(p, meth)())
        return _poly(getattr(p, meth)(*[_opt(inp.get(n)) for n in names]))
    return real


def _valid_oracle(feasible):
    def oracle(inp, got, names):
        w = feasible(inp)
        if w is None:
            return None, "outside the domain of the property (not an assignment of the formulation's variables)"
        return (got.value == w), "is_solution_valid returned %s, the solution is %s" % (got.value, "feasible" if w else "infeasible")
    return oracle


def _bits(inp, n):
    """the boolean assignment a solver output over exactly the labels 0..n-1 stands for; None when it is not one"""
    items = sorted((int(i), _Fr(v)) for i, v in inp["solution"])
    if [i for i, _ in items] != list(range(n)):
        return None
    vals = [v for _, v in items]
    if all(v in (0, 1) for v in vals) and not (all(v == 1 for v in vals) and inp["spin"]):
        return vals
    if all(v in (1, -1) for v in vals):
        return [(1 - v) / 2 for v in vals]
    return None


def _np_feasible(inp):
    items = [(int(i), _Fr(v)) for i, v in inp["solution"]]
    if sorted(i for i, _ in items) != list(range(len(inp["S"]))) or not all(v in (0, 1, -1) for _, v in items):
        return None
    return sum(_Fr(inp["S"][i]) for i, v in items if v == 1) == sum(_Fr(inp["S"][i]) for i, v in items if v != 1)


def _vc_feasible(inp):
    vs = _vc_verts(inp)
    x = _bits(inp, len(vs))
    if x is None:
        return None
    chosen = {vs[i] for i in range(len(vs)) if x[i]}
    return all(u in chosen or v in chosen for u, v in inp["edges"])


def _bilp_feasible(inp):
    x = _bits(inp, len(inp["c"]))
    if x is None or not inp.get("exact", True):
        return None
    return all(sum(_Fr(s) * xi for s, xi in zip(row, x)) == _Fr(b) for row, b in zip(inp["S"], inp["b"]))


def _pair(a, b, f):
    return _Shown("[%s, %s]" % (f(a), f(b)))


REAL = {
    "NumberPartitioning_to_quso": ("C10", _call_to(_np, "to_quso", ("A",)), ("S", "A"),
                                   _energy_oracle((1, -1), lambda i: len(i["S"]), _np_form)),
    "NumberPartitioning_convert_solution": ("C10", lambda i: _pair(*_np(i).convert_solution(_sol(i), i["spin"]), f=_rats),
                                            ("S", "solution", "is_dict", "spin"), None),
    "NumberPartitioning_is_solution_valid": ("C10", lambda i: _bool(_np(i).is_solution_valid(_sol(i), i["spin"])),
                                             ("S", "solution", "is_dict", "spin"), _valid_oracle(_np_feasible)),
    "NumberPartitioning_is_solution_valid_converted": (
        "C10", lambda i: _bool(_np(dict(S=[1])).is_solution_valid(([_Fr(v) for v in i["partition1"]], [_Fr(v) for v in i["partition2"]]))),
        ("partition1", "partition2"),
        _valid_oracle(lambda i: sum(_Fr(v) for v in i["partition1"]) == sum(_Fr(v) for v in i["partition2"]))),
    "GraphPartitioning_to_quso": ("C10", _call_to(_gp, "to_quso", ("A", "B")), ("edges", "order", "A", "B"),
                                  _energy_oracle((1, -1), lambda i: len(i["order"]), _gp_form)),
    "GraphPartitioning_convert_solution": ("C10", lambda i: _pair(*[sorted(s) for s in _gp(i).convert_solution(_sol(i), i["spin"])], f=_nats),
                                           ("edges", "order", "solution", "is_dict", "spin"), None),
    "GraphPartitioning_is_solution_valid": ("C10", lambda i: _bool(_gp(i).is_solution_valid(_sol(i), i["spin"])),
                                            ("edges", "order", "solution", "is_dict", "spin"), None),
    "GraphPartitioning_is_solution_valid_converted": (
        "C10", lambda i: _bool(_gp(dict(edges=[], order=[])).is_solution_valid((set(i["partition1"]), set(i["partition2"])))),
        ("partition1", "partition2"), _valid_oracle(lambda i: len(set(i["partition1"])) == len(set(i["partition2"])))),
    "VertexCover_to_qubo": ("C10", _call_to(_vc, "to_qubo", ("A", "B")), ("edges", "A", "B"),
                            _energy_oracle((0, 1), lambda i: len(_vc_verts(i)), _vc_form)),
    "VertexCover_convert_solution": ("C10", lambda i: _Shown(_nats(sorted(_vc(i).convert_solution(_sol(i), i["spin"])))),
                                     ("edges", "solution", "is_dict", "spin"), None),
    "VertexCover_is_solution_valid": ("C10", lambda i: _bool(_vc(i).is_solution_valid(_sol(i), i["spin"])),
                                      ("edges", "solution", "is_dict", "spin"), _valid_oracle(_vc_feasible)),
    "VertexCover_is_solution_valid_converted": (
        "C10", lambda i: _bool(_vc(i).is_solution_valid(set(i["cover"]))), ("edges", "cover"),
        _valid_oracle(lambda i: all(u in i["cover"] or v in i["cover"] for u, v in i["edges"]))),
    "BILP_to_qubo": ("C10", _call_to(_bilp, "to_qubo", ("A", "B")), ("c", "S", "b", "A", "B"),
                     _energy_oracle((0, 1), lambda i: len(i["c"]), _bilp_form)),
    "BILP_convert_solution": ("C10", lambda i: _Shown(_rats(_bilp(i).convert_solution(_sol(i), i["spin"]))),
                              ("c", "S", "b", "solution", "is_dict", "spin"), None),
    "BILP_is_solution_valid": ("C10", lambda i: _bool(_bilp(i).is_solution_valid(_sol(i), i["spin"])) if _bilp_exact(i) else _ni(),
                               ("c", "S", "b", "solution", "is_dict", "spin", "exact"), _valid_oracle(_bilp_feasible)),
    "BILP_is_solution_valid_converted": (
        "C10", lambda i: _bool(_bilp(i).is_solution_valid(__import__("numpy").array([int(_Fr(v)) for v in i["x"]]))) if _bilp_exact(i) else _ni(),
        ("c", "S", "b", "x", "exact"),
        _valid_oracle(lambda i: all(sum(_Fr(s) * _Fr(xi) for s, xi in zip(row, i["x"])) == _Fr(b) for row, b in zip(i["S"], i["b"])) if i["exact"] else None)),
}


def _asc_real(i):
    from qubovert.problems import AlternatingSectorsChain
    p = AlternatingSectorsChain(i["N"], i["chain_length"], _Fr(i["min_strength"]), _Fr(i["max_strength"]))
    return _poly(p.to_quso() if i.get("pbc") is None else p.to_quso(i["pbc"]))


def _asc_form(i, z):
    """C10: <ASC>z = -sum_q s_q z_q z_{q+1}, s_q the strength of the sector containing q"""
    N, l = i["N"], i["chain_length"]
    s = lambda q: _Fr(i["min_strength"]) if (q // l) % 2 else _Fr(i["max_strength"])   # noqa: E731
    e = -sum(s(q) * z[q] * z[q + 1] for q in range(N - 1))
    if i.get("pbc"):
        e -= s(N - 1) * z[N - 1] * z[0]
    return e


def _asc_oracle(i, got, names):
    if i.get("pbc") and i["N"] <= 2:
        return None, "with pbc and N <= 2 the closing bond falls on an existing key (or on the constant): outside the energy identity"
    return _energy_oracle((1, -1), lambda j: j["N"], _asc_form)(i, got, names)


REAL["AlternatingSectorsChain_to_quso"] = ("C10", _asc_real, ("N", "chain_length", "min_strength", "max_strength", "pbc"), _asc_oracle)


def _bilp_exact(i):
    """the real arrays have an integer dtype exactly when all data are integers: only then is `exact = true` the real path"""
    ints = all(_Fr(v).denominator == 1 for v in i["c"] + i["b"] + [x for r in i["S"] for x in r])
    return ints == bool(i["exact"]) and ints


def _ni():
    raise NotImplementedError("the float / allclose path of BILP.is_solution_valid is not replayed")
