"""Tie extension `reduce2` (second wave; C01, C08, C14, C16): the WHOLE of `PUBO._reduce_degree`.

Continues harness/tie_ext/reduce.py, which tied the inner parts (`rd_rekey`, `rd_scan`, `rd_choose`, `rd_step`, `rd_term`).
New parts of the same function (all tagged `rd2`):

  rd2_prologue   `if deg is not None and deg < 2: raise ValueError` … the `lam` wrapping (None -> `PUBO.default_lam`, callable ->
                 itself, anything else -> the constant function `def func_lam(v): return lam`)
  rd2_pairs      the `pairs = {…}` set comprehension (user hints mapped through `self._mapping`, unknown labels -> `()`)
  rd2_count      the body of `for k, v in self.items():` — mapped key, `mapped_self` merge, the pair counts (the nested
                 `range` loops with `key[i]`, or `for pair in combinations(key, 2)`)
  rd2_whole      the whole function: prologue, hints, counting loop, `ancilla = self.num_binary_variables`,
                 `reductions = {}`, the loop over `mapped_self.items()` (calling `rd_term`), value = `D` at the end

Rules added to `reduce.FnExt` (one per construct; everything else is still rejected):
  markers      a part may be delimited by `<assign x>` (the one assignment statement of the function that binds `x`) or
               `<store d>` (the one statement `d[…] = e` / `d[…] op= e`), `<first>` (the first statement of the function);
               `exclusive=True`: the statements after the marker; `until=m`: up to, not including, the statement m
  if           `if X is not None and B: S else: E` == `if X is not None: (if B: S else: E) else: E` (X narrowed for B);
               `X is None` / `X is not None` on a name whose static type is not optional (narrowed before) is decided;
               `if callable(L): S else: E` for a local L declared `Rd2LamArg` narrows L to a function in S and to a number
               in E (match on the prelude's `PyRd2Lam`)
  def          `def f(v): return e` (one plain parameter, registry `local_defs`) -> a local total function Rat -> Rat
  assignment   `a, b = e1, e2` with targets typed in `local_types` -> element by element (the right-hand sides must not read
               the targets); `{}` / `defaultdict(int)` where a dict local is expected -> the empty association list
  names        `C.f` for the enclosing class `C` and a registered static method `f : Rat -> Rat` -> that generated function
  sets         `{e for p in s}` with a key-valued `e` that may raise -> pyRMapM (a set of keys is a list of keys; only `in`
               is used on it, see reduce.py); `X or {}` for an optional set X -> X's elements, none for `None`
  sequences    `tuple(sorted(e for i in k))` with a raising label-valued `e` -> pyRMapM + pySortedLabels;
               `k[i]` for a natural number local `i` -> pyRd2KeyIdx (IndexError); `range(a, b)` on natural numbers ->
               pyRd2Range; `combinations(k, 2)` (`from itertools import combinations`) -> pyRd2Combinations2
  self         `self.items()` where `items` is listed in `self_attrs` -> the parameter of that name
  solutions    `{k: v for k, v in d.items() if c}` on a solution dict (label -> number, distinct keys) -> List.filter;
               `str(k)[:3] == "__a"` / `!=` on a label -> pyRd2IsAncilla (the label convention of DESIGN.md §3.1);
               a `@classmethod` registered `classmethod=True` (its `cls` is opaque)
"""
import ast
from .. import translate as T
from ..translate import (Fn, Untranslatable, Simple, TTuple, TOpt, TList, res, lean_ty, same, coerce, mangle,
                         KEY, VAR, NAT, RAT, BOOL, PROP, POLY, OPAQUE)
from . import reduce as R
from .reduce import TDict, TKeySet, MATRIX, LAMFN, MAPPING

LAMARG = Simple("Rd2Lam", "PyRd2Lam")       # a `lam` argument that is not None: a callable or a number
SOLD = lambda: TList(TTuple([VAR, RAT]))      # noqa: E731   a solution dict label -> value, in insertion order
T.PARAM_TYPES.update({
    "Rd2LamArg": lambda: TOpt(LAMARG), "Rd2OptKeys": lambda: TOpt(TList(KEY)), "Rd2Sol": SOLD,
})


def stmt_matches2(marker_src, node):
    src = marker_src.strip()
    if src.startswith("<assign ") and src.endswith(">"):
        name = src[len("<assign "):-1].strip()
        if not isinstance(node, ast.Assign) or len(node.targets) != 1:
            return False
        t = node.targets[0]
        names = [t.id] if isinstance(t, ast.Name) else \
            [x.id for x in t.elts if isinstance(x, ast.Name)] if isinstance(t, ast.Tuple) else []
        return name in names
    if src.startswith("<store ") and src.endswith(">"):
        name = src[len("<store "):-1].strip()
        t = node.targets[0] if isinstance(node, ast.Assign) and len(node.targets) == 1 else \
            node.target if isinstance(node, ast.AugAssign) else None
        return isinstance(t, ast.Subscript) and isinstance(t.value, ast.Name) and t.value.id == name
    return R.stmt_matches(marker_src, node)


def locate_range2(fnode, rng):
    """as reduce.locate_range, with the additional marker kinds of stmt_matches2"""
    if "body_of" in rng:
        hits = [s for b in R.blocks_of(fnode) for s in b if stmt_matches2(rng["body_of"], s)]
        if len(hits) != 1:
            raise Untranslatable("loop %r not found exactly once" % rng["body_of"], fnode)
        return list(hits[0].body)
    hits = []
    if rng["first"] == "<first>":         # the first statement of the function (after its docstring)
        b = fnode.body
        i = 1 if b and isinstance(b[0], ast.Expr) and isinstance(b[0].value, ast.Constant) \
            and isinstance(b[0].value.value, str) else 0
        if i < len(b):
            hits.append((b, i))
    else:
        for b in R.blocks_of(fnode):
            for i, s in enumerate(b):
                if stmt_matches2(rng["first"], s):
                    hits.append((b, i))
    if len(hits) != 1:
        raise Untranslatable("first statement %r of the part not found exactly once" % rng["first"], fnode)
    b, i = hits[0]
    if "until" in rng:                    # up to (not including) the statement matching `until`
        js = [j for j in range(i, len(b)) if stmt_matches2(rng["until"], b[j])]
        if len(js) != 1 or js[0] == i:
            raise Untranslatable("statement %r ending the part not found exactly once after the first" % rng["until"], fnode)
        return list(b[i:js[0]])
    if rng.get("exclusive"):          # the statements after the marker, to the end of its block
        return list(b[i + 1:])
    if "last" not in rng:
        return list(b[i:])
    js = [j for j in range(i, len(b)) if stmt_matches2(rng["last"], b[j])]
    if len(js) != 1:
        raise Untranslatable("last statement %r of the part not found exactly once after the first" % rng["last"], fnode)
    return list(b[i:js[0] + 1])


class FnExt(R.FnExt):

    def __init__(self, entry, module_src, fnode, done):
        Fn.__init__(self, entry, module_src, fnode, done)
        self.loop_stack = []
        self.part_nodes = None
        if "range" in entry:
            stmts = locate_range2(fnode, entry["range"])
            self.raises = self.monadic or bool(entry.get("may_raise")) or any(
                isinstance(n, ast.Raise) for b in stmts for n in ast.walk(b))

    # ---- which statements

    def check_signature(self):
        if self.e.get("classmethod"):
            a = self.fnode.args
            if [ast.dump(d) for d in self.fnode.decorator_list] != [ast.dump(ast.Name(id="classmethod", ctx=ast.Load()))] \
                    or "classmethod" in self.module_names():
                raise Untranslatable("not a plain @classmethod", self.fnode)
            if a.kwarg or a.vararg or a.posonlyargs or a.kwonlyargs or a.defaults \
                    or [x.arg for x in a.args] != [p for p, _ in self.e["params"]]:
                raise Untranslatable("signature changed: parameters %s" % [x.arg for x in a.args], self.fnode)
            return
        return R.FnExt.check_signature(self)

    def body_statements(self):
        if "range" in self.e:
            return locate_range2(self.fnode, self.e["range"])
        return Fn.body_statements(self)

    def parts(self):
        if self.part_nodes is None:
            self.part_nodes = []
            for pe in R.REGISTRY + REGISTRY:
                if "range" not in pe or pe["file"] != self.e["file"] or pe["func"] != self.e["func"] \
                        or pe.get("lean") not in self.e.get("calls_parts", []):
                    continue
                info = self.done.get("\0" + pe["lean"])
                if info is None:
                    raise Untranslatable("part %s is registered after its caller" % pe["lean"], self.fnode)
                if info["status"] != "translated":
                    raise Untranslatable("part %s is itself %s" % (pe["lean"], info["status"]), self.fnode)
                self.part_nodes.append((info, pe, locate_range2(self.fnode, pe["range"])))
        return self.part_nodes

    # ---- statements

    def stmt(self, stmts, env, k, ind, flow):
        s, rest = stmts[0], stmts[1:]
        pad = " " * ind
        pc = self.part_call(stmts, env, k, ind, flow)
        if pc is not None:
            return pc
        if isinstance(s, ast.FunctionDef):
            return self.local_fn(s, env, lambda env2: self.block(rest, env2, k, ind, flow), pad)
        if isinstance(s, ast.Assign) and len(s.targets) == 1 and isinstance(s.targets[0], ast.Tuple) \
                and isinstance(s.value, ast.Tuple) and len(s.value.elts) == len(s.targets[0].elts) \
                and all(isinstance(x, ast.Name) for x in s.targets[0].elts) \
                and any(x.id in self.e.get("local_types", {}) for x in s.targets[0].elts):
            names = [x.id for x in s.targets[0].elts]
            if len(set(names)) != len(names):
                raise Untranslatable("a name twice among the targets", s)
            read = {n.id for v in s.value.elts for n in ast.walk(v) if isinstance(n, ast.Name)}
            if read & set(names):
                raise Untranslatable("tuple assignment whose right-hand side reads its targets", s)
            seq = [ast.copy_location(ast.Assign(targets=[x], value=v, lineno=s.lineno), s)
                   for x, v in zip(s.targets[0].elts, s.value.elts)]
            return self.block(seq + list(rest), env, k, ind, flow)
        return R.FnExt.stmt(self, stmts, env, k, ind, flow)

    def local_fn(self, s, env, cont, pad):
        """`def f(v): return e` -> `let f : Rat → Rat := fun v => e` (e pure)"""
        a = s.args
        if self.e.get("local_defs", {}).get(s.name) != ("Rat", "Rat"):
            raise Untranslatable("nested function %s the registry does not expect" % s.name, s)
        if len(a.args) != 1 or a.vararg or a.kwarg or a.kwonlyargs or a.defaults or a.posonlyargs or s.decorator_list:
            raise Untranslatable("nested function with other than one plain parameter", s)
        body = [x for x in s.body if not (isinstance(x, ast.Expr) and isinstance(x.value, ast.Constant)
                                          and isinstance(x.value.value, str))]
        if len(body) != 1 or not isinstance(body[0], ast.Return) or body[0].value is None:
            raise Untranslatable("nested function whose body is not a single return", s)
        p = a.args[0].arg
        env2 = dict(env)
        env2[p] = RAT
        e, te = self.pure_only(lambda: self.expr(body[0].value, env2), "a nested function", s)
        env3 = dict(env)
        env3[s.name] = LAMFN
        return "let %s : %s := fun (%s : Rat) => %s;\n%s%s" % (
            mangle(s.name), lean_ty(LAMFN), mangle(p), coerce(e, te, RAT, s), pad, cont(env3))

    def callable_test(self, test, env):
        if isinstance(test, ast.Call) and isinstance(test.func, ast.Name) and test.func.id == "callable" \
                and len(test.args) == 1 and not test.keywords and isinstance(test.args[0], ast.Name) \
                and test.args[0].id in env and res(env[test.args[0].id]) is LAMARG and "callable" not in env:
            if "callable" in self.module_names():
                raise Untranslatable("builtin callable is rebound in this module", test)
            return test.args[0].id
        return None

    def if_(self, test, body, orelse, env, cont, ind, flow, node):
        pad = " " * ind
        if isinstance(test, ast.BoolOp) and isinstance(test.op, ast.And):
            nar = self.narrowing(test.values[0], env)
            if nar and nar[2]:
                # `if X is not None and B: S else: E`  ==  `if X is not None: (if B: S else: E) else: E`
                r = test.values[1] if len(test.values) == 2 else ast.BoolOp(op=ast.And(), values=test.values[1:])
                inner = ast.copy_location(ast.If(test=r, body=body, orelse=orelse, lineno=node.lineno), node)
                return self.if_(test.values[0], [inner], orelse, env, cont, ind, flow, node)
        if isinstance(test, ast.Compare) and len(test.ops) == 1 and isinstance(test.ops[0], (ast.Is, ast.IsNot)) \
                and isinstance(test.comparators[0], ast.Constant) and test.comparators[0].value is None \
                and isinstance(test.left, ast.Name) and test.left.id in env \
                and isinstance(res(env[test.left.id]), Simple) and res(env[test.left.id]) is not OPAQUE:
            # a name whose static type is not optional (narrowed by an enclosing test) is not None
            return self.block(body if isinstance(test.ops[0], ast.IsNot) else orelse, env, cont, ind, flow)
        x = self.callable_test(test, env)
        if x is not None:
            env_f, env_n = dict(env), dict(env)
            env_f[x], env_n[x] = LAMFN, RAT
            a = self.block(body, env_f, cont, ind + 4, flow)
            b = self.block(orelse, env_n, cont, ind + 4, flow)
            return ("(match %s with\n%s| PyRd2Lam.fn _py_fn =>\n%s    let %s : (Rat → Rat) := _py_fn;\n%s    %s\n"
                    "%s| PyRd2Lam.num _py_num =>\n%s    let %s : Rat := _py_num;\n%s    %s)" % (
                        mangle(x), pad, pad, mangle(x), pad, a, pad, pad, mangle(x), pad, b))
        return R.FnExt.if_(self, test, body, orelse, env, cont, ind, flow, node)

    # ---- expressions

    def mlambda(self, target, et, elt, env, want, node):
        """`fun it => <elt>` as an action that may raise; the value is coerced to `want`"""
        lets, env2 = self.bind_target(target, et, "_py_it", env)
        (e, te), frame = self.framed(lambda: self.expr(elt, env2, want))
        return "(fun (_py_it : %s) => %s%s)" % (
            lean_ty(et), lets, self.wrap(frame, "(Except.ok %s)" % coerce(e, te, want, node), "      "))

    def enclosing_class(self):
        return self.e["func"].split(".")[0] if "." in self.e["func"] else None

    def expr(self, n, env, expected=None):
        exp = res(expected) if expected is not None else None
        if isinstance(n, ast.Dict) and not n.keys and isinstance(exp, TDict):
            return "[]", exp
        if isinstance(n, ast.Call) and isinstance(n.func, ast.Name) and n.func.id == "defaultdict" and isinstance(exp, TDict) \
                and exp.default and len(n.args) == 1 and not n.keywords and isinstance(n.args[0], ast.Name) \
                and n.args[0].id == "int" and "defaultdict" not in env and "int" not in env:
            self.need_import("collections", "defaultdict", n)
            if "int" in self.module_names():
                raise Untranslatable("builtin int is rebound in this module", n)
            return "[]", exp
        if isinstance(n, ast.Attribute) and isinstance(n.value, ast.Name) and n.value.id == self.enclosing_class() \
                and n.value.id not in env and "%s.%s" % (n.value.id, n.attr) in self.done:
            # C.f inside a method of class C: the registered static method
            cls = n.value.id
            tree = ast.parse(self.src)
            if sum(1 for s in tree.body if isinstance(s, ast.ClassDef) and s.name == cls) != 1 \
                    or sum(1 for x in self.module_names() if x == cls) != 1:
                raise Untranslatable("%s is not the class defined once in this module" % cls, n)
            callee = self.done["%s.%s" % (cls, n.attr)]
            if callee["status"] != "translated" or callee["file"] != self.e["file"]:
                raise Untranslatable("%s.%s is %s" % (cls, n.attr, callee["status"]), n)
            f = T.find_function(tree, "%s.%s" % (cls, n.attr))
            if f is None or [ast.dump(d) for d in f.decorator_list] != [ast.dump(ast.Name(id="staticmethod", ctx=ast.Load()))]:
                raise Untranslatable("%s.%s is not a static method" % (cls, n.attr), n)
            if callee["raises"] or len(callee["param_tys"]) != 1 or res(callee["param_tys"][0]) is not RAT \
                    or res(callee["ret_ty"]) is not RAT:
                raise Untranslatable("%s.%s is not a total function Rat -> Rat" % (cls, n.attr), n)
            return callee["lean"], LAMFN
        if isinstance(n, ast.BoolOp) and isinstance(n.op, ast.Or) and len(n.values) == 2 \
                and isinstance(n.values[0], ast.Name) and n.values[0].id in env \
                and isinstance(res(env[n.values[0].id]), TOpt) and isinstance(res(res(env[n.values[0].id]).elt), TList) \
                and isinstance(n.values[1], ast.Dict) and not n.values[1].keys:
            # `X or {}`: X when it is a non-empty set, otherwise the empty dict (both iterate as no elements)
            t = res(res(env[n.values[0].id]).elt)
            return "(match %s with | none => [] | some _py_some => _py_some)" % mangle(n.values[0].id), t
        if isinstance(n, ast.DictComp):
            # `{k: v for k, v in d.items() if c}` on a dict d (distinct keys): the entries satisfying c, in order
            g = self.one_generator(n)
            src, et = self.iter_source(g.iter, env)
            if not (isinstance(g.target, ast.Tuple) and len(g.target.elts) == 2
                    and all(isinstance(x, ast.Name) for x in g.target.elts)
                    and isinstance(n.key, ast.Name) and isinstance(n.value, ast.Name)
                    and [n.key.id, n.value.id] == [x.id for x in g.target.elts] and n.key.id != n.value.id
                    and isinstance(res(et), TTuple) and len(res(et).elts) == 2 and res(res(et).elts[0]) is VAR):
                raise Untranslatable("dict comprehension other than {k: v for k, v in d.items() if …}", n)
            lets, env2 = self.bind_target(g.target, et, "_py_it", env)
            if not g.ifs:
                return src, TList(et)
            c = " ∧ ".join(self.pure_only(lambda i=i: self.cond(i, env2), "a comprehension", n) for i in g.ifs)
            return "(List.filter (fun (_py_it : %s) => %sdecide %s) %s)" % (lean_ty(et), lets, c, src), TList(et)
        if isinstance(n, ast.SetComp):
            g = self.one_generator(n)
            if g.ifs:
                raise Untranslatable("filtered set comprehension", n)
            src, et = self.iter_source(g.iter, env)
            fn = self.mlambda(g.target, et, n.elt, env, KEY, n)
            name, _ = self.bind("(pyRMapM %s %s)" % (fn, src), TKeySet(), n)
            return name, TKeySet()
        return R.FnExt.expr(self, n, env, expected)

    def call(self, n, env):
        f = n.func
        if isinstance(f, ast.Name) and f.id == "tuple" and "tuple" not in env and len(n.args) == 1 and not n.keywords \
                and isinstance(n.args[0], ast.Call) and isinstance(n.args[0].func, ast.Name) \
                and n.args[0].func.id == "sorted" and "sorted" not in env and len(n.args[0].args) == 1 \
                and not n.args[0].keywords and isinstance(n.args[0].args[0], ast.GeneratorExp):
            if {"tuple", "sorted"} & self.module_names():
                raise Untranslatable("builtin tuple / sorted is rebound in this module", n)
            g = n.args[0].args[0]
            gen = self.one_generator(g)
            if gen.ifs:
                raise Untranslatable("filtered generator", n)
            src, et = self.iter_source(gen.iter, env)
            fn = self.mlambda(gen.target, et, g.elt, env, VAR, n)
            name, _ = self.bind("(pyRMapM %s %s)" % (fn, src), TList(VAR), n)
            return "(pySortedLabels %s)" % name, KEY
        return R.FnExt.call(self, n, env)

    def compare(self, n, env):
        # `str(k)[:3] == "__a"` / `!=` for a label k: the ancilla-label test (DESIGN.md §3.1)
        l = n.left
        if len(n.ops) == 1 and isinstance(n.ops[0], (ast.Eq, ast.NotEq)) and isinstance(n.comparators[0], ast.Constant) \
                and n.comparators[0].value == "__a" and isinstance(l, ast.Subscript) and isinstance(l.slice, ast.Slice) \
                and l.slice.lower is None and l.slice.step is None and isinstance(l.slice.upper, ast.Constant) \
                and l.slice.upper.value == 3 and not isinstance(l.slice.upper.value, bool) \
                and isinstance(l.value, ast.Call) and isinstance(l.value.func, ast.Name) and l.value.func.id == "str" \
                and len(l.value.args) == 1 and not l.value.keywords and "str" not in env:
            if "str" in self.module_names():
                raise Untranslatable("builtin str is rebound in this module", n)
            k, tk = self.expr(l.value.args[0], env)
            if res(tk) is not VAR:
                raise Untranslatable("str(…)[:3] of something that is not a label", n)
            return "(pyRd2IsAncilla %s = %s)" % (k, "true" if isinstance(n.ops[0], ast.Eq) else "false")
        return R.FnExt.compare(self, n, env)

    def subscript(self, n, env):
        if isinstance(n.value, ast.Name) and n.value.id in env and res(env[n.value.id]) is KEY \
                and isinstance(n.slice, ast.Name) and n.slice.id in env and res(env[n.slice.id]) is NAT:
            return self.bind("(pyRd2KeyIdx %s %s)" % (mangle(n.value.id), mangle(n.slice.id)), VAR, n)
        return R.FnExt.subscript(self, n, env)

    def iter_source(self, n, env):
        if isinstance(n, ast.Call) and isinstance(n.func, ast.Attribute) and n.func.attr == "items" and not n.args \
                and not n.keywords and isinstance(n.func.value, ast.Name) and n.func.value.id == "self" \
                and "items" in self.e.get("self_attrs", {}):
            p = self.e["self_attrs"]["items"]
            if p not in env or res(env[p]) is not POLY:
                raise Untranslatable("registry: attribute parameter %s is not declared as the items" % p, n)
            return mangle(p), TTuple([KEY, RAT])
        if isinstance(n, ast.Call) and isinstance(n.func, ast.Attribute) and n.func.attr == "items" and not n.args \
                and not n.keywords and isinstance(n.func.value, ast.Name) and n.func.value.id in env \
                and same(env[n.func.value.id], SOLD()):
            return mangle(n.func.value.id), TTuple([VAR, RAT])
        if isinstance(n, ast.Call) and isinstance(n.func, ast.Name) and n.func.id == "range" and len(n.args) == 2 \
                and not n.keywords and "range" not in env:
            if "range" in self.module_names():
                raise Untranslatable("builtin range is rebound in this module", n)
            a, ta = self.expr(n.args[0], env)
            b, tb = self.expr(n.args[1], env)
            for t in (ta, tb):
                if isinstance(res(t), T.TV):
                    res(t).ref = NAT
                if res(t) is not NAT:
                    raise Untranslatable("range(a, b) on something that is not a natural number", n)
            return "(pyRd2Range %s %s)" % (a, b), NAT
        if isinstance(n, ast.Call) and isinstance(n.func, ast.Name) and n.func.id == "combinations" and len(n.args) == 2 \
                and not n.keywords and "combinations" not in env and isinstance(n.args[1], ast.Constant) \
                and n.args[1].value == 2 and not isinstance(n.args[1].value, bool):
            self.need_import("itertools", "combinations", n)
            a, ta = self.expr(n.args[0], env)
            if res(ta) is not KEY:
                raise Untranslatable("combinations of a %s" % lean_ty(ta), n)
            return "(pyRd2Combinations2 %s)" % a, KEY
        return R.FnExt.iter_source(self, n, env)


# ------------------------------------------------------------------------------------------------------- registry

PUBO_PY = "qubovert/_pubo.py"
RD2 = dict(file=PUBO_PY, func="PUBO._reduce_degree", unit="Reduce2", group="Reduce2", params=[])
SELF_NOTE = "`self` is read only through `self._mapping`, `self.items()`, `self.num_binary_variables`, `self.degree`: these are " \
            "parameters (the bookkeeping state of the object, refreshed or stale: C14)"

REGISTRY = [
    # (3) the prologue: the degree check, `deg = None`, the wrapping of `lam`
    dict(RD2, lean="rd2_prologue", props=["C01", "C08", "C16"], after="<the first statement>",
         range=dict(first="<first>", until="<assign pairs>"),
         locals=[("deg", "OptNat"), ("lam", "Rd2LamArg"), ("degree", "Nat")], self_attrs={"degree": "degree"},
         local_defs={"func_lam": ("Rat", "Rat")}, loop_state=[("deg", "Nat"), ("func_lam", "LamFn")],
         not_translated=["`deg` is `None` or a natural number (a negative `deg` is outside the model); `self.degree` is the "
                         "parameter `degree` (the `-inf` of a model without terms is passed as 0); `lam` is `None`, a callable "
                         "(a total function on numbers) or a number (prelude PyRd2Lam): symbols are C16's own model"]),
    # (3) the user's pair hints, mapped
    dict(RD2, lean="rd2_pairs", props=["C01", "C08"], after="pairs = {…}", monadic=True,
         range=dict(first="<assign pairs>", last="<assign pairs>"),
         locals=[("pairs", "Rd2OptKeys"), ("mapping", "Mapping")], self_attrs={"_mapping": "mapping"},
         loop_state=[("pairs", "KeySet")],
         not_translated=["`pairs` is `None` or a set of tuples of labels, given as the list of its elements in iteration "
                         "order (the result is only tested with `in`)"]),
    # (1) the pair counts of one mapped key: every pair (key[i], key[j]), i < j, once
    dict(RD2, lean="rd2_freq", props=["C01", "C08"], after="mapped_self[key] = …", monadic=True,
         range=dict(first="<store mapped_self>", exclusive=True),
         locals=[("key", "Key"), ("pair_frequencies", "FreqDict")], loop_state=[("pair_frequencies", "FreqDict")]),
    # (1) one term of `self`: mapped key, merge into `mapped_self`, pair counts
    dict(RD2, lean="rd2_count", props=["C01", "C08", "C14"], after="for k, v in self.items():", monadic=True,
         range=dict(body_of="for k, v in self.items():"), calls_parts=["rd2_freq"],
         locals=[("k", "Key"), ("v", "Rat"), ("mapping", "Mapping"), ("mapped_self", "PlainDict"),
                 ("pair_frequencies", "FreqDict")], self_attrs={"_mapping": "mapping"},
         loop_state=[("mapped_self", "PlainDict"), ("pair_frequencies", "FreqDict")]),
    # (2) the whole function
    dict(RD2, lean="rd2_whole", props=["C01", "C08", "C14", "C16"], monadic=True,
         extra_theorems=["rd2_whole_eq_reduceDegree", "rd2_prologue_wraps_constant"],
         params=[("self", "Opaque"), ("D", "Matrix"), ("deg", "OptNat"), ("lam", "Rd2LamArg"), ("pairs", "Rd2OptKeys")],
         locals=[("mapping", "Mapping"), ("items", "Poly"), ("num_binary_variables", "Var"), ("degree", "Nat"),
                 ("x", "Var"), ("y", "Var")],
         self_attrs={"_mapping": "mapping", "items": "items", "num_binary_variables": "num_binary_variables",
                     "degree": "degree"},
         local_types={"reductions": "RedDict", "pair_frequencies": "FreqDict", "mapped_self": "PlainDict"},
         calls_parts=["rd2_prologue", "rd2_pairs", "rd2_count", "rd_term"], loop_state=[("D", "Matrix")],
         not_translated=[R.HOOK_NOTE, SELF_NOTE,
                         "`x`, `y` are unbound on entry of the loop over `mapped_self.items()`: parameters (the theorem shows "
                         "that the result does not depend on them); the value is `D` at the end (`D` is updated in place)"]),
]

REGISTRY += [
    # (4) composition with the `to_*` entry points tied in harness/tie_ext/conv.py (their `reduce_degree` parameter is
    # instantiated with `rd2_whole`): the chain theorems live in their own group, so that only C01 / C08 depend on the
    # conversion units.  The entry itself is the statement seeded/C14-2 edits: where the ancilla labels start.
    dict(RD2, lean="rd2_ancilla", group="Reduce2Chain", props=["C01", "C08"], after="<the statement before `ancilla = …`>",
         range=dict(first="<assign ancilla>", last="<assign ancilla>"),
         locals=[("num_binary_variables", "Var")], self_attrs={"num_binary_variables": "num_binary_variables"},
         loop_state=[("ancilla", "Var")],
         extra_theorems=["PUBO_to_pubo_rd2_chain", "PUBO_to_qubo_rd2_chain", "PUBO_to_pubo_rd2_route",
                         "PUBO_to_qubo_rd2_route", "PUBO_to_puso_rd2_chain", "PUBO_to_quso_rd2_chain"],
         not_translated=["the chain theorems compose `PUBO.to_pubo` / `to_qubo` and the `Conversions` defaults `to_puso` / "
                         "`to_quso` (generated in unit Conv2Meth) with `rd2_whole`; `lam` / `pairs` are passed through "
                         "unchanged (checked by conv.py's rule for the call)"]),
]

# ------------------------------------------------------------------------------------------------------- PUSO routes

from . import conv as C     # noqa: E402

PYMAP = Simple("PyMap", "PyMap")


class TPartial(T.Ty):
    """a freshly built object some of whose bookkeeping attributes have been overwritten (`P._mapping = e` …): the local
    holding the object and the locals holding the assigned attributes"""
    ATTRS = {"_mapping": PYMAP, "_reverse_mapping": PYMAP, "_num_binary_variables": NAT}

    def __init__(self, attrs):
        self.attrs = dict(attrs)


class FnExtC(C.FnExt):
    """conv.FnExt plus (one rule per construct):
      attributes   `self.mapping`, `self.reverse_mapping` -> the state's label dicts (the properties return copies: identity is
                   C19's subject); `P.<attr> = e` on a local object P for `_mapping`, `_reverse_mapping`,
                   `_num_binary_variables` -> a local holding that attribute; `return P` once all three are assigned -> the
                   explicit state (type and terms of P, the three assigned attributes); with fewer the translation is rejected
                   (the object's own bookkeeping is C14's subject, not represented in ConvObj)
      calls        `f(self)` for a registered free conversion -> on `ConvModel.obj self`; `self.m().to_X(a, …)` where the
                   registry's `recv_class` names the class of `self.m()`: the registered method `C.to_X`, with the opaque
                   `_reduce_degree` (parameter `reduce_degree`) and `lam`, `pairs` passed through"""

    def expr(self, n, env, expected=None):
        if isinstance(n, ast.Attribute) and isinstance(n.value, ast.Name) and n.value.id in env \
                and res(env[n.value.id]) is C.MODEL and n.attr in ("mapping", "reverse_mapping"):
            return "%s.%s" % (mangle(n.value.id), "mapping" if n.attr == "mapping" else "rev"), PYMAP
        if isinstance(n, ast.Name) and n.id in env and isinstance(res(env[n.id]), TPartial):
            t = res(env[n.id])
            missing = [a for a in TPartial.ATTRS if a not in t.attrs]
            if missing:
                raise Untranslatable("object %s used as a model before %s are assigned (its own bookkeeping is not "
                                     "represented)" % (n.id, ", ".join(missing)), n)
            return "(ConvModel.mk %s.kind %s.items %s %s %s)" % (
                mangle(n.id), mangle(n.id), t.attrs["_mapping"], t.attrs["_reverse_mapping"],
                t.attrs["_num_binary_variables"]), C.MODEL
        return C.FnExt.expr(self, n, env, expected)

    def call(self, n, env):
        f = n.func
        if isinstance(f, ast.Name) and f.id in self.done and f.id not in env and len(n.args) == 1 and not n.keywords \
                and isinstance(n.args[0], ast.Name) and n.args[0].id in env and res(env[n.args[0].id]) is C.MODEL:
            callee = self.done[f.id]
            if callee["status"] == "translated" and len(callee["param_tys"]) == 1 and res(callee["param_tys"][0]) is C.OBJ:
                tree = self.tree
                imported = any(isinstance(s, ast.ImportFrom) and any(a.name == f.id and a.asname is None for a in s.names)
                               for s in tree.body)
                defined = any(isinstance(s, (ast.FunctionDef, ast.ClassDef)) and s.name == f.id for s in tree.body)
                if not imported or defined:
                    raise Untranslatable("cannot resolve %s to the registered function" % f.id, n)
                call = "(%s (ConvModel.obj %s))" % (callee["lean"], mangle(n.args[0].id))
                return self.bind(call, callee["ret_ty"], n) if callee["raises"] else (call, callee["ret_ty"])
        if isinstance(f, ast.Attribute) and isinstance(f.value, ast.Call):
            inner = f.value
            cls = self.e.get("recv_class", {}).get(ast.unparse(inner))
            if cls is not None:
                recv, tr = self.expr(inner, env)            # the registered method of this class (conv's rule)
                if res(tr) is not C.MODEL:
                    raise Untranslatable("receiver that is not a model", n)
                return self.cross_call(cls, f.attr, recv, n, env)
        return C.FnExt.call(self, n, env)

    def cross_call(self, cls, meth, recv, n, env):
        callee = self.done.get("%s.%s" % (cls, meth))
        entry = self.registry_entry("%s.%s" % (cls, meth))
        if callee is None or entry is None or callee["status"] != "translated":
            raise Untranslatable("method %s.%s is not registered / translated" % (cls, meth), n)
        if n.keywords or any(isinstance(a, ast.Starred) for a in n.args) or len(n.args) != len(entry["params"]) - 1:
            raise Untranslatable("call of %s.%s with other than its positional parameters" % (cls, meth), n)
        out = [recv]
        for a, (pname, ptyname) in zip(n.args, entry["params"][1:]):
            pt = T.PARAM_TYPES[ptyname]()
            if pt is OPAQUE:
                # an opaque argument (`lam`, `pairs`) must be this function's opaque parameter of the same name
                if not (isinstance(a, ast.Name) and a.id == pname and a.id in env and res(env[a.id]) is OPAQUE):
                    raise Untranslatable("opaque argument %s not passed through unchanged" % pname, n)
                continue
            sa, ta = self.expr(a, env, pt)
            out.append(coerce(sa, ta, pt, n))
        for lname, ltyname in entry.get("locals", []):
            if lname not in env or not same(env[lname], T.PARAM_TYPES[ltyname]()):
                raise Untranslatable("callee needs %s, which this function does not carry" % lname, n)
            out.append(mangle(lname))
        call = "(%s %s)" % (callee["lean"], " ".join(out))
        return self.bind(call, callee["ret_ty"], n) if callee["raises"] else (call, callee["ret_ty"])

    def stmt(self, stmts, env, k, ind, flow):
        s, rest = stmts[0], stmts[1:]
        pad = " " * ind
        if isinstance(s, ast.Assign) and len(s.targets) == 1 and isinstance(s.targets[0], ast.Attribute) \
                and isinstance(s.targets[0].value, ast.Name) and s.targets[0].value.id in env \
                and s.targets[0].attr in TPartial.ATTRS:
            P = s.targets[0].value.id
            tP = res(env[P])
            if tP is C.OBJ:
                tP = TPartial({})
            if not isinstance(tP, TPartial):
                raise Untranslatable("attribute store on a %s" % lean_ty(tP), s)
            want = TPartial.ATTRS[s.targets[0].attr]
            v, tv = self.expr(s.value, env, want)
            name = "_py_a%d_%s" % (len(tP.attrs), s.targets[0].attr.strip("_"))
            env2 = dict(env)
            t2 = TPartial(tP.attrs)
            t2.attrs[s.targets[0].attr] = name
            env2[P] = t2
            return "let %s : %s := %s;\n%s%s" % (name, lean_ty(want), coerce(v, tv, want, s), pad,
                                                 self.block(rest, env2, k, ind, flow))
        return C.FnExt.stmt(self, stmts, env, k, ind, flow)


PUSO_PY = "qubovert/_puso.py"
DISPATCH_NOTE = "`.to_X(…)` on the object `_create_pubo` returns is resolved to `PUBO.to_X` (`puso_to_pubo` of a labelled PUSO " \
                "returns a `qv.PUBO`: conv.py's type rule, C04); `lam`, `pairs` are checked to be passed through unchanged"
PCBO_PY = "qubovert/_pcbo.py"
REGISTRY_PENDING = [
    # (5) PUSO._create_pubo and the routes through it
    dict(file=PUSO_PY, func="PUSO._create_pubo", lean="rd2_create_pubo", unit="Reduce2Spin", group="Reduce2Spin",
         props=["C01", "C08"], monadic=True, params=[("self", "Model")], fn_class=FnExtC,
         not_translated=["`self` is the explicit state (type, terms, `_mapping`, `_reverse_mapping`, `num_binary_variables`); the "
                         "properties `mapping` / `reverse_mapping` return copies (identity: C19); of the returned object only "
                         "type, terms and the three attributes assigned here are represented"]),
    dict(file=PUSO_PY, func="PUSO.to_pubo", lean="rd2_PUSO_to_pubo", unit="Reduce2Spin", group="Reduce2Spin",
         props=["C01", "C08"], monadic=True, fn_class=FnExtC, defaults={"deg": "None", "lam": "None", "pairs": "None"},
         params=[("self", "Model"), ("deg", "OptInt"), ("lam", "Opaque"), ("pairs", "Opaque")],
         locals=[("reduce_degree", "ReduceFn")], recv_class={"self._create_pubo()": "PUBO"},
         extra_theorems=["rd2_PUSO_to_pubo_route"], not_translated=[DISPATCH_NOTE]),
    dict(file=PUSO_PY, func="PUSO.to_qubo", lean="rd2_PUSO_to_qubo", unit="Reduce2Spin", group="Reduce2Spin",
         props=["C01", "C08"], monadic=True, fn_class=FnExtC, defaults={"lam": "None", "pairs": "None"},
         params=[("self", "Model"), ("lam", "Opaque"), ("pairs", "Opaque")],
         locals=[("reduce_degree", "ReduceFn")], recv_class={"self._create_pubo()": "PUBO"},
         extra_theorems=["rd2_PUSO_to_qubo_route"], not_translated=[DISPATCH_NOTE]),

    # (5) PCBO.remove_ancilla_from_solution
    dict(file=PCBO_PY, func="PCBO.remove_ancilla_from_solution", lean="rd2_remove_ancilla", unit="Reduce2Sol",
         group="Reduce2Sol", props=["C08"], classmethod=True, params=[("cls", "Opaque"), ("solution", "Rd2Sol")],
         not_translated=["`solution` is a dict from labels to numbers, given by its items; labels are the model's ids, on which "
                         "`str(k)[:3] == \"__a\"` is `k >= ANC` (prelude pyRd2IsAncilla, DESIGN.md §3.1)"]),
]
REGISTRY += REGISTRY_PENDING

UNITS = {
    "Reduce2": ("SourceReduce2.lean", ["Qv.Gen.Source", "Qv.Gen.SourceReduce", "Qv.Gen.PreludeReduce2"]),
    "Reduce2Spin": ("SourceReduce2Spin.lean", ["Qv.Gen.SourceConv2Meth", "Qv.Gen.PreludeConv2"]),
    "Reduce2Sol": ("SourceReduce2Sol.lean", ["Qv.Model.Workflow", "Qv.Gen.PreludeReduce2"]),
}



# ------------------------------------------------------------------------------------------------------- replay on the real code

def _lam_of(j):
    """the Python `lam` argument for a penalty setting of the model's menu (Qv.Reduce.Lam)"""
    F = R._fr
    kind = j["kind"]
    if kind == "default":
        return None
    if kind == "const":
        return F(j["c"])
    if kind == "absTimes":
        return lambda v, c=F(j["c"]): c * abs(v)
    if kind == "affine":
        return lambda v, a=F(j["a"]), b=F(j["b"]): a * v + b
    if kind == "sqPlus":
        return lambda v, c=F(j["c"]): v * v + c
    raise NotImplementedError("penalty setting %r" % kind)


def _real_rd2_whole(inp):
    """the distinguishing input of `search_rd2_whole` is a whole call: the real `to_pubo(deg, lam, pairs)`"""
    from qubovert import PUBO
    P = PUBO()
    for k, v in inp["P"]:
        P[tuple(k)] += R._fr(v)
    pairs = None if inp["pairs"] is None else {tuple(p) for p in inp["pairs"]}
    return R._dresult(P.to_pubo(deg=inp["deg"], lam=_lam_of(inp["lam"]), pairs=pairs))


def _oracle_rd2_whole(inp, got, names):
    """C01 on the reduced model: exact on some extension of every x and degree <= deg for every penalty; never undercuts
    for the default penalty"""
    if inp["deg"] is None:
        return None, "deg = None: nothing is reduced"
    if inp["lam"]["kind"] == "default":
        return R._oracle_rd_term(dict(P=inp["P"], deg=inp["deg"]), got, names)
    import itertools
    from fractions import Fraction
    M = {tuple(k): R._fr(v) for k, v in inp["P"]}
    D = got.D
    n = 1 + max([i for k in M for i in k] or [-1])
    labs = sorted({i for k in D for i in k} | set(range(n)))
    if len(labs) > 16:
        return None, "too many variables for the truth table"
    if any(len(k) > inp["deg"] for k in D):
        return False, "a key of the result is longer than deg=%d" % inp["deg"]

    def val(Q, s):
        tot = Fraction(0)
        for k, v in Q.items():
            p = v
            for i in k:
                p *= s[i]
            tot += p
        return tot
    reached = {}
    for bits in itertools.product((0, 1), repeat=len(labs)):
        s = dict(zip(labs, bits))
        x = tuple(s[i] for i in range(n))
        reached[x] = reached.get(x, False) or val(D, s) == val(M, s)
    bad = [x for x, ok in reached.items() if not ok]
    if bad:
        return False, "no extension of x = %s has D(s) = M(x)" % (bad[0],)
    return True, "exact on some extension of every x, degree <= %d" % inp["deg"]


def _real_puso(inp):
    """the real PUSO with the terms `H` whose mapping is the identity on 0..n-1 (labels registered in order; those that occur
    in no term have cancelled out)"""
    from qubovert import PUSO
    H = PUSO()
    for i in range(inp["n"]):
        H[(i,)] += 1
        H[(i,)] -= 1
    for k, v in inp["H"]:
        H[tuple(k)] += R._fr(v)
    return H


class _ObjResult:
    """type name and terms of a returned matrix, printed like the Lean side's `rd2sShowObj`"""
    KIND = {"PUBOMatrix": "Qv.Kind.pubom", "QUBOMatrix": "Qv.Kind.qubom", "PUBO": "Qv.Kind.pubo"}

    def __init__(self, D):
        self.ty, self.D = type(D).__name__, {tuple(k): R._fr(v) for k, v in D.items()}

    def __str__(self):
        return "%s %s" % (self.KIND.get(self.ty, self.ty), R._dresult(self.D))


def _real_PUSO_to_pubo(inp):
    return _ObjResult(_real_puso(inp).to_pubo(deg=inp["deg"]))


def _real_PUSO_to_qubo(inp):
    return _ObjResult(_real_puso(inp).to_qubo())


def _oracle_spin_route(deg_of):
    def oracle(inp, got, names):
        """C01 on the spin route: the boolean reduction D of puso_to_pubo(H) never undercuts H(b2s x) and is exact on some
        extension of every x; degree <= deg"""
        from qubovert.utils import puso_to_pubo
        deg = deg_of(inp)
        if deg is None:
            return None, "deg = None: nothing is reduced"
        P = puso_to_pubo({tuple(k): R._fr(v) for k, v in inp["H"]})
        res = type("G", (), {"D": got.D})()
        return R._oracle_rd_term(dict(P=[[list(k), v] for k, v in P.items()], deg=deg), res, names)
    return oracle


def _real_remove_ancilla(inp):
    """ids >= ANC are the constraint ancillas `__a<i>` (DESIGN.md §3.1)"""
    from qubovert import PCBO
    ANC = 1 << 20
    lab = lambda i: ("__a%d" % (i - ANC)) if i >= ANC else i        # noqa: E731
    sol = {lab(i): R._fr(v) for i, v in inp["solution"]}
    out = PCBO.remove_ancilla_from_solution(sol)
    back = {lab(i): i for i, _ in inp["solution"]}
    return "[" + ", ".join("[%d, \"%s\"]" % (back[k], R._rat_str(v)) for k, v in out.items()) + "]"


def _oracle_remove_ancilla(inp, got, names):
    """T8.4: exactly the entries whose label is not a constraint ancilla, in order"""
    ANC = 1 << 20
    want = "[" + ", ".join("[%d, \"%s\"]" % (i, R._rat_str(v)) for i, v in inp["solution"] if i < ANC) + "]"
    return (str(got) == want), "non-ancilla entries %s, function returned %s" % (want, got)


REAL = {
    "rd2_whole": ("C01", _real_rd2_whole, ("P", "deg", "lam", "pairs"), _oracle_rd2_whole),
    "rd2_PUSO_to_pubo": ("C01", _real_PUSO_to_pubo, ("H", "n", "deg"), _oracle_spin_route(lambda inp: inp["deg"])),
    "rd2_PUSO_to_qubo": ("C01", _real_PUSO_to_qubo, ("H", "n"), _oracle_spin_route(lambda inp: 2)),
    "rd2_remove_ancilla": ("C08", _real_remove_ancilla, ("solution",), _oracle_remove_ancilla),
}
