"""Tie extension `arith` (tag `ar2`): the arithmetic operators of `qubovert/utils/_dict_arithmetic.py` as WHOLE functions (C05, C07, C19).

Generated file  lean/Qv/Gen/SourceArith.lean      (unit "Arith"; imports the generated SourceBook.lean: `self[k] op= v` is
                                                   rendered with `cls_getitem` / `cls_setitem`, the method-resolution tables)
Trusted prelude lean/Qv/Gen/PreludeArith.lean     (operand, snapshot / live view of `.items()`, exponent, untied methods record)
Model           lean/Qv/Model/ArithOps.lean       (the whole-operator model on `Qv.Book.State` + result conversion)
Proofs          lean/Qv/Proofs/GenEq/ArithOps.lean, ArithWrap.lean, ArithChain.lean
Search          lean/Qv/Gen/Search/ArithOps.lean, ArithWrap.lean

FnExt subclasses `book.FnExt` (explicit object state `Obj`, MRO tables) and adds, one rule per construct:

  operands     `other : ArOperand` (number | distinct dict | the live `self`); `isinstance(other, dict)` -> pyIsDict_ar2;
               `other` where a number is needed -> pyNum_ar2 (TypeError on a dict), bound with >>= at the point of use;
               `tuple(other.items())` -> pyItems_ar2 self other (snapshot NOW: the live self when aliased);
               `tuple(self.items())` / `tuple(self.keys())` -> pySelfItems_ar2 / pySelfKeys_ar2;
               `for k, v in other.items()` (no snapshot) -> pyForLive_ar2 (CPython's size check when `other is self`)
  items        `self[k] op= e` for + - * / : __getitem__ of the class, the arithmetic (`/` -> pyDiv_ar2), __setitem__ of the class;
               `()` -> the empty key; `kp + kop` on keys -> ++; `k if isinstance(k, tuple) else (k,)` -> k (keys are tuples);
               `self[k]` in an expression -> cls_getitem; `len(self)` -> pyLen_ar2
  objects      `self.clear()` / `self.copy()` -> the parameters `M.clear` / `M.copy` (methods tied elsewhere); a local bound to a
               fresh object (`d = self.copy()`) is a value of `Obj`; `d op= x` -> the in-place method `__iop__` found by MRO
               lookup (all classes must agree, else the generated dispatch `cls_<m>`), rebinding `d`; an operand naming the
               caller's `self` handed to a method of ANOTHER object -> pyResolve_ar2; an object as operand -> pyOfObj_ar2;
               `self + x`, `self * x` -> `__add__` / `__mul__`; `<int literal> * self` -> `__rmul__`; `t + x` for a fresh `t`;
               `super(self.__class__, self).m(x)` -> the next definition of `m` after K in the MRO of every class K that runs
               this code (all must agree); `C.m(self, x)` -> the tied `C.m`; `res = <in-place call>` : `res` names `self`
  exponent     `exponent : ArExp` (value, is-an-int); `isinstance(exponent, int)`, comparisons on its value,
               `exponent - <literal>`, `range(e)` -> pyRange_ar2 (TypeError unless int)
  reshapings   `tuple((A, b) for a, b in SRC)` with A = `a` or `a if isinstance(a, tuple) else (a,)` -> `tuple(SRC)` (SRC a local
               snapshot or `<operand>.items()`), and `x = x` after it is dropped; `range(<literal a>, e)` -> pyRangeFrom_ar2;
               a nested `def f(p): return e` is inlined at its calls on plain locals; an `if` whose body always leaves
               continues in its else-branch, `if not c: A else: B` is `if c: B else: A`
  control      as book.FnExt; `return self` must be the only kind of return of an in-place method (`returns="Self"`)
"""
import ast
import os
from .. import translate as T
from ..translate import Untranslatable, mangle
from . import book as B

B.LEAN_TY.update({"ArOperand": "ArOperand_ar2", "ArExp": "ArExp_ar2", "ArMethods": "ArMethods_ar2", "NatList": "List Nat",
                  "KeyList": "List Key"})
lt = B.lt

INPLACE = {ast.Add: "__iadd__", ast.Sub: "__isub__", ast.Mult: "__imul__", ast.Div: "__itruediv__", ast.Pow: "__ipow__"}
BINARY = {ast.Add: "__add__", ast.Sub: "__sub__", ast.Mult: "__mul__", ast.Div: "__truediv__", ast.Pow: "__pow__"}
REFLECTED = {ast.Add: "__radd__", ast.Sub: "__rsub__", ast.Mult: "__rmul__"}
ITEM_OPS = {ast.Add: "+", ast.Sub: "-", ast.Mult: "*", ast.Div: "/"}
ALL_CLASSES = B.MODEL_CLASSES + ["DictArithmetic"]


def _preload_book(done):
    """the item-access tables (`cls_getitem`, `cls_setitem`) are book's entries; this module is loaded before `book`
    (alphabetical order), so translate them into `done` first (they are translated again, identically, in their own turn)"""
    for e in B.REGISTRY:
        path = os.path.join(T.repo(), e["file"])
        try:
            if not os.path.exists(path):
                raise Untranslatable("source file %s is missing" % e["file"])
            src = open(path).read()
            try:
                tree = ast.parse(src)
            except SyntaxError as err:
                raise Untranslatable("source file does not parse: %s" % err)
            f = T.find_function(tree, e["func"])
            if f is None:
                raise Untranslatable("function %s not found exactly once" % e["func"])
            B.FnExt(e, src, f, done).translate()
        except Untranslatable:
            pass


def method_target(m, node=None):
    """the class whose `m` every model class (and DictArithmetic) uses, or None when they differ"""
    found = {k: B.lookup(k, m) for k in ALL_CLASSES}
    if "dict" in found.values():
        raise Untranslatable("method %s resolves to the builtin dict's for %s" % (m, [k for k, c in found.items() if c == "dict"]), node)
    return list(found.values())[0] if len(set(found.values())) == 1 else None


def _method_node(cls, m):
    hits = [s for s in B._class_node(cls).body if isinstance(s, ast.FunctionDef) and s.name == m]
    return hits[0] if len(hits) == 1 else None


def delegates(k, m, cls):
    """class `k` defines `m` as the single statement `return cls.m(self, …)`"""
    if not B.defines(k, m):
        return False
    f = _method_node(k, m)
    body = [s for s in f.body if not (isinstance(s, ast.Expr) and isinstance(s.value, ast.Constant))]
    if len(body) != 1 or not isinstance(body[0], ast.Return) or not isinstance(body[0].value, ast.Call):
        return False
    c = body[0].value
    return isinstance(c.func, ast.Attribute) and c.func.attr == m and isinstance(c.func.value, ast.Name) \
        and c.func.value.id == cls and c.args and isinstance(c.args[0], ast.Name) and c.args[0].id == "self"


def dict_builtin(m):
    """no class of the hierarchy overrides the builtin dict's `m`"""
    return not any(B.defines(c, m) for c in B.CLASSES)


def users_of(cls, m):
    """the model classes whose instances run `cls.m`'s code: by MRO lookup, or by explicit delegation"""
    return [k for k in ALL_CLASSES if B.lookup(k, m) == cls or (B.lookup(k, m) == k and delegates(k, m, cls))]


class FnExt(B.FnExt):
    def __init__(self, entry, module_src, fnode, done):
        B.FnExt.__init__(self, entry, module_src, fnode, done)
        if "cls.__setitem__" not in self.table or "cls.__getitem__" not in self.table:
            _preload_book(done)
        self.kind_ = entry.get("returns")            # "Self" (in-place) | "Obj" (fresh object) | a value type / None
        self.mutates = self.kind_ == "Self"
        self.exp_as_rat = False

    # ---- expressions

    def is_obj_local(self, n, env):
        return isinstance(n, ast.Name) and env.get(n.id) == "Obj" and n.id not in ("self", "cls")

    def operand(self, n, env, recv_is_self, node):
        """the text of an operand handed to an operator method of the object `recv`"""
        if isinstance(n, ast.Name) and env.get(n.id) == "ArOperand":
            return mangle(n.id) if recv_is_self else "(pyResolve_ar2 self %s)" % mangle(n.id)
        if self.is_obj_local(n, env):
            return "(pyOfObj_ar2 %s)" % mangle(n.id)
        if isinstance(n, ast.Name) and env.get(n.id) == "ArExp":
            return mangle(n.id)
        c = self.int_literal(n)
        if c is not None:
            return "(pyOfNum_ar2 (%s : Rat))" % c
        raise Untranslatable("operand %s of an operator method" % ast.unparse(n), node)

    def int_literal(self, n):
        if isinstance(n, ast.Constant) and isinstance(n.value, int) and not isinstance(n.value, bool):
            return str(n.value) if n.value >= 0 else "(-%d)" % -n.value
        if isinstance(n, ast.UnaryOp) and isinstance(n.op, ast.USub) and isinstance(n.operand, ast.Constant) \
                and isinstance(n.operand.value, int) and not isinstance(n.operand.value, bool):
            return "(-%d)" % n.operand.value
        return None

    def op_call(self, m, recv_text, recv_is_self, arg, node, ret):
        """call of the operator method `m` on an object; returns the action text (always `Except Err Obj`)"""
        c = method_target(m, node)
        if c is None:
            info = self.table.get("cls." + m)
            if info is None or not info.get("ar2"):
                raise Untranslatable("no generated dispatch for %s" % m, node)
            if info["ret"] != ret:
                raise Untranslatable("%s does not return %s" % (m, ret), node)
            return "(%s %s.kind M %s %s)" % (info["lean"], recv_text, recv_text, arg)
        info = self.table.get("%s.%s" % (c, m))
        if info is None or not info.get("ar2"):
            raise Untranslatable("%s.%s is not a (successfully translated) tied function" % (c, m), node)
        if info["ret"] != ret:
            raise Untranslatable("%s.%s does not return %s" % (c, m, ret), node)
        return "(%s M %s %s)" % (info["lean"], recv_text, arg)

    def expr(self, n, env, expected=None):
        if isinstance(n, ast.Name) and n.id == "self" and self.how == "method":
            return "self", "SelfObj"
        if isinstance(n, ast.Name) and env.get(n.id) == "@self":
            return "self", "SelfObj"
        if isinstance(n, ast.Name) and env.get(n.id) == "ArExp" and self.exp_as_rat:
            return "%s.val" % mangle(n.id), "Rat"
        if isinstance(n, ast.Tuple) and not n.elts:
            return "([] : Key)", "Key"
        if isinstance(n, ast.IfExp) and isinstance(n.test, ast.Call) and isinstance(n.test.func, ast.Name) \
                and n.test.func.id == "isinstance" and len(n.test.args) == 2 and isinstance(n.test.args[1], ast.Name) \
                and n.test.args[1].id == "tuple" and isinstance(n.test.args[0], ast.Name) and env.get(n.test.args[0].id) == "Key" \
                and not {"isinstance", "tuple"} & self.module_names():
            return self.expr(n.body, env)          # keys are tuples in the model universe: the other branch is never taken
        if isinstance(n, ast.Subscript) and self.is_self(n.value):
            gi = self.table.get("cls.__getitem__")
            if not gi:
                raise Untranslatable("no generated dispatch for item access", n)
            kk, tk = self.expr(n.slice, env)
            return self.bindx(self.invoke(gi, [(kk, tk)], n, extra=["self.kind"]), "Rat", n)
        if isinstance(n, ast.BinOp):
            lc = self.int_literal(n.left)
            # <int literal> op self : int.__op__ returns NotImplemented, Python calls the reflected method of `self`
            if lc is not None and self.is_self(n.right) and type(n.op) in REFLECTED:
                act = self.op_call(REFLECTED[type(n.op)], "self", True, "(pyOfNum_ar2 (%s : Rat))" % lc, n, "Obj")
                return self.bindx(act, "Obj", n)
            if type(n.op) in BINARY:
                a, ta = self.expr(n.left, env)
                if ta == "SelfObj":
                    act = self.op_call(BINARY[type(n.op)], "self", True, self.operand(n.right, env, True, n), n, "Obj")
                    return self.bindx(act, "Obj", n)
                if ta == "Obj":
                    act = self.op_call(BINARY[type(n.op)], a, False, self.operand(n.right, env, False, n), n, "Obj")
                    return self.bindx(act, "Obj", n)
                b, tb = self.expr(n.right, env)
                if ta == "ArExp" and isinstance(n.op, ast.Sub) and tb == "Lit":
                    return "(pyExpSub_ar2 %s %s)" % (a, b), "ArExp"
                if ta == "Key" and tb == "Key" and isinstance(n.op, ast.Add):
                    return "(%s ++ %s)" % (a, b), "Key"
                if ta == "Rat" and tb == "Rat" and isinstance(n.op, (ast.Add, ast.Sub, ast.Mult)):
                    return "(%s %s %s)" % (a, ITEM_OPS[type(n.op)], b), "Rat"
                raise Untranslatable("operator %s on %s and %s" % (type(n.op).__name__, ta, tb), n)
        return B.FnExt.expr(self, n, env, expected)

    def compare(self, n, env):
        old, self.exp_as_rat = self.exp_as_rat, True
        try:
            return B.FnExt.compare(self, n, env)
        finally:
            self.exp_as_rat = old

    def coerce(self, s, t, w, node):
        if t == "ArOperand" and w == "Rat":
            return self.bindx("(pyNum_ar2 %s)" % s, "Rat", node)[0]
        if t == "Lit" and w == "Key":
            raise Untranslatable("a number where a key is needed", node)
        return B.FnExt.coerce(self, s, t, w, node)

    def call(self, n, env):
        f = n.func
        if isinstance(f, ast.Name) and isinstance(env.get(f.id), tuple) and env[f.id][0] == "@inline":
            # a call of a nested single-return helper on a plain name: its return expression with the parameter replaced
            _, p, e = env[f.id]
            if n.keywords or len(n.args) != 1 or not isinstance(n.args[0], ast.Name) or env.get(n.args[0].id) is None \
                    or isinstance(env.get(n.args[0].id), tuple):
                raise Untranslatable("call of the local helper %s on something that is not a plain local" % f.id, n)
            import copy
            arg = n.args[0].id

            class S(ast.NodeTransformer):
                def visit_Name(self, x):
                    return ast.copy_location(ast.Name(id=arg, ctx=x.ctx), x) if x.id == p else x
            return self.expr(ast.fix_missing_locations(S().visit(copy.deepcopy(e))), env)
        if isinstance(f, ast.Name) and not n.keywords:
            name = f.id
            if name in ("tuple", "isinstance", "range", "len") and (name in env or name in self.module_names()):
                raise Untranslatable("builtin %s is rebound" % name, n)
            if name == "tuple" and len(n.args) == 1 and isinstance(n.args[0], ast.Call) and not n.args[0].args \
                    and not n.args[0].keywords and isinstance(n.args[0].func, ast.Attribute):
                recv, m = n.args[0].func.value, n.args[0].func.attr
                if self.is_self(recv) and m == "items" and dict_builtin("items"):
                    return "(pySelfItems_ar2 self)", "Poly"
                if self.is_self(recv) and m == "keys" and dict_builtin("keys"):
                    return "(pySelfKeys_ar2 self)", "KeyList"
                if isinstance(recv, ast.Name) and env.get(recv.id) == "ArOperand" and m == "items":
                    return self.bindx("(pyItems_ar2 self %s)" % mangle(recv.id), "Poly", n)
            if name == "tuple" and len(n.args) == 1 and isinstance(n.args[0], ast.GeneratorExp):
                src = self.identity_pairs_source(n.args[0], env)
                if src is not None:
                    # `tuple((a, b) for a, b in SRC)` over (key, value) pairs, where a key component may be written
                    # `a if isinstance(a, tuple) else (a,)` (keys are tuples in the model universe): the same as `tuple(SRC)`
                    if isinstance(src, ast.Name):
                        return mangle(src.id), "Poly"
                    return self.call(ast.copy_location(ast.Call(func=f, args=[src], keywords=[]), n), env)
            if name == "isinstance" and len(n.args) == 2 and isinstance(n.args[0], ast.Name) and isinstance(n.args[1], ast.Name):
                ta = env.get(n.args[0].id)
                if ta == "ArOperand" and n.args[1].id == "dict" and "dict" not in self.module_names():
                    return "(pyIsDict_ar2 %s)" % mangle(n.args[0].id), "Bool"
                if ta == "ArExp" and n.args[1].id == "int" and "int" not in self.module_names():
                    return "(pyExpIsInt_ar2 %s)" % mangle(n.args[0].id), "Bool"
            if name == "range" and len(n.args) == 2 and self.int_literal(n.args[0]) is not None \
                    and not self.int_literal(n.args[0]).startswith("("):
                a, ta = self.expr(n.args[1], env)
                if ta == "ArExp":
                    return self.bindx("(pyRangeFrom_ar2 %s %s)" % (self.int_literal(n.args[0]), a), "NatList", n)
                raise Untranslatable("range(a, b) with b a %s" % ta, n)
            if name == "range" and len(n.args) == 1:
                a, ta = self.expr(n.args[0], env)
                if ta == "ArExp":
                    return self.bindx("(pyRange_ar2 %s)" % a, "NatList", n)
                raise Untranslatable("range() of a %s" % ta, n)
            if name == "len" and len(n.args) == 1 and self.is_self(n.args[0]) and dict_builtin("__len__"):
                return "(pyLen_ar2 self)", "Nat"
        if isinstance(f, ast.Attribute) and not n.keywords:
            recv, m = f.value, f.attr
            if self.is_self(recv) and m == "copy" and not n.args:
                return self.bindx("(M.copy self)", "Obj", n)
            # super(self.__class__, self).m(x): the next definition after K for every class K that runs this code
            if isinstance(recv, ast.Call) and isinstance(recv.func, ast.Name) and recv.func.id == "super" and len(recv.args) == 2 \
                    and not recv.keywords and "super" not in self.module_names() and self.is_self(recv.args[1]) \
                    and isinstance(recv.args[0], ast.Attribute) and recv.args[0].attr == "__class__" and self.is_self(recv.args[0].value) \
                    and len(n.args) == 1:
                own = self.e["func"].split(".")[1]
                ks = users_of(self.cls, own)
                if not ks:
                    raise Untranslatable("no model class runs %s.%s" % (self.cls, own), n)
                tg = {B.lookup(k, m, after=k) for k in ks}
                if len(tg) != 1:
                    raise Untranslatable("super(self.__class__, self).%s resolves differently per class: %s" % (m, sorted(map(str, tg))), n)
                c = list(tg)[0]
                return self.inplace_call(c, m, n.args[0], env, n)
            if isinstance(recv, ast.Name) and recv.id in B.CLASSES and recv.id not in env and n.args and self.is_self(n.args[0]) \
                    and len(n.args) == 2:
                self.need_class_name(recv.id, n)
                return self.inplace_call(B.lookup(recv.id, m), m, n.args[1], env, n)
        return B.FnExt.call(self, n, env)

    def identity_pairs_source(self, g, env):
        """for a generator `(A, b) for a, b in SRC` with A = `a` or `a if isinstance(a, tuple) else (a,)`, SRC a local
        snapshot (Poly) or `<operand or self>.items()`: SRC; None for anything else"""
        if len(g.generators) != 1:
            return None
        gen = g.generators[0]
        tg, el = gen.target, g.elt
        if gen.ifs or gen.is_async or not (isinstance(tg, ast.Tuple) and len(tg.elts) == 2
                                           and all(isinstance(x, ast.Name) for x in tg.elts)):
            return None
        a, b = tg.elts[0].id, tg.elts[1].id
        if a == b or not (isinstance(el, ast.Tuple) and len(el.elts) == 2):
            return None
        ka, vb = el.elts
        if isinstance(ka, ast.IfExp):
            t = ka.test
            if not (isinstance(t, ast.Call) and isinstance(t.func, ast.Name) and t.func.id == "isinstance" and not t.keywords
                    and len(t.args) == 2 and isinstance(t.args[0], ast.Name) and t.args[0].id == a
                    and isinstance(t.args[1], ast.Name) and t.args[1].id == "tuple"
                    and not {"isinstance", "tuple"} & (self.module_names() | set(env))
                    and isinstance(ka.orelse, ast.Tuple) and len(ka.orelse.elts) == 1
                    and isinstance(ka.orelse.elts[0], ast.Name) and ka.orelse.elts[0].id == a):
                return None
            ka = ka.body
        if not (isinstance(ka, ast.Name) and ka.id == a and isinstance(vb, ast.Name) and vb.id == b):
            return None
        it = gen.iter
        if isinstance(it, ast.Name) and env.get(it.id) == "Poly":
            return it
        if isinstance(it, ast.Call) and isinstance(it.func, ast.Attribute) and it.func.attr == "items" and not it.args \
                and not it.keywords and (self.is_self(it.func.value) or (isinstance(it.func.value, ast.Name)
                                                                         and env.get(it.func.value.id) == "ArOperand")):
            return it
        return None

    def inplace_call(self, c, m, arg, env, node):
        """an in-place operator method of `self` called by name: mutates `self` and returns it"""
        info = self.table.get("%s.%s" % (c, m))
        if info is None or not info.get("ar2") or info["ret"] != "Self":
            raise Untranslatable("%s.%s is not a (successfully translated) in-place method" % (c, m), node)
        if not self.mutates:
            raise Untranslatable("call of a mutating method in a function registered as not mutating", node)
        act = "(%s M self %s)" % (info["lean"], self.operand(arg, env, True, node))
        return "\0rebind:" + act, "SelfCall"

    # ---- statements

    def alias_of(self, target, value):
        if self.e.get("snapshot_attrs"):
            return None
        return B.FnExt.alias_of(self, target, value)

    def finish(self, v, tv, node):
        if self.kind_ == "Self":
            if tv != "SelfObj":
                raise Untranslatable("an in-place operator must `return self` (a %s is returned)" % tv, node)
            self.ret_kinds.append("ObjOnly")
            return "(Except.ok self)"
        if self.kind_ == "Obj":
            if tv != "Obj":
                raise Untranslatable("a copying operator must return the fresh object (a %s is returned)" % tv, node)
            self.ret_kinds.append("Obj")
            return "(Except.ok %s)" % v
        if tv in ("SelfObj", "Obj", "None"):
            raise Untranslatable("return of a %s from a function registered as returning a value" % tv, node)
        return B.FnExt.finish(self, v, tv, node)

    @staticmethod
    def always_leaves(stmts):
        """every path through the statements ends in `return` / `raise`"""
        if not stmts:
            return False
        last = stmts[-1]
        if isinstance(last, (ast.Return, ast.Raise)):
            return True
        return isinstance(last, ast.If) and FnExt.always_leaves(last.body) and FnExt.always_leaves(last.orelse)

    def local_single_return_def(self, s):
        """`def f(p): return e` nested in the function, `f` bound nowhere else in it, `e` reading only `p` and names that
        are not locals of the enclosing function: (p, e); None otherwise"""
        a = s.args
        if len(a.args) != 1 or a.vararg or a.kwarg or a.kwonlyargs or a.defaults or a.posonlyargs or s.decorator_list:
            return None
        body = [x for x in s.body if not (isinstance(x, ast.Expr) and isinstance(x.value, ast.Constant)
                                          and isinstance(x.value.value, str))]
        if len(body) != 1 or not isinstance(body[0], ast.Return) or body[0].value is None:
            return None
        fn = self.fnode
        binds = [x.id for x in ast.walk(fn) if isinstance(x, ast.Name) and isinstance(x.ctx, ast.Store)] + \
            [x.name for x in ast.walk(fn) if isinstance(x, (ast.FunctionDef, ast.ClassDef)) and x is not fn] + \
            [x.arg for x in fn.args.args]
        if binds.count(s.name) != 1 or any(isinstance(x, (ast.Global, ast.Nonlocal)) for x in ast.walk(fn)):
            return None
        e, p = body[0].value, a.args[0].arg
        if any(isinstance(x, (ast.Lambda, ast.GeneratorExp, ast.ListComp, ast.SetComp, ast.DictComp, ast.NamedExpr, ast.Yield,
                              ast.YieldFrom, ast.Await)) for x in ast.walk(e)):
            return None
        free = {x.id for x in ast.walk(e) if isinstance(x, ast.Name)} - {p}
        if free & (set(binds) - {p}) or p in binds[:0]:
            return None
        return p, e

    def stmt(self, stmts, env, k, ind):
        s, rest = stmts[0], stmts[1:]
        pad = " " * ind

        def cont(env2=env):
            return self.block(rest, env2, k, ind)

        if isinstance(s, ast.FunctionDef):
            pe = self.local_single_return_def(s)
            if pe is None:
                raise Untranslatable("nested function %s that is not a single-return helper" % s.name, s)
            env2 = dict(env)
            env2[s.name] = ("@inline", pe[0], pe[1])       # its calls are replaced by its return expression
            return cont(env2)
        if isinstance(s, ast.If):
            # exact reshapings: an `if` whose body always leaves continues in its else-branch; `if not c: A else: B` is
            # `if c: B else: A`
            test, body, orelse, rest2 = s.test, list(s.body), list(s.orelse), list(rest)
            if not orelse and rest2 and self.always_leaves(body):
                orelse, rest2 = rest2, []
            if isinstance(test, ast.UnaryOp) and isinstance(test.op, ast.Not) and orelse:
                test, body, orelse = test.operand, orelse, body
            if test is not s.test or len(rest2) != len(rest):
                s2 = ast.copy_location(ast.If(test=test, body=body, orelse=orelse), s)
                return self.stmt([s2] + rest2, env, k, ind)
        if isinstance(s, ast.Return) and s.value is not None and not rest:
            v, tv = self.expr(s.value, env, expected="value")
            if tv == "SelfCall":
                self.raises_now = True
                return "(%s >>= fun (self : Obj) =>\n%s%s)" % (v[len("\0rebind:"):], pad, self.finish("self", "SelfObj", s))
            return self.finish(v, tv, s)
        if isinstance(s, ast.Assign) and len(s.targets) == 1 and isinstance(s.targets[0], ast.Name) \
                and s.targets[0].id not in ("self", "cls"):
            tg = s.targets[0].id
            if isinstance(s.value, ast.Call):
                v, tv = self.expr(s.value, env, expected="value")
                env2 = dict(env)
                if tv == "SelfCall":                    # res = <in-place call>: `res` names the object `self`
                    env2[tg] = "@self"
                    self.raises_now = True
                    return "(%s >>= fun (self : Obj) =>\n%s%s)" % (v[len("\0rebind:"):], pad, cont(env2))
                if tv == "Poly" and v == mangle(tg) and env.get(tg) == "Poly":
                    return cont(env)                    # `x = x` (a snapshot rebuilt element by element): nothing happens
                if tv in ("Obj", "Poly", "KeyList", "NatList"):
                    env2[tg] = tv
                    return "let %s : %s := %s;\n%s%s" % (mangle(tg), lt(tv), v, pad, cont(env2))
                return self.store_target(s.targets[0], v, tv, env2, s) + "\n" + pad + cont(env2)
        if isinstance(s, ast.AugAssign):
            t = s.target
            if isinstance(t, ast.Subscript) and self.is_self(t.value) and type(s.op) in ITEM_OPS:
                # self[key] op= value : __getitem__ of the object's class, the arithmetic, __setitem__ of the object's class
                gi, si = self.table.get("cls.__getitem__"), self.table.get("cls.__setitem__")
                if not gi or not si:
                    raise Untranslatable("no generated dispatch for item access", s)
                if not self.mutates:
                    raise Untranslatable("item store in a function registered as not mutating", s)
                kk, tk = self.expr(t.slice, env)
                old = self.bindx(self.invoke(gi, [(kk, tk)], s, extra=["self.kind"]), "Rat", s)[0]
                v, tv = self.expr(s.value, env)
                v = self.coerce(v, tv, "Rat", s)
                if isinstance(s.op, ast.Div):
                    new = self.bindx("(pyDiv_ar2 %s %s)" % (old, v), "Rat", s)[0]
                else:
                    new = "(%s %s %s)" % (old, ITEM_OPS[type(s.op)], v)
                f = self.proc_call(si, [(kk, tk), (new, "Rat")], s, extra=["self.kind"])
                return f(pad + cont())
            if isinstance(t, ast.Name) and type(s.op) in INPLACE and (self.is_self(t) or self.is_obj_local(t, env)):
                # x op= y on an object: x = x.__iop__(y), the method found by MRO lookup in the object's class
                me = self.is_self(t)
                if me and not self.mutates:
                    raise Untranslatable("in-place operator on self in a function registered as not mutating", s)
                name = "self" if me else mangle(t.id)
                act = self.op_call(INPLACE[type(s.op)], name, me, self.operand(s.value, env, me, s), s, "Self")
                self.raises_now = True
                return "(%s >>= fun (%s : Obj) =>\n%s%s)" % (act, name, pad, cont())
        if isinstance(s, ast.For):
            return self.for_ar(s, env, cont, ind)
        return B.FnExt.stmt(self, stmts, env, k, ind)

    def call_stmt(self, c, env, cont, pad, node):
        f = c.func
        if isinstance(f, ast.Attribute) and self.is_self(f.value) and f.attr == "clear" and not c.args and not c.keywords:
            if not self.mutates:
                raise Untranslatable("self.clear() in a function registered as not mutating", node)
            return "let self : Obj := (M.clear self);\n%s%s" % (pad, cont())
        return B.FnExt.call_stmt(self, c, env, cont, pad, node)

    def for_ar(self, s, env, cont, ind):
        pad = " " * ind
        if s.orelse or any(isinstance(x, (ast.Return, ast.Break, ast.Continue)) for b in s.body for x in ast.walk(b)):
            raise Untranslatable("for with else / return / break / continue", s)
        it, target = s.iter, s.target
        live = None
        if isinstance(it, ast.Call) and isinstance(it.func, ast.Attribute) and it.func.attr == "items" and not it.args \
                and not it.keywords and isinstance(it.func.value, ast.Name) and env.get(it.func.value.id) == "ArOperand":
            live, ts = mangle(it.func.value.id), "Poly"          # a live view: no snapshot is taken
        else:
            src, ts = self.expr(it, env)
        env_b = dict(env)
        if ts == "Poly" and isinstance(target, ast.Tuple) and len(target.elts) == 2 and all(isinstance(x, ast.Name) for x in target.elts):
            et, itname = "(Key × Rat)", "_py_it"
            env_b[target.elts[0].id], env_b[target.elts[1].id] = "Key", "Rat"
            lets = "let %s : Key := _py_it.1; let %s : Rat := _py_it.2;\n%s    " % (
                mangle(target.elts[0].id), mangle(target.elts[1].id), pad)
        elif ts in ("KeyList", "NatList") and isinstance(target, ast.Name):
            a = "Key" if ts == "KeyList" else "Nat"
            et, itname, lets = a, mangle(target.id), ""
            env_b[target.id] = a
        else:
            raise Untranslatable("iteration over a %s with this target" % (ts,), s)
        bound = [x.id for x in ([target] if isinstance(target, ast.Name) else target.elts)]
        assigned = [x for x in self.assigned(s.body) if x in env and x != "self"] + [x for x in bound if x in env]
        if assigned:
            raise Untranslatable("loop assigns the outer local %s" % assigned[0], s)
        if not self.mutates:
            raise Untranslatable("loop in a function registered as not mutating", s)
        inner = self.block(list(s.body), env_b, lambda e2: "(Except.ok self)", ind + 4)
        self.raises_now = True
        body = "(fun (self : Obj) (%s : %s) =>\n%s    %s%s)" % (itname, et, pad, lets, inner)
        if live:
            return "((pyForLive_ar2 self %s %s) >>= fun (self : Obj) =>\n%s%s)" % (live, body, pad, cont())
        return "((pyForM %s self %s) >>= fun (self : Obj) =>\n%s%s)" % (src, body, pad, cont())

    # ---- the function

    def translate(self):
        out = self.translate_inner()
        self.table[self.key] = dict(lean=self.e["lean"], file=self.e["file"], raises=True, ar2=True, ret=self.ret_out,
                                    param_tys=self.ptys_out, ret_ty=self.ret_out, how="ar2", mutates=self.mutates, virtual=[])
        return out

    def translate_inner(self):
        e = self.e
        if "dispatch" in e:
            return self.dispatch_ar()
        self.check_sig()
        self.want_ret = None
        self.raises = True
        self.pend, self.nb, self.raises_now, self.ret_kinds = [[]], 0, False, []
        env = {p: t for p, t in e["params"]}
        env["self"] = "Obj"

        def fall_off(env2):
            if self.kind_ in ("Self", "Obj"):
                raise Untranslatable("the function can end without `return` (returns None)", self.fnode)
            return self.finish("none", "None", self.fnode)
        body = self.block(self.body_stmts(), env, fall_off, 2)
        if self.kind_ == "Self":
            ret, r = "Self", "Obj"
        elif self.kind_ == "Obj":
            ret, r = "Obj", "Obj"
        else:
            kinds = set(map(str, self.ret_kinds))
            if len(kinds) != 1:
                raise Untranslatable("returns of different types %s" % sorted(kinds), self.fnode)
            ret = self.ret_kinds[0]
            r = lt(ret)
        binders = ["(M : ArMethods_ar2)", "(self : Obj)"] + ["(%s : %s)" % (mangle(p), lt(t)) for p, t in e["params"]]
        self.ptys_out = ["ArMethods", "Obj"] + [t for _, t in e["params"]]
        self.ret_out = ret
        self.ret_ty = ret
        return binders, self.ptys_out, "Except Err %s" % r, body

    def dispatch_ar(self):
        """`x.__iop__(y)` on an object of any class: one arm per model class, the arm is the MRO lookup"""
        m = self.e["dispatch"]
        arms, rets = [], set()
        for k in ALL_CLASSES:
            c = B.lookup(k, m)
            info = self.table.get("%s.%s" % (c, m))
            if info is None or not info.get("ar2"):
                raise Untranslatable("%s.%s (used by %s) is not a (successfully translated) tied function" % (c, m, k), self.fnode)
            rets.add(info["ret"])
            if info["param_tys"][2:] != [t for _, t in self.e["params"]]:
                raise Untranslatable("definitions of %s have different signatures" % m, self.fnode)
            arms.append("  | %s => %s M self a0" % (B.CLASSES[k][1], info["lean"]))
        if len(rets) != 1:
            raise Untranslatable("definitions of %s return different things" % m, self.fnode)
        self.ret_out = self.ret_ty = list(rets)[0]
        self.raises = True
        self.mutates = self.ret_out == "Self"
        self.ptys_out = ["Kind", "ArMethods", "Obj"] + [t for _, t in self.e["params"]]
        binders = ["(κ : Kind)", "(M : ArMethods_ar2)", "(self : Obj)"] + ["(a%d : %s)" % (i, lt(t)) for i, (_, t) in enumerate(self.e["params"])]
        return binders, self.ptys_out, "Except Err Obj", "match κ with\n" + "\n".join(arms)


# ------------------------------------------------------------------------------------------- registry

DA = "qubovert/utils/_dict_arithmetic.py"
UNITS = {"Arith": ("SourceArith.lean", ["Qv.Gen.SourceBook", "Qv.Gen.PreludeArith"])}
NT_M = "`self.clear()` / `self.copy()` are the parameters `M.clear` / `M.copy` (methods of the bookkeeping layer, not tied by this unit); " \
       "the theorem instantiates them with the model's `Book.clear` / `Book.copy Fix.fixed`"
NT_OP = "`other` is a number, a dict distinct from `self` (seen through its items) or `self` itself; labels are natural numbers, " \
        "coefficients exact rationals (DESIGN.md §3); non-tuple keys of a dict operand (`(k,)`) are outside the label universe"
NT_LIVE = "`for k, v in other.items()` with `other is self` (`d += d`) is the live-view reading `pyForLive_ar2`; the theorem " \
          "covers operands other than `self` (the aliased case rests on C14's correspondence)"


def _op(func, lean, group, returns, params, props, nt, **kw):
    return dict(unit="Arith", group=group, file=DA, func="DictArithmetic." + func, lean=lean, params=params, returns=returns,
                props=props, not_translated=nt, **kw)


OPD, EXP = [("other", "ArOperand")], [("exponent", "ArExp")]
P_IN = ["C05"]        # (the theorems are at the level of C14's model `Qv.Book`; adding "C14" here makes C14 audit them too, +6 s)
P_WR = ["C05", "C19"]
REGISTRY = [
    _op("__iadd__", "DictArithmetic_iadd_ar2", "ArithOps", "Self", OPD, P_IN + ["C07"], [NT_OP, NT_LIVE], extra_theorems=['DictArithmetic_iadd_ar2_terms']),
    _op("__isub__", "DictArithmetic_isub_ar2", "ArithOps", "Self", OPD, P_IN + ["C07"], [NT_OP], extra_theorems=['DictArithmetic_isub_ar2_terms']),
    _op("__imul__", "DictArithmetic_imul_ar2", "ArithOps", "Self", OPD, P_IN + ["C07"], [NT_OP, NT_M]),
    _op("__itruediv__", "DictArithmetic_itruediv_ar2", "ArithOps", "Self", OPD, P_IN, [NT_OP]),
    dict(unit="Arith", group="ArithOps", file="qubovert/_pcbo.py", func="PCBO.__imul__", lean="PCBO_imul_ar2", params=OPD,
         returns="Self", props=P_IN + ["C07"], snapshot_attrs=True,
         not_translated=["the local `constraints` holds the VALUE `_constraints` had on entry: `clear()` / `__init__` rebind the "
                         "attribute to a fresh dict and never mutate the old one (value semantics of the record)", NT_M]),
    dict(unit="Arith", group="ArithOps", file="qubovert/_pcso.py", func="PCSO.__imul__", lean="PCSO_imul_ar2", params=OPD,
         returns="Self", props=P_IN, not_translated=[NT_M]),
    dict(unit="Arith", group="ArithOps", file=DA, func="DictArithmetic.__imul__", dispatch="__imul__", lean="cls_imul_ar2",
         params=OPD, props=P_IN + ["C07"], extra_theorems=["cls_imul_ar2_terms"],
         not_translated=["not a function of the source: the method-resolution table of `x *= y` for the ten model classes and "
                         "DictArithmetic, computed from the class headers (C3) and the classes' method definitions"]),
    _op("__ipow__", "DictArithmetic_ipow_ar2", "ArithOps", "Self", EXP, P_IN + ["C07"],
        ["the exponent is a number with an is-an-int flag (`Fraction` / `float` are not ints)", NT_M]),
    # ---- the copying wrappers and the reflected / unary forms: which operand is copied, what the result is
    _op("__add__", "DictArithmetic_add_ar2", "ArithWrap", "Obj", OPD, P_WR + ["C07"], [NT_OP, NT_M], extra_theorems=['DictArithmetic_add_ar2_val', 'DictArithmetic_add_ar2_alias']),
    _op("__radd__", "DictArithmetic_radd_ar2", "ArithWrap", "Obj", OPD, P_WR + ["C07"], [NT_OP, NT_M], extra_theorems=['DictArithmetic_radd_ar2_val']),
    _op("__sub__", "DictArithmetic_sub_ar2", "ArithWrap", "Obj", OPD, P_WR + ["C07"], [NT_OP, NT_M], extra_theorems=['DictArithmetic_sub_ar2_val', 'DictArithmetic_sub_ar2_alias']),
    _op("__mul__", "DictArithmetic_mul_ar2", "ArithWrap", "Obj", OPD, P_WR + ["C07"], [NT_OP, NT_M], extra_theorems=['DictArithmetic_mul_ar2_val', 'DictArithmetic_mul_ar2_alias']),
    _op("__rmul__", "DictArithmetic_rmul_ar2", "ArithWrap", "Obj", OPD, P_WR + ["C07"], [NT_OP, NT_M], extra_theorems=['DictArithmetic_rmul_ar2_val']),
    _op("__rsub__", "DictArithmetic_rsub_ar2", "ArithWrap", "Obj", OPD, P_WR + ["C07"], [NT_OP, NT_M], extra_theorems=['DictArithmetic_rsub_ar2_val']),
    _op("__truediv__", "DictArithmetic_truediv_ar2", "ArithWrap", "Obj", OPD, P_WR, [NT_OP, NT_M]),
    _op("__pow__", "DictArithmetic_pow_ar2", "ArithWrap", "Obj", EXP, P_WR + ["C07"], [NT_M]),
    _op("__pos__", "DictArithmetic_pos_ar2", "ArithWrap", "Obj", [], P_WR, [NT_M]),
    _op("__neg__", "DictArithmetic_neg_ar2", "ArithWrap", "Obj", [], P_WR, [NT_M]),
    # ---- getters C05 / C18 use
    dict(unit="Arith", group="ArithOps", file=DA, func="DictArithmetic.num_terms", lean="DictArithmetic_num_terms_ar2", params=[],
         props=["C05"], not_translated=[]),
    dict(unit="Arith", group="ArithOps", file=B.PM, func="PUBOMatrix.offset", lean="PUBOMatrix_offset_ar2", params=[],
         props=["C05", "C18"], not_translated=["`self[()]` is `__getitem__` of the object's class (generated table `cls_getitem`)"]),
]


# ------------------------------------------------------------------------------------------- replay on the real code

def _operand(j, o):
    from fractions import Fraction
    if j == "self":
        return o
    if "num" in j:
        return Fraction(j["num"])
    return {tuple(k): Fraction(v) for k, v in j["dict"]}


def _real_op(kind, pyop):
    """kind: 'in' (o op= other, the result is what the statement binds), 'bin' (o op other), 'rbin' (other op o), 'un'"""
    import operator
    fn = getattr(operator, pyop)

    def real(inp):
        o = B._mk(inp["self"])
        if kind == "un":
            res = fn(o)
        else:
            x = _operand(inp["other"], o)
            res = fn(x, o) if kind == "rbin" else fn(o, x)
        if not hasattr(res, "_variables"):
            return B._Shown(repr(res), res)
        return B._Shown(B._show_state(res, inp["self"]), res)
    return real


def _real_pow(inplace):
    def real(inp):
        from fractions import Fraction
        import operator
        o = B._mk(inp["self"])
        e = Fraction(inp["exponent"])
        e = int(e) if inp["is_int"] else (float(e) if e.denominator == 1 else e)
        res = operator.ipow(o, e) if inplace else o ** e
        return B._Shown(B._show_state(res, inp["self"]), res)
    return real


def _hom_oracle(sym):
    """C05: the result denotes `a(x) sym b(x)` at every boolean resp. spin assignment of the labels involved"""
    def oracle(inp, got, names):
        import itertools
        from fractions import Fraction
        st = inp["self"]
        a = {tuple(k): Fraction(v) for k, v in st["terms"]}
        j = inp.get("other")
        b = a if j == "self" else ({(): Fraction(j["num"])} if "num" in j else {tuple(k): Fraction(v) for k, v in j["dict"]})
        res = got.obj
        if not hasattr(res, "items"):
            return False, "the operator returned %r, not a model" % (res,)
        spin = st["kind"] in ("QUSO", "PUSO", "PCSO", "QUSOMatrix", "PUSOMatrix")
        labs = sorted({i for d in (a, b, res) for k in d for i in k})

        def val(d, x):
            tot = Fraction(0)
            for k, v in d.items():
                p = Fraction(v)
                for i in k:
                    p *= x[i]
                tot += p
            return tot
        for t in itertools.product((1, -1) if spin else (0, 1), repeat=len(labs)):
            x = dict(zip(labs, t))
            va, vb = val(a, x), val(b, x)
            want = {"+": va + vb, "-": va - vb, "*": va * vb, "r-": vb - va}[sym]
            if val(res, x) != want:
                return False, "at %s the operands evaluate to %s and %s, the result to %s (expected %s)" % (x, va, vb, val(res, x), want)
        return True, "homomorphism holds on all %d assignments" % (2 ** len(labs))
    return oracle


SO = ("self", "other")
REAL = {
    "DictArithmetic_iadd_ar2": ("C05", _real_op("in", "iadd"), SO, _hom_oracle("+")),
    "DictArithmetic_isub_ar2": ("C05", _real_op("in", "isub"), SO, _hom_oracle("-")),
    "cls_imul_ar2": ("C05", _real_op("in", "imul"), SO, _hom_oracle("*")),
    "DictArithmetic_itruediv_ar2": ("C05", _real_op("in", "itruediv"), SO, None),
    "DictArithmetic_ipow_ar2": ("C05", _real_pow(True), ("self", "exponent", "is_int"), None),
    "DictArithmetic_add_ar2": ("C05", _real_op("bin", "add"), SO, _hom_oracle("+")),
    "DictArithmetic_radd_ar2": ("C05", _real_op("rbin", "add"), SO, _hom_oracle("+")),
    "DictArithmetic_sub_ar2": ("C05", _real_op("bin", "sub"), SO, _hom_oracle("-")),
    "DictArithmetic_mul_ar2": ("C05", _real_op("bin", "mul"), SO, _hom_oracle("*")),
    "DictArithmetic_rmul_ar2": ("C05", _real_op("rbin", "mul"), SO, _hom_oracle("*")),
    "DictArithmetic_rsub_ar2": ("C05", _real_op("rbin", "sub"), SO, _hom_oracle("r-")),
    "DictArithmetic_truediv_ar2": ("C05", _real_op("bin", "truediv"), SO, None),
    "DictArithmetic_pow_ar2": ("C05", _real_pow(False), ("self", "exponent", "is_int"), None),
    "DictArithmetic_pos_ar2": ("C05", _real_op("un", "pos"), ("self",), None),
    "DictArithmetic_neg_ar2": ("C05", _real_op("un", "neg"), ("self",), None),
}
