"""Tie extension `reduce`: the degree-reduction core `PUBO._reduce_degree` (C01, C08), the `to_*` entry points of PUBO and
PUSO, and `PCBO.is_solution_valid` / `remove_ancilla_from_solution` (C08, C02).

`_reduce_degree` is translated as a chain of *parts*: a part is a contiguous statement range of the function (registry
`range=dict(first=…, last=…)`, markers matched on the statement — for a compound statement on its header only), rendered as
its own Lean definition whose parameters are the locals it reads (`locals`) and whose value is the tuple of the locals
named in `loop_state` at its end.  When an enclosing part (or the whole function) reaches the first statement of a
registered inner part it emits a *call* of that definition and rebinds exactly the locals the part returns; every other
name assigned inside the range is dropped from the environment (a later read is rejected), so the extraction is sound.

Rules added to `translate.Fn` (one per construct; everything else is still rejected):
  hook        `if __import__("os").environ.get("JTIOSUE_QUBOVERT_VERIF") == "1": …` (no else) is skipped: the translation
              is that of the function with the verification guard unset (DESIGN.md §5: then no line of the hook runs)
  for         a loop target that is bound before the loop is carried in the loop state and keeps its last value after
              the loop (Python: targets are ordinary assignments); `continue` ends the pass with the current locals;
              `break` -> pyForB / Brk (prelude); `enumerate(l)` -> pyREnumerate
  while       monadic mode only: pyWhileM with the registry's iteration bound `while_fuel` (evaluated on entry)
  dicts       a local declared RedDict / FreqDict / PlainDict: `k in d` -> pyDictHas, `d[k]` -> pyRDictGet (KeyError) or,
              on a defaultdict(int), pyDDGet; `d[k] = e` -> pyRDictSet; `d[k] += e` on a defaultdict; `d.get(k, e)`
              -> pyDictGetD; `.items()` of a PlainDict; a defaultdict may occur only as `d[…]`
  membership  `a in (b, c)` -> a = b ∨ a = c; `p in s` for a KeySet -> p ∈ s; `not in` -> negation
  labels      `<, <=, >, >=` between integer labels; `label + n` for a literal n
  matrix      `D[key] += v` on the Matrix parameter -> pyMatrixIadd; `D += qv.PCBO().add_constraint_eq_AND(z, x, y, lam=e)`
              -> pyIaddEqAND
  unpacking   `x, y = e` for an optional key: pyNotNone (TypeError) then the key-unpacking rule (ValueError)
  calls       `f(v)` for a local declared LamFn (a total function Rat -> Rat)
  attributes  `self.<attr>` listed in the entry's `self_attrs` is the parameter of that name
  locals      a local listed in `local_types` has that declared type (used for `best_pair = None, None`)

Normalisations (purely syntactic and exact; the normalised statements are then translated by the ordinary rules, so an
equivalent shape yields the *same* generated text and a different meaning yields a different one):
  static table   `for t1, …, tn in TABLE: BODY` where TABLE is a literal tuple / list of rows (or a dict display read through
                 `.items()`) of str / int / bool / None literals and comparison functions of the `operator` module
                 (`operator.lt` with `import operator`, or `lt` with `from operator import lt`), written in place, bound
                 once to a local that is only iterated, or bound once at module level (never rebound, no `global`; a
                 mutable table must be used only as the iterable of `for` loops): BODY once per row, in order, with each
                 target replaced by its literal; a target bound to `operator.<cmp>` may only occur as `t(a, b)`, which is
                 `a <cmp> b`.  No `break` / `continue` of that loop, no closure in BODY, no store to a target.
  search loop    `for T in IT: if C: return <constant>` (nothing else in the loop, targets fresh) is
                 `if any(C for T in IT): return <constant>`
Added for the reshaped key rewrite of `_reduce_degree` (each has its own branch in `rd_rekey_eq_model`):
  parts          a part's `range` may carry `alts=[…]`: alternative delimitations tried in order;
                 `while_tail_after_gadget`: the statements of the while body after `D += ….add_constraint_eq_AND(…)` (and
                 the hooks following it)
  lists          `l.insert(n, a)` on a local list, n a natural number -> pyRListInsert (`l[n:n] = [a]`);
                 `tuple(e)` of a list of labels is a key; `tuple(<generator expression>)` -> the list of its elements;
                 `next(<generator expression>, default)` -> pyRNextD
"""
import ast
from .. import translate as T
from ..translate import (Fn, Untranslatable, Simple, TTuple, TOpt, TList, res, lean_ty, same, coerce, proj, mangle, is_num,
                         KEY, VAR, NAT, INT, RAT, BOOL, PROP, POLY, UNIT, OPAQUE)

# ------------------------------------------------------------------------------------------------------- types


class TDict(TList):
    """a local dict: association list in insertion order.  default=True: a defaultdict(int)"""
    def __init__(self, k, v, default=False):
        TList.__init__(self, TTuple([k, v]))
        self.k, self.v, self.default = k, v, default


class TKeySet(TList):
    """a set of tuples of labels; only `in` is translated"""
    def __init__(self):
        TList.__init__(self, KEY)


MATRIX = Simple("Matrix", "Poly")               # the PUBOMatrix / QUBOMatrix `D` that is filled
LAMFN = Simple("LamFn", "(Rat → Rat)")          # the penalty function func_lam
MAPPING = Simple("Mapping", "Qv.Reduce.Mapping")  # self._mapping
CONS = Simple("Cons", "List (Qv.Rel × Poly)")     # self._constraints of a PCBO, in append order
BEST = lambda: TTuple([TOpt(NAT), TOpt(KEY)])   # noqa: E731   best_pair

T.PARAM_TYPES.update({
    "Var": lambda: VAR, "RedDict": lambda: TDict(KEY, VAR), "FreqDict": lambda: TDict(KEY, NAT, True),
    "PlainDict": lambda: TDict(KEY, RAT), "KeySet": lambda: TKeySet(), "Matrix": lambda: MATRIX, "LamFn": lambda: LAMFN,
    "Mapping": lambda: MAPPING, "BestPair": BEST, "OptNat": lambda: TOpt(NAT), "OptRat": lambda: TOpt(RAT),
    "Keys": lambda: TList(KEY), "Cons": lambda: CONS,
})

HOOK_TEST = ast.dump(ast.parse('__import__("os").environ.get("JTIOSUE_QUBOVERT_VERIF") == "1"').body[0].value)


def stmt_matches(marker_src, node):
    """a marker names a statement: simple statements by their whole text, compound ones by their header"""
    src = marker_src.strip()
    if src == "<the while loop>":
        return isinstance(node, ast.While)
    m = ast.parse(src + ("\n    pass" if src.endswith(":") else "")).body[0]
    if type(m) is not type(node):
        return False
    if isinstance(m, ast.For):
        return ast.dump(m.target) == ast.dump(node.target) and ast.dump(m.iter) == ast.dump(node.iter)
    if isinstance(m, (ast.If, ast.While)):
        return ast.dump(m.test) == ast.dump(node.test)
    return ast.dump(m) == ast.dump(node)


def blocks_of(fnode):
    """every statement list of the function (not of functions nested in it)"""
    out = []

    def walk(stmts):
        out.append(stmts)
        for s in stmts:
            if isinstance(s, (ast.If, ast.For, ast.While)):
                walk(s.body)
                if s.orelse:
                    walk(s.orelse)
    walk(fnode.body)
    return out


def locate_range(fnode, rng):
    """the statements of a part: from the one matching `first` to the one matching `last` (default: end of the block), in
    the same block; `body_of` = header of a loop: its whole body.  Found exactly once or Untranslatable."""
    if "alts" in rng:
        # the part is delimited by the first of several alternative descriptions that is found (each shape of the source
        # is then proved equal to the same model function by its own branch of the part's theorem)
        base = {k: v for k, v in rng.items() if k != "alts"}
        err = None
        for r in [base] + list(rng["alts"]):
            try:
                return locate_range(fnode, r)
            except Untranslatable as e:
                err = err or e
        raise err
    if rng.get("while_tail_after_gadget"):
        # the statements of the (one) while loop's body after its last `D += <…>.add_constraint_eq_AND(…)` statement and the
        # verification hooks that follow it, to the end of the body
        loops = [s for b in blocks_of(fnode) for s in b if isinstance(s, ast.While)]
        if len(loops) != 1:
            raise Untranslatable("not exactly one while loop", fnode)
        body = loops[0].body
        js = [j for j, s in enumerate(body) if isinstance(s, ast.AugAssign) and isinstance(s.target, ast.Name)
              and isinstance(s.value, ast.Call) and isinstance(s.value.func, ast.Attribute)
              and s.value.func.attr == "add_constraint_eq_AND"]
        if len(js) != 1:
            raise Untranslatable("not exactly one `D += ….add_constraint_eq_AND(…)` statement in the while loop", loops[0])
        j = js[0] + 1
        while j < len(body) and isinstance(body[j], ast.If) and ast.dump(body[j].test) == HOOK_TEST and not body[j].orelse:
            j += 1
        if j >= len(body):
            raise Untranslatable("nothing after the gadget statement in the while loop", loops[0])
        return list(body[j:])
    if "body_of" in rng:
        hits = [s for b in blocks_of(fnode) for s in b if stmt_matches(rng["body_of"], s)]
        if len(hits) != 1:
            raise Untranslatable("loop %r not found exactly once" % rng["body_of"], fnode)
        return list(hits[0].body)
    hits = []
    for b in blocks_of(fnode):
        for i, s in enumerate(b):
            if stmt_matches(rng["first"], s):
                hits.append((b, i))
    if len(hits) != 1:
        raise Untranslatable("first statement %r of the part not found exactly once" % rng["first"], fnode)
    b, i = hits[0]
    if "last" not in rng:
        return list(b[i:])
    js = [j for j in range(i, len(b)) if stmt_matches(rng["last"], b[j])]
    if len(js) != 1:
        raise Untranslatable("last statement %r of the part not found exactly once after the first" % rng["last"], fnode)
    return list(b[i:js[0] + 1])


def own_breaks(stmts):
    """does this loop body contain a `break` of its own (not of a nested loop)"""
    for s in stmts:
        if isinstance(s, ast.Break):
            return True
        if isinstance(s, ast.If) and (own_breaks(s.body) or own_breaks(s.orelse)):
            return True
    return False


OPERATOR_CMP = {"eq": ast.Eq, "ne": ast.NotEq, "lt": ast.Lt, "le": ast.LtE, "gt": ast.Gt, "ge": ast.GtE}


class _Subst(ast.NodeTransformer):
    """one pass of an unrolled static-table loop: a read of a target bound to a constant is that constant; a target bound to
    `operator.<cmp>` may occur only as `t(a, b)`, which is `a <cmp> b` (the documented meaning of the operator functions)"""
    def __init__(self, binding, where):
        self.binding, self.where = binding, where

    def visit_Call(self, n):
        if isinstance(n.func, ast.Name) and isinstance(self.binding.get(n.func.id), str):
            if len(n.args) != 2 or n.keywords or any(isinstance(a, ast.Starred) for a in n.args):
                raise Untranslatable("operator.%s called with other than two positional arguments"
                                     % self.binding[n.func.id], self.where)
            a, b = self.visit(n.args[0]), self.visit(n.args[1])
            return ast.copy_location(ast.Compare(left=a, ops=[OPERATOR_CMP[self.binding[n.func.id]]()], comparators=[b]), n)
        return self.generic_visit(n)

    def visit_Name(self, n):
        if n.id in self.binding:
            if not isinstance(n.ctx, ast.Load):
                raise Untranslatable("store to the loop target %s of a static-table loop" % n.id, self.where)
            b = self.binding[n.id]
            if isinstance(b, str):
                raise Untranslatable("operator.%s (loop target %s) used other than as %s(a, b)" % (b, n.id, n.id), self.where)
            return ast.copy_location(ast.Constant(value=b.value), n)
        return n


class FnExt(Fn):

    def __init__(self, entry, module_src, fnode, done):
        Fn.__init__(self, entry, module_src, fnode, done)
        self.loop_stack = []
        self.part_nodes = None
        self.static_tables = {}
        if "range" in entry:
            stmts = locate_range(fnode, entry["range"])
            self.raises = self.monadic or bool(entry.get("may_raise")) or any(
                isinstance(n, ast.Raise) for b in stmts for n in ast.walk(b))

    # ---- which statements

    def check_signature(self):
        if "range" in self.e:
            for d in self.fnode.decorator_list:
                raise Untranslatable("decorator %s" % ast.unparse(d), self.fnode)
            return
        return Fn.check_signature(self)

    def body_statements(self):
        if "range" in self.e:
            return locate_range(self.fnode, self.e["range"])
        return Fn.body_statements(self)

    def parts(self):
        """first statement -> (registry record of the part, its statements), for the parts registered on this function"""
        if self.part_nodes is None:
            self.part_nodes = []
            for pe in REGISTRY:
                if "range" not in pe or pe["file"] != self.e["file"] or pe["func"] != self.e["func"] \
                        or pe.get("lean") not in self.e.get("calls_parts", []):
                    continue
                info = self.done.get("\0" + pe["lean"])
                if info is None:
                    raise Untranslatable("part %s is registered after its caller" % pe["lean"], self.fnode)
                if info["status"] != "translated":
                    raise Untranslatable("part %s is itself %s" % (pe["lean"], info["status"]), self.fnode)
                self.part_nodes.append((info, pe, locate_range(self.fnode, pe["range"])))
        return self.part_nodes

    def part_call(self, stmts, env, k, ind, flow):
        for info, pe, nodes in self.parts():
            if stmts[0] is nodes[0]:
                n = len(nodes)
                if len(stmts) < n or any(a is not b for a, b in zip(stmts[:n], nodes)):
                    raise Untranslatable("part %s does not lie inside this block" % pe["lean"], stmts[0])
                args = []
                for (p, _), pt in zip(pe["locals"], info["param_tys"]):
                    if p not in env:
                        raise Untranslatable("part %s reads %s, which is not bound here" % (pe["lean"], p), stmts[0])
                    args.append(coerce(mangle(p), env[p], pt, stmts[0]))
                call = "(%s %s)" % (pe["lean"], " ".join(args))
                rt = info["ret_ty"]
                if info["raises"]:
                    call, _ = self.bind(call, rt, stmts[0])
                outs = [x for x, _ in pe["loop_state"]]
                otys = [T.PARAM_TYPES[t]() for _, t in pe["loop_state"]]      # (the declared types: ret_ty is frozen)
                env2 = {x: t for x, t in env.items() if x not in self.assigned(nodes) or x in outs}
                pad = " " * ind
                out = "let _py_t : %s := %s;\n%s" % (lean_ty(rt), call, pad)
                for i, (x, t) in enumerate(zip(outs, otys)):
                    env2[x] = t
                    out += "let %s : %s := %s;\n%s" % (mangle(x), lean_ty(t), proj("_py_t", i, len(outs)), pad)
                return out + self.block(stmts[n:], env2, k, ind, flow)
        return None

    # ---- normalisations (purely syntactic, exact): static-table loops, search loops

    def static_atom(self, n, env):
        """an element of a static table: a str / int / bool / None literal (returned as the Constant node), or a comparison
        function of the `operator` module, spelled `operator.<f>` (`import operator`) or `<f>` (`from operator import <f>`)
        (returned as the name of the function); anything else: None"""
        if isinstance(n, ast.Constant) and (n.value is None or isinstance(n.value, (str, int, bool))):
            return n
        if isinstance(n, ast.Attribute) and isinstance(n.value, ast.Name) and n.value.id == "operator" \
                and n.attr in OPERATOR_CMP and "operator" not in env and "operator" not in self.assigned(self.fnode.body):
            self.need_module_alias("operator", "operator", n)
            return n.attr
        if isinstance(n, ast.Name) and n.id in OPERATOR_CMP and n.id not in env and n.id not in self.assigned(self.fnode.body):
            self.need_import("operator", n.id, n)
            if sum(1 for x in ast.walk(ast.parse(self.src)) if isinstance(x, ast.Name) and x.id == n.id
                   and isinstance(x.ctx, ast.Store)) or n.id in self.params_of_function():
                raise Untranslatable("%s is rebound somewhere in this module" % n.id, n)
            return n.id
        return None

    def params_of_function(self):
        a = self.fnode.args
        return {x.arg for x in a.posonlyargs + a.args + a.kwonlyargs} | {x.arg for x in (a.vararg, a.kwarg) if x}

    def static_rows(self, n, env):
        """a literal table: a tuple / list display whose elements are all atoms, or all tuple / list displays of atoms of
        one length; a dict display `{atom: atom, …}` read as its `.items()` (distinct literal keys).  -> list of rows
        (each a list of atoms) or None"""
        if isinstance(n, ast.Dict):
            if not n.keys or any(k is None for k in n.keys):
                return None
            rows = [[self.static_atom(k, env), self.static_atom(v, env)] for k, v in zip(n.keys, n.values)]
            if any(a is None for r in rows for a in r):
                return None
            keys = [ast.dump(r[0]) if not isinstance(r[0], str) else r[0] for r in rows]
            if len(set(keys)) != len(keys):
                raise Untranslatable("dict display with a repeated key", n)
            return rows
        if not isinstance(n, (ast.Tuple, ast.List)) or not n.elts:
            return None
        if all(isinstance(x, (ast.Tuple, ast.List)) and x.elts for x in n.elts):
            rows = [[self.static_atom(a, env) for a in x.elts] for x in n.elts]
            if len({len(r) for r in rows}) != 1 or any(a is None for r in rows for a in r):
                return None
            return rows
        rows = [[self.static_atom(x, env)] for x in n.elts]
        return None if any(r[0] is None for r in rows) else rows

    def module_table(self, name, items, node):
        """`name` bound exactly once in the whole module, by a module-level `name = <literal table>`; no `global name`;
        a list / dict table (mutable) must moreover be read only as the iterable of `for` loops"""
        tree = ast.parse(self.src)
        stores = [x for x in ast.walk(tree) if isinstance(x, ast.Name) and x.id == name and isinstance(x.ctx, (ast.Store, ast.Del))]
        tops = [s for s in tree.body if isinstance(s, ast.Assign) and len(s.targets) == 1
                and isinstance(s.targets[0], ast.Name) and s.targets[0].id == name]
        if len(stores) != 1 or len(tops) != 1 or name not in self.module_names() \
                or any(isinstance(x, (ast.Global, ast.Nonlocal)) and name in x.names for x in ast.walk(tree)) \
                or any(isinstance(x, ast.arg) and x.arg == name for x in ast.walk(self.fnode)):
            return None
        for s in tree.body:         # bound by nothing else at module level (import, def, class)
            if isinstance(s, (ast.Import, ast.ImportFrom)) and any((a.asname or a.name).split(".")[0] == name for a in s.names):
                return None
            if isinstance(s, (ast.FunctionDef, ast.ClassDef, ast.AsyncFunctionDef)) and s.name == name:
                return None
        val = tops[0].value
        if isinstance(val, ast.Dict) != items:
            return None
        if not isinstance(val, ast.Tuple) or any(isinstance(x, ast.List) for x in val.elts):
            iters = set()
            for x in ast.walk(tree):
                if isinstance(x, ast.For):
                    it = x.iter
                    if items and isinstance(it, ast.Call) and isinstance(it.func, ast.Attribute) and it.func.attr == "items" \
                            and not it.args and not it.keywords:
                        it = it.func.value
                    iters.add(id(it))
            if any(isinstance(x, ast.Name) and x.id == name and isinstance(x.ctx, ast.Load) and id(x) not in iters
                   for x in ast.walk(tree)):
                raise Untranslatable("mutable module-level table %s is used other than as the iterable of a for loop" % name,
                                     node)
        return val

    def unroll_static_for(self, s, env):
        """`for t1, …, tn in TABLE: BODY` over a literal table (a tuple display in place, a local bound once to one, or a
        module-level constant; a dict display through `.items()`) is BODY once per row, in order, with the targets replaced
        by the row's literals.  -> the unrolled statements, or None when the loop is not of this shape"""
        it, items = s.iter, False
        if isinstance(it, ast.Call) and isinstance(it.func, ast.Attribute) and it.func.attr == "items" and not it.args \
                and not it.keywords:
            it, items = it.func.value, True
        table = None
        if isinstance(it, ast.Name) and it.id not in env:
            if it.id in self.static_tables:
                table = self.static_tables[it.id]
            elif it.id not in self.assigned(self.fnode.body):
                table = self.module_table(it.id, items, s)
            if table is not None and isinstance(table, ast.Dict) != items:
                return None
        elif isinstance(it, (ast.Tuple, ast.List, ast.Dict)) and isinstance(it, ast.Dict) == items:
            table = it
        if table is None:
            return None
        rows = self.static_rows(table, env)
        if rows is None:
            return None
        if isinstance(s.target, ast.Name):
            targets = [s.target.id]
        elif isinstance(s.target, ast.Tuple) and all(isinstance(x, ast.Name) for x in s.target.elts):
            targets = [x.id for x in s.target.elts]
        else:
            return None
        if isinstance(s.target, ast.Name) and len(rows[0]) != 1:
            return None
        if len(targets) != len(rows[0]) or len(set(targets)) != len(targets):
            raise Untranslatable("static-table loop: %d targets for rows of %d" % (len(targets), len(rows[0])), s)
        if s.orelse:
            raise Untranslatable("for ... else", s)
        for x in targets:
            if x in env:
                raise Untranslatable("loop target %s shadows a local" % x, s)
        for b in s.body:
            for n in ast.walk(b):
                if isinstance(n, (ast.Lambda, ast.FunctionDef, ast.AsyncFunctionDef, ast.ClassDef)):
                    raise Untranslatable("closure inside a static-table loop", n)

        def outer_jumps(stmts):
            for x in stmts:
                if isinstance(x, (ast.Break, ast.Continue)):
                    return True
                if isinstance(x, ast.If) and (outer_jumps(x.body) or outer_jumps(x.orelse)):
                    return True
            return False
        if outer_jumps(s.body):
            raise Untranslatable("break / continue of a static-table loop", s)
        import copy
        out = []
        for r in rows:
            sub = _Subst(dict(zip(targets, r)), s)
            out += [ast.fix_missing_locations(sub.visit(copy.deepcopy(b))) for b in s.body]
        return out

    def search_loop_as_any(self, s, env):
        """`for T in IT: if C: return <constant>` (nothing else in the loop) is `if any(C for T in IT): return <constant>`:
        both evaluate C on the elements in order and stop at the first true one.  (The targets must be fresh: the `for`
        statement would leave them bound, the generator does not — a later read is then rejected as unbound.)"""
        if s.orelse or len(s.body) != 1 or not isinstance(s.body[0], ast.If) or s.body[0].orelse:
            return None
        inner = s.body[0]
        if len(inner.body) != 1 or not isinstance(inner.body[0], ast.Return) \
                or not isinstance(inner.body[0].value, ast.Constant):
            return None
        names = [n.id for n in ast.walk(s.target) if isinstance(n, ast.Name)]
        if any(x in env for x in names):
            return None
        gen = ast.GeneratorExp(elt=inner.test, generators=[ast.comprehension(target=s.target, iter=s.iter, ifs=[], is_async=0)])
        call = ast.Call(func=ast.Name(id="any", ctx=ast.Load()), args=[gen], keywords=[])
        new = ast.If(test=call, body=[inner.body[0]], orelse=[])
        return ast.fix_missing_locations(ast.copy_location(new, s))

    # ---- statements

    def assigned(self, stmts):
        """also the dict / matrix locals written through a subscript (`d[k] = e`, `d[k] += e`)"""
        out = []
        for s in stmts:
            for n in ast.walk(s):
                x = None
                if isinstance(n, ast.Name) and isinstance(n.ctx, ast.Store):
                    x = n.id
                elif isinstance(n, ast.Subscript) and isinstance(n.ctx, ast.Store) and isinstance(n.value, ast.Name):
                    x = n.value.id
                elif isinstance(n, ast.Call) and isinstance(n.func, ast.Attribute) and n.func.attr == "insert" \
                        and isinstance(n.func.value, ast.Name):
                    x = n.func.value.id                      # `l.insert(n, a)` rebinds the list local (see `stmt`)
                if x is not None and x not in out:
                    out.append(x)
        return out

    def stmt(self, stmts, env, k, ind, flow):
        s, rest = stmts[0], stmts[1:]
        pad = " " * ind

        def cont(env2):
            return self.block(rest, env2, k, ind, flow)

        pc = self.part_call(stmts, env, k, ind, flow)
        if pc is not None:
            return pc
        if isinstance(s, ast.If) and ast.dump(s.test) == HOOK_TEST:
            if s.orelse:
                raise Untranslatable("verification hook with an else branch", s)
            return cont(env)
        if isinstance(s, (ast.Continue, ast.Break)):
            if rest:
                raise Untranslatable("statement after continue/break", rest[0])
            kind = "next" if isinstance(s, ast.Continue) else "brk"
            if not self.loop_stack or self.loop_stack[-1].get(kind) is None:
                raise Untranslatable("%s outside a translated for loop" % type(s).__name__.lower(), s)
            return self.loop_stack[-1][kind](env)
        if isinstance(s, ast.While):
            return self.while_(s, env, cont, ind, flow)
        if isinstance(s, ast.Assign) and len(s.targets) == 1 and isinstance(s.targets[0], ast.Name) \
                and isinstance(s.value, (ast.Tuple, ast.List, ast.Dict)) and s.targets[0].id not in env \
                and s.targets[0].id not in self.e.get("local_types", {}):
            # a local bound once (by a top-level statement of the function, so on every path) to a literal table of
            # constants / operator functions: known statically, read only by
            # the static-table loop rule (it never enters the environment, so every other use is rejected as unbound).
            # A list / dict display is accepted only when every read of the name is the iterable of a `for`.
            x = s.targets[0].id
            nstores = sum(1 for n in ast.walk(self.fnode) if isinstance(n, ast.Name) and n.id == x
                          and isinstance(n.ctx, (ast.Store, ast.Del)))
            if nstores == 1 and x not in self.params_of_function() and not self.loop_stack \
                    and any(s is b for b in self.fnode.body) \
                    and not any(isinstance(n, (ast.Global, ast.Nonlocal)) and x in n.names for n in ast.walk(self.fnode)):
                rows = self.static_rows(s.value, env)
                if rows is not None:
                    iters = set()
                    for n in ast.walk(self.fnode):
                        if isinstance(n, ast.For):
                            it = n.iter
                            if isinstance(it, ast.Call) and isinstance(it.func, ast.Attribute) and it.func.attr == "items" \
                                    and not it.args and not it.keywords:
                                it = it.func.value
                            iters.add(id(it))
                    if all(id(n) in iters for n in ast.walk(self.fnode)
                           if isinstance(n, ast.Name) and n.id == x and isinstance(n.ctx, ast.Load)):
                        self.static_tables[x] = s.value
                        return cont(env)
        if isinstance(s, ast.For) and self.eff_ty is None and not flow:
            un = self.unroll_static_for(s, env)
            if un is not None:
                new = un + list(rest)
                return self.stmt(new, env, k, ind, flow) if new else k(env)
            if any(isinstance(n, ast.Return) for b in s.body for n in ast.walk(b)):
                sa = self.search_loop_as_any(s, env)
                if sa is not None:
                    return self.stmt([sa] + list(rest), env, k, ind, flow)
        if isinstance(s, ast.Assign) and len(s.targets) == 1 and isinstance(s.targets[0], ast.Subscript) \
                and isinstance(s.targets[0].value, ast.Name) and isinstance(res(env.get(s.targets[0].value.id)), TDict):
            d = s.targets[0].value.id
            td = res(env[d])
            if td.default:
                raise Untranslatable("plain store into a defaultdict", s)
            key, tk = self.expr(s.targets[0].slice, env, td.k)
            v, tv = self.expr(s.value, env, td.v)
            return "let %s : %s := (pyRDictSet %s %s %s);\n%s%s" % (
                mangle(d), lean_ty(td), mangle(d), coerce(key, tk, td.k, s), coerce(v, tv, td.v, s), pad, cont(env))
        if isinstance(s, ast.AugAssign) and isinstance(s.target, ast.Subscript) and isinstance(s.target.value, ast.Name) \
                and s.target.value.id in env:
            d = s.target.value.id
            td = res(env[d])
            if isinstance(td, TDict) and td.default and isinstance(s.op, ast.Add):
                # d[k] += e  on a defaultdict(int):  d[k] = d[k] + e
                key, tk = self.expr(s.target.slice, env, td.k)
                key = coerce(key, tk, td.k, s)
                v, tv = self.expr(s.value, env, td.v)
                return "let %s : %s := (pyRDictSet %s %s ((pyDDGet %s %s) + %s));\n%s%s" % (
                    mangle(d), lean_ty(td), mangle(d), key, mangle(d), key, coerce(v, tv, td.v, s), pad, cont(env))
            if td is MATRIX and isinstance(s.op, ast.Add):
                key, tk = self.expr(s.target.slice, env)
                if res(tk) is not KEY:
                    raise Untranslatable("matrix store with a key that is not a tuple of labels", s)
                v, tv = self.expr(s.value, env)
                return "let %s : Poly := (pyMatrixIadd %s %s %s);\n%s%s" % (
                    mangle(d), mangle(d), key, coerce(v, tv, RAT, s), pad, cont(env))
        if isinstance(s, ast.Expr) and isinstance(s.value, ast.Call) and isinstance(s.value.func, ast.Attribute) \
                and s.value.func.attr == "insert" and isinstance(s.value.func.value, ast.Name) \
                and s.value.func.value.id in env and type(res(env[s.value.func.value.id])) is TList \
                and len(s.value.args) == 2 and not s.value.keywords:
            # `l.insert(n, a)` on a local list, n a natural number: `l[n:n] = [a]` (prelude pyRListInsert)
            l = s.value.func.value.id
            tl = res(env[l])
            i, ti = self.expr(s.value.args[0], env)
            if res(ti) is not NAT:
                raise Untranslatable("list.insert at an index that is not a natural number", s)
            a, ta = self.expr(s.value.args[1], env, tl.elt)
            return "let %s : %s := (pyRListInsert %s %s %s);\n%s%s" % (
                mangle(l), lean_ty(tl), mangle(l), i, coerce(a, ta, tl.elt, s), pad, cont(env))
        if isinstance(s, ast.AugAssign) and isinstance(s.target, ast.Name) and s.target.id in env \
                and res(env[s.target.id]) is MATRIX:
            return self.matrix_iadd(s, env, cont, pad)
        return Fn.stmt(self, stmts, env, k, ind, flow)

    def matrix_iadd(self, s, env, cont, pad):
        """`D += qv.PCBO().add_constraint_eq_AND(z, x, y, lam=e)`"""
        c = s.value
        ok = isinstance(s.op, ast.Add) and isinstance(c, ast.Call) and isinstance(c.func, ast.Attribute) \
            and c.func.attr == "add_constraint_eq_AND" and isinstance(c.func.value, ast.Call) \
            and not c.func.value.args and not c.func.value.keywords \
            and isinstance(c.func.value.func, ast.Attribute) and c.func.value.func.attr == "PCBO" \
            and isinstance(c.func.value.func.value, ast.Name) and c.func.value.func.value.id not in env \
            and len(c.args) == 3 and len(c.keywords) == 1 and c.keywords[0].arg == "lam"
        if not ok:
            raise Untranslatable("in-place addition to the matrix of something other than "
                                 "qv.PCBO().add_constraint_eq_AND(z, x, y, lam=…)", s)
        self.need_module_alias("qubovert", c.func.value.func.value.id, s)
        args = []
        for a in c.args:
            sa, ta = self.expr(a, env)
            if res(ta) is not VAR:
                raise Untranslatable("add_constraint_eq_AND on something that is not a label", a)
            args.append(sa)
        l, tl = self.expr(c.keywords[0].value, env)
        d = s.target.id
        return "let %s : Poly := (pyIaddEqAND %s %s %s);\n%s%s" % (
            mangle(d), mangle(d), " ".join(args), coerce(l, tl, RAT, s), pad, cont(env))

    def assign(self, target, value, env, cont, pad, node):
        lt = self.e.get("local_types", {})
        if isinstance(target, ast.Name) and target.id in lt:
            want = T.PARAM_TYPES[lt[target.id]]()
            if isinstance(value, ast.Tuple) and isinstance(want, TTuple) and len(value.elts) == len(want.elts):
                parts = []
                for x, wt in zip(value.elts, want.elts):      # a tuple display: element by element
                    sx, tx = self.expr(x, env, wt)
                    parts.append(coerce(sx, tx, wt, node))
                v = "(" + ", ".join(parts) + ")"
            else:
                v, t = self.expr(value, env, want)
                v = coerce(v, t, want, node)
            env2 = dict(env)
            env2[target.id] = want
            return "let %s : %s := %s;\n%s%s" % (mangle(target.id), lean_ty(want), v, pad, cont(env2))
        if isinstance(target, ast.Tuple) and all(isinstance(x, ast.Name) for x in target.elts) \
                and not isinstance(value, ast.Tuple):
            v, t = self.expr(value, env)
            t = res(t)
            if isinstance(t, TOpt) and res(t.elt) is KEY and self.monadic:
                # unpacking a value that may be None: TypeError, then the rule for a key
                name, _ = self.bind("(pyNotNone %s)" % v, KEY, node)
                env2 = dict(env)
                for x in target.elts:
                    env2[x.id] = VAR
                return "(match %s with\n%s| [%s] =>\n%s  %s\n%s| _ => (Except.error Err.value))" % (
                    name, pad, ", ".join(mangle(x.id) for x in target.elts), pad, cont(env2), pad)
        return Fn.assign(self, target, value, env, cont, pad, node)

    def for_(self, s, env, cont, ind, flow):
        if s.orelse:
            raise Untranslatable("for ... else", s)
        if flow:
            raise Untranslatable("nested loop inside a loop with return", s)
        if self.eff_ty is not None:
            return Fn.for_(self, s, env, cont, ind, flow)
        if any(isinstance(n, ast.Return) for b in s.body for n in ast.walk(b)):
            raise Untranslatable("return inside a loop", s)
        if not self.monadic and any(isinstance(n, ast.Raise) for b in s.body for n in ast.walk(b)):
            raise Untranslatable("raise inside a loop of a function not translated in monadic mode", s)
        pad = " " * ind
        src, et = self.iter_source(s.iter, env)
        targets = [n.id for n in ast.walk(s.target) if isinstance(n, ast.Name)]
        names = [x for x in self.assigned(s.body) if x not in targets]
        accs = [x for x in names if x in env and res(env[x]) is not OPAQUE]
        accs += [x for x in targets if x in env]        # a target bound before the loop keeps its last value afterwards
        accs = sorted(set(accs))                        # canonical order: independent of the order of the statements
        acc_tys = [env[x] for x in accs]
        acc_ty = TTuple(acc_tys) if len(accs) > 1 else (acc_tys[0] if accs else UNIT)
        init = "(" + ", ".join(mangle(x) for x in accs) + ")" if accs else "()"
        unpack = "".join("let %s : %s := %s; " % (mangle(x), lean_ty(t), proj("_py_acc", i, len(accs)))
                         for i, (x, t) in enumerate(zip(accs, acc_tys)))
        lets, env_body = self.bind_target(s.target, et, "_py_it", env)
        for x in targets:
            if x in env and not same(env[x], env_body[x]):
                raise Untranslatable("loop target %s changes the type of a local" % x, s)
        brk = own_breaks(s.body)
        if brk and self.monadic:
            raise Untranslatable("break inside a loop of a function translated in monadic mode", s)

        def tup(env2):
            vals = []
            for x, t in zip(accs, acc_tys):
                if x not in env2:
                    raise Untranslatable("local %s is dropped inside the loop" % x, s)
                vals.append(coerce(mangle(x), env2[x], t, s))      # a narrowed optional is widened again
            return "(" + ", ".join(vals) + ")" if accs else "()"

        def after_body(env2):
            if self.monadic:
                return "(Except.ok %s)" % tup(env2)
            return "(Brk.next %s)" % tup(env2) if brk else tup(env2)

        def on_break(env2):
            return "(Brk.brk %s)" % tup(env2)

        self.loop_stack.append(dict(next=after_body, brk=on_break if brk else None))
        try:
            body = self.block(s.body, env_body, after_body, ind + 4, None)
        finally:
            self.loop_stack.pop()
        rebind = "".join("let %s : %s := %s;\n%s" % (mangle(x), lean_ty(t), proj("_py_acc", i, len(accs)), pad)
                         for i, (x, t) in enumerate(zip(accs, acc_tys)))
        env_after = dict(env)
        fn = "(fun (_py_acc : %s) (_py_it : %s) =>\n%s    %s%s\n%s    %s)" % (
            lean_ty(acc_ty), lean_ty(et), pad, unpack, lets, pad, body)
        if self.monadic:
            return "((pyForM %s %s %s) >>= fun (_py_acc : %s) =>\n%s%s%s)" % (
                src, init, fn, lean_ty(acc_ty), pad, rebind, cont(env_after))
        if brk:
            return "let _py_acc : %s := pyForB %s %s %s;\n%s%s%s" % (
                lean_ty(acc_ty), src, init, fn, pad, rebind, cont(env_after))
        return "let _py_acc : %s := List.foldl %s %s %s;\n%s%s%s" % (
            lean_ty(acc_ty), fn, init, src, pad, rebind, cont(env_after))

    def while_(self, s, env, cont, ind, flow):
        if s.orelse:
            raise Untranslatable("while ... else", s)
        if flow or not self.monadic or "while_fuel" not in self.e:
            raise Untranslatable("while loop (needs monadic mode and the registry's iteration bound)", s)
        if any(isinstance(n, ast.Return) for b in s.body for n in ast.walk(b)):
            raise Untranslatable("return inside a while loop", s)
        pad = " " * ind
        fs, ft = self.pure_only(lambda: self.expr(ast.parse(self.e["while_fuel"]).body[0].value, env), "the iteration bound", s)
        if res(ft) is not NAT:
            raise Untranslatable("iteration bound that is not a natural number", s)
        accs = sorted(x for x in self.assigned(s.body) if x in env and res(env[x]) is not OPAQUE)   # canonical order
        acc_tys = [env[x] for x in accs]
        acc_ty = TTuple(acc_tys) if len(accs) > 1 else (acc_tys[0] if accs else UNIT)
        init = "(" + ", ".join(mangle(x) for x in accs) + ")" if accs else "()"
        unpack = "".join("let %s : %s := %s; " % (mangle(x), lean_ty(t), proj("_py_acc", i, len(accs)))
                         for i, (x, t) in enumerate(zip(accs, acc_tys)))
        c = self.pure_only(lambda: self.cond(s.test, env), "a while condition", s)

        def after_body(env2):
            vals = []
            for x, t in zip(accs, acc_tys):
                if x not in env2:
                    raise Untranslatable("local %s is dropped inside the loop" % x, s)
                vals.append(coerce(mangle(x), env2[x], t, s))
            return "(Except.ok %s)" % ("(" + ", ".join(vals) + ")" if accs else "()")

        self.loop_stack.append(dict(next=None, brk=None))
        try:
            body = self.block(s.body, env, after_body, ind + 4, None)
        finally:
            self.loop_stack.pop()
        rebind = "".join("let %s : %s := %s;\n%s" % (mangle(x), lean_ty(t), proj("_py_acc", i, len(accs)), pad)
                         for i, (x, t) in enumerate(zip(accs, acc_tys)))
        return ("((pyWhileM %s (fun (_py_acc : %s) => %sdecide %s) (fun (_py_acc : %s) =>\n%s    %s\n%s    %s) %s) >>= "
                "fun (_py_acc : %s) =>\n%s%s%s)" % (
                    fs, lean_ty(acc_ty), unpack, c, lean_ty(acc_ty), pad, unpack, pad, body, init, lean_ty(acc_ty), pad,
                    rebind, cont(dict(env))))

    # ---- expressions

    def expr(self, n, env, expected=None):
        if isinstance(n, ast.Attribute) and isinstance(n.value, ast.Name) and n.value.id == "self" \
                and n.attr in self.e.get("self_attrs", {}):
            p = self.e["self_attrs"][n.attr]
            if p not in env:
                raise Untranslatable("registry: attribute parameter %s is not declared" % p, n)
            return mangle(p), env[p]
        if isinstance(n, ast.Name) and n.id in env and isinstance(res(env[n.id]), TDict) and res(env[n.id]).default \
                and hasattr(n, "col_offset"):        # (a synthesized node: the translator's own read of a carried local)
            raise Untranslatable("defaultdict %s used other than as %s[…]" % (n.id, n.id), n)
        return Fn.expr(self, n, env, expected)

    def compare(self, n, env):
        if len(n.ops) == 1 and isinstance(n.ops[0], (ast.In, ast.NotIn)):
            c = n.comparators[0]
            a, ta = self.expr(n.left, env)
            if isinstance(c, ast.Tuple) and c.elts:
                parts = []
                for x in c.elts:
                    b, tb = self.expr(x, env, ta)
                    if not same(ta, tb):
                        raise Untranslatable("membership in a tuple display of another type", n)
                    parts.append("%s = %s" % (a, b))
                out = "(" + " ∨ ".join(parts) + ")"
            else:
                b, tb = self.expr(c, env)
                tb = res(tb)
                if isinstance(tb, TDict) and not tb.default and same(tb.k, ta):
                    out = "(pyDictHas %s %s = true)" % (b, a)
                elif isinstance(tb, TKeySet) and res(ta) is KEY:
                    out = "(%s ∈ %s)" % (a, b)
                elif tb is MAPPING and res(ta) is VAR:
                    out = "(pyMappingHas %s %s = true)" % (b, a)
                else:
                    raise Untranslatable("membership of a %s in a %s" % (lean_ty(ta), lean_ty(tb)), n)
            return "(¬ %s)" % out if isinstance(n.ops[0], ast.NotIn) else out
        syms = {ast.Lt: "<", ast.LtE: "≤", ast.Gt: ">", ast.GtE: "≥"}
        if len(n.ops) == 1 and type(n.ops[0]) in syms:
            a, ta = self.expr(n.left, env)
            if res(ta) is VAR:
                b, tb = self.expr(n.comparators[0], env, ta)
                if res(tb) is VAR:
                    return "(%s %s %s)" % (a, syms[type(n.ops[0])], b)       # integer labels
                raise Untranslatable("comparison of a label with a %s" % lean_ty(tb), n)
        return Fn.compare(self, n, env)

    def subscript(self, n, env):
        if isinstance(n.value, ast.Name) and n.value.id in env:
            tv = res(env[n.value.id])
            if isinstance(tv, TDict):
                n.value._py_subscripted = True
                d = mangle(n.value.id)
                k, tk = self.expr(n.slice, env, tv.k)
                k = coerce(k, tk, tv.k, n)
                if tv.default:
                    return "(pyDDGet %s %s)" % (d, k), tv.v
                return self.bind("(pyRDictGet %s %s)" % (d, k), tv.v, n)
        v, tv = None, None
        if isinstance(n.value, ast.Attribute) or isinstance(n.value, ast.Name):
            try:
                v, tv = self.expr(n.value, env)
            except Untranslatable:
                v = None
            if v is not None and res(tv) is MAPPING:
                i, ti = self.expr(n.slice, env)
                if res(ti) is not VAR:
                    raise Untranslatable("mapping indexed by something that is not a label", n)
                return self.bind("(pyMappingGet %s %s)" % (v, i), VAR, n)
        return Fn.subscript(self, n, env)

    def iter_source(self, n, env):
        if isinstance(n, ast.Call) and isinstance(n.func, ast.Name) and n.func.id == "enumerate" and len(n.args) == 1 \
                and not n.keywords and "enumerate" not in env:
            if "enumerate" in self.module_names():
                raise Untranslatable("builtin enumerate is rebound in this module", n)
            s, t = self.iter_source(n.args[0], env)
            return "(pyREnumerate %s)" % s, TTuple([NAT, t])
        if isinstance(n, ast.Call) and isinstance(n.func, ast.Attribute) and n.func.attr == "items" and not n.args \
                and not n.keywords and isinstance(n.func.value, ast.Name) and n.func.value.id in env \
                and isinstance(res(env[n.func.value.id]), TDict):
            td = res(env[n.func.value.id])
            if td.default:
                raise Untranslatable(".items() of a defaultdict", n)
            return mangle(n.func.value.id), TTuple([td.k, td.v])
        if isinstance(n, ast.Name) and n.id in env and isinstance(res(env[n.id]), (TDict, TKeySet)):
            raise Untranslatable("iteration over a dict / set local", n)
        return Fn.iter_source(self, n, env)

    def binop(self, op, left, right, env, node):
        if isinstance(op, ast.Add) and isinstance(right, ast.Constant) and isinstance(right.value, int) \
                and not isinstance(right.value, bool) and right.value >= 0:
            a, ta = self.expr(left, env)
            if res(ta) is VAR:
                return "(%s + %d)" % (a, right.value), VAR          # integer labels
        return Fn.binop(self, op, left, right, env, node)

    def call(self, n, env):
        f = n.func
        if isinstance(f, ast.Name) and f.id in env and res(env[f.id]) is LAMFN and len(n.args) == 1 and not n.keywords:
            a, ta = self.expr(n.args[0], env)
            return "(%s %s)" % (mangle(f.id), coerce(a, ta, RAT, n)), RAT
        if isinstance(f, ast.Attribute) and f.attr == "get" and len(n.args) == 2 and not n.keywords \
                and isinstance(f.value, ast.Name) and f.value.id in env and isinstance(res(env[f.value.id]), TDict) \
                and not res(env[f.value.id]).default:
            td = res(env[f.value.id])
            k, tk = self.expr(n.args[0], env, td.k)
            d, tdv = self.expr(n.args[1], env, td.v)
            return "(pyDictGetD %s %s %s)" % (mangle(f.value.id), coerce(k, tk, td.k, n), coerce(d, tdv, td.v, n)), td.v
        if isinstance(f, ast.Attribute) and f.attr == "get" and len(n.args) == 2 and not n.keywords \
                and isinstance(f.value, ast.Attribute) and f.value.attr == "_constraints" \
                and isinstance(f.value.value, ast.Name) and f.value.value.id in env and res(env[f.value.value.id]) is CONS \
                and isinstance(n.args[0], ast.Constant) and isinstance(n.args[0].value, str) \
                and isinstance(n.args[1], (ast.List, ast.Tuple)) and not n.args[1].elts:
            # self._constraints.get('eq', []): the recorded constraints of that relation, in append order
            return "(pyConsGet %s \"%s\")" % (mangle(f.value.value.id), n.args[0].value), TList(POLY)
        if isinstance(f, ast.Attribute) and f.attr == "value" and len(n.args) == 1 and not n.keywords:
            a, ta = self.expr(f.value, env)
            b, tb = self.expr(n.args[0], env)
            if res(ta) is POLY and res(tb) is T.ASSIGN:
                return "(pyValue %s %s)" % (a, b), RAT
            raise Untranslatable(".value() of a %s" % lean_ty(ta), n)
        if isinstance(f, ast.Name) and f.id == "next" and len(n.args) == 2 and not n.keywords and "next" not in env \
                and isinstance(n.args[0], ast.GeneratorExp):
            # `next(<generator expression>, default)`: the first element the generator yields, `default` when it yields
            # none (the elements are pure, so evaluating the later ones as well is unobservable)
            if "next" in self.module_names():
                raise Untranslatable("builtin next is rebound in this module", n)
            g = n.args[0]
            l, tl = self.comprehension(ast.ListComp(elt=g.elt, generators=g.generators, lineno=n.lineno), env)
            d, td = self.pure_only(lambda: self.expr(n.args[1], env, res(tl).elt), "the default of next()", n)
            return "(pyRNextD %s %s)" % (l, coerce(d, td, res(tl).elt, n)), res(tl).elt
        if isinstance(f, ast.Name) and f.id == "tuple" and len(n.args) == 1 and not n.keywords and "tuple" not in env:
            if isinstance(n.args[0], ast.GeneratorExp):
                # a generator expression consumed at once by tuple(): the list of its (pure) elements
                if "tuple" in self.module_names():
                    raise Untranslatable("builtin tuple is rebound in this module", n)
                g = n.args[0]
                s, t = self.comprehension(ast.ListComp(elt=g.elt, generators=g.generators, lineno=n.lineno), env)
            else:
                s, t = Fn.call(self, n, env)
            if type(res(t)) is TList and res(res(t).elt) is VAR:
                return s, KEY                     # a tuple of labels is a key (`Key` is `List Var`)
            return s, t
        if isinstance(f, ast.Name) and f.id == "any" and len(n.args) == 1 and isinstance(n.args[0], ast.GeneratorExp) \
                and not n.keywords and "any" not in env:
            if "any" in self.module_names():
                raise Untranslatable("builtin any is rebound in this module", n)
            gen = self.one_generator(n.args[0])
            if gen.ifs:
                raise Untranslatable("any() of a filtered generator", n)
            src, et = self.iter_source(gen.iter, env)
            lets, env2 = self.bind_target(gen.target, et, "_py_it", env)
            c = self.pure_only(lambda: self.cond(n.args[0].elt, env2), "a generator expression", n)
            return "(List.any %s (fun (_py_it : %s) => %sdecide %s))" % (src, lean_ty(et), lets, c), BOOL
        return Fn.call(self, n, env)


# ------------------------------------------------------------------------------------------------------- registry

PUBO_PY = "qubovert/_pubo.py"
RD = dict(file=PUBO_PY, func="PUBO._reduce_degree", unit="Reduce", props=["C01", "C08"], params=[])
HOOK_NOTE = "the statements guarded by `if __import__(\"os\").environ.get(\"JTIOSUE_QUBOVERT_VERIF\") == \"1\":` (the " \
            "certificate hook, DESIGN.md §5): the translation is that of the function with the guard unset"

REGISTRY = [
    # (c) the key rewrite: drop x and y, insert z before the first larger label
    dict(RD, lean="rd_rekey", group="Reduce", after="old_key, key, z_inserted = key, (), False",
         range=dict(first="old_key, key, z_inserted = key, (), False", last="if not z_inserted:",
                    alts=[dict(while_tail_after_gadget=True)]),
         locals=[("key", "Key"), ("x", "Var"), ("y", "Var"), ("z", "Var")], loop_state=[("key", "Key")],
         not_translated=["everything outside the statements from `old_key, key, z_inserted = key, (), False` to "
                         "`if not z_inserted: key += (z,)`"]),
    # (b) the scan for the pair: first pair already reduced, else first pair in `pairs`, else first pair of maximal count
    dict(RD, lean="rd_scan", group="Reduce", after="in_pairs, previously_used = False, False",
         range=dict(first="in_pairs, previously_used = False, False", last="for i, x in enumerate(key[:-1]):"),
         locals=[("key", "Key"), ("reductions", "RedDict"), ("pairs", "KeySet"), ("pair_frequencies", "FreqDict"),
                 ("x", "Var"), ("y", "Var")],
         local_types={"best_pair": "BestPair"},
         loop_state=[("previously_used", "Bool"), ("best_pair", "BestPair"), ("x", "Var"), ("y", "Var")],
         not_translated=["`x`, `y` on entry are whatever the previous iteration left (unbound on the first): parameters"]),
    # (b) reuse of an existing reduction versus a fresh ancilla (with the frequency bumps)
    dict(RD, lean="rd_choose", group="Reduce", after="if previously_used:", monadic=True,
         range=dict(first="if previously_used:", last="if previously_used:"),
         locals=[("previously_used", "Bool"), ("best_pair", "BestPair"), ("x", "Var"), ("y", "Var"),
                 ("reductions", "RedDict"), ("ancilla", "Var"), ("pair_frequencies", "FreqDict")],
         loop_state=[("x", "Var"), ("y", "Var"), ("z", "Var"), ("reductions", "RedDict"), ("ancilla", "Var"),
                     ("pair_frequencies", "FreqDict")]),
    # (d) + composition: one pass through `while len(key) > deg:` — scan, choice, penalty, key rewrite
    dict(RD, lean="rd_step", group="Reduce", after="while len(key) > deg:", monadic=True,
         range=dict(body_of="<the while loop>"), calls_parts=["rd_scan", "rd_choose", "rd_rekey"],
         locals=[("key", "Key"), ("v", "Rat"), ("D", "Matrix"), ("reductions", "RedDict"), ("pairs", "KeySet"),
                 ("pair_frequencies", "FreqDict"), ("ancilla", "Var"), ("func_lam", "LamFn"), ("x", "Var"), ("y", "Var")],
         loop_state=[("key", "Key"), ("D", "Matrix"), ("reductions", "RedDict"), ("ancilla", "Var"),
                     ("pair_frequencies", "FreqDict"), ("x", "Var"), ("y", "Var")],
         not_translated=[HOOK_NOTE, "`qv.PCBO().add_constraint_eq_AND` (tied in group Logic, C06) and `D += …` are read "
                         "as the prelude's pyIaddEqAND"]),
    # (e) one term of `mapped_self`: the while loop (at most len(key) passes) and `D[key] += v`
    dict(RD, lean="rd_term", group="Reduce", after="for key, v in mapped_self.items():", monadic=True,
         range=dict(body_of="for key, v in mapped_self.items():"), calls_parts=["rd_step"], while_fuel="len(key)",
         locals=[("key", "Key"), ("v", "Rat"), ("deg", "Nat"), ("D", "Matrix"), ("reductions", "RedDict"),
                 ("pairs", "KeySet"), ("pair_frequencies", "FreqDict"), ("ancilla", "Var"), ("func_lam", "LamFn"),
                 ("x", "Var"), ("y", "Var")],
         loop_state=[("D", "Matrix"), ("reductions", "RedDict"), ("ancilla", "Var"), ("pair_frequencies", "FreqDict"),
                     ("x", "Var"), ("y", "Var")],
         not_translated=[HOOK_NOTE, "the QUBOMatrix length check of `D[key] += v`"]),
]

REGISTRY += [
    # PCBO.is_solution_valid: the six relation blocks, whole body
    dict(file="qubovert/_pcbo.py", func="PCBO.is_solution_valid", lean="is_solution_valid", unit="Valid", group="Valid",
         props=["C08", "C02"], params=[("self", "Cons"), ("solution", "Assign")],
         not_translated=["`self` is read only through `self._constraints.get(<relation>, [])` (prelude pyConsGet: the model's "
                         "append-ordered constraint list filtered by relation); `v.value(solution)` is the prelude's pyValue "
                         "(= eval; `pubo_value` is tied in group Values); a KeyError of `value` on a solution that misses a "
                         "variable (known finding C08:uncovered-constraint-variable) is not modelled"]),
]

UNITS = {
    "Reduce": ("SourceReduce.lean", ["Qv.Model.Reduce", "Qv.Gen.PreludeReduce"]),
    "Valid": ("SourceValid.lean", ["Qv.Model.Reduce", "Qv.Gen.PreludeReduce"]),
}


# ------------------------------------------------------------------------------------------------------- replay on the real code

def _fr(x):
    from fractions import Fraction
    return Fraction(x)


def _rat_str(v):
    v = _fr(v)
    return str(v.numerator) if v.denominator == 1 else "%d/%d" % (v.numerator, v.denominator)


def _dresult(D):
    """a returned matrix, printed like the Lean side's `showD` (terms sorted as strings)"""
    from .. import gen_search

    class DResult(gen_search.SatResult):
        def __init__(self, D):
            self.D = {tuple(k): _fr(v) for k, v in D.items()}

        def __str__(self):
            return "[" + ", ".join(sorted('[[%s], "%s"]' % (", ".join(str(i) for i in k), _rat_str(v))
                                          for k, v in self.D.items())) + "]"
    return DResult(D)


def _real_rd_term(inp):
    """the distinguishing input of `search_rd_term` is a whole model and a target degree: the real `to_pubo(deg)`"""
    from qubovert import PUBO
    P = PUBO()
    for k, v in inp["P"]:
        P[tuple(k)] += _fr(v)
    return _dresult(P.to_pubo(deg=inp["deg"]))


def _oracle_rd_term(inp, got, names):
    """C01 on the reduced model: D(s) >= M(s restricted) on every assignment, with equality for some extension of every x,
    and degree <= deg"""
    import itertools
    from fractions import Fraction
    M = {tuple(k): _fr(v) for k, v in inp["P"]}
    D = got.D
    n = 1 + max([i for k in M for i in k] or [-1])
    labs = sorted({i for k in D for i in k} | set(range(n)))
    if len(labs) > 16:
        return None, "too many variables for the truth table"
    if any(len(k) > inp["deg"] for k in D):
        return False, "a key of the result is longer than deg=%d" % inp["deg"]

    def val(Q, s):
        tot = Fraction(0)
        for k, v in Q.items():
            p = v
            for i in k:
                p *= s[i]
            tot += p
        return tot
    reached = {}
    for bits in itertools.product((0, 1), repeat=len(labs)):
        s = dict(zip(labs, bits))
        d, m = val(D, s), val(M, s)
        if d < m:
            return False, "D(s) = %s < M(s) = %s at s = %s" % (_rat_str(d), _rat_str(m), s)
        x = tuple(s[i] for i in range(n))
        if d == m:
            reached[x] = True
        reached.setdefault(x, False)
    bad = [x for x, ok in reached.items() if not ok]
    if bad:
        return False, "no extension of x = %s has D(s) = M(x)" % (bad[0],)
    return True, "never undercuts, exact on some extension of every x, degree <= %d" % inp["deg"]


def _valid_parts(inp):
    from .. import gen_search
    x = {0: inp["x0"]}
    cons = [(rel, gen_search.poly(P)) for rel, P in inp["constraints"]]
    return x, cons


def _real_is_solution_valid(inp):
    import warnings
    from qubovert import PCBO
    x, cons = _valid_parts(inp)
    H = PCBO()
    with warnings.catch_warnings():
        warnings.simplefilter("ignore")
        for rel, P in cons:
            getattr(H, "add_constraint_%s_zero" % rel)(dict(P))
    return bool(H.is_solution_valid(x))


def _oracle_is_solution_valid(inp, got, names):
    """C02: is_solution_valid(x) is true exactly when every recorded constraint holds at x"""
    import operator
    x, cons = _valid_parts(inp)
    ops = dict(eq=operator.eq, ne=operator.ne, lt=operator.lt, le=operator.le, gt=operator.gt, ge=operator.ge)
    want = True
    for rel, P in cons:
        val = sum(v * (x[0] if k else 1) for k, v in P.items())
        want = want and ops[rel](val, 0)
    return (got == want), "every recorded constraint holds: %s, is_solution_valid returned %s" % (want, got)


REAL = {
    "rd_term": ("C01", _real_rd_term, ("P", "deg"), _oracle_rd_term),
    "is_solution_valid": ("C02", _real_is_solution_valid, ("constraints", "x0"), _oracle_is_solution_valid),
}
