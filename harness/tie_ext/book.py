"""Tie extension `book`: the bookkeeping and key-canonicalisation layer (C14, C05).

Generated file  lean/Qv/Gen/SourceBook.lean      (unit "Book")
Trusted prelude lean/Qv/Gen/PreludeBook.lean     (object record `Obj` = Qv.Book.State, literal readings of set.add, dict store,
                                                  `in`, sorted(key=), set(), max, dict.get / pop / clear …)
Proofs          lean/Qv/Proofs/GenEq/Book.lean   (`Qv.Gen.<lean>_eq_model` per entry)
Search          lean/Qv/Gen/Search/Book.lean

Fragment (FnExt.translate; one rule per construct, everything else -> Untranslatable).  `self` is a value of the record
`Obj`, threaded through the statements; a method that writes an attribute returns the new `self` (with the returned value,
if it returns one); a function that can raise returns `Except Err _`, raising calls are bound with `>>=` in evaluation order.

  attributes    self._mapping / _reverse_mapping / _next_label / _variables / _num_binary_variables / _degree / _ancilla /
                _constraints                      -> field read;  `self._x = e`, `self._x, self._y = e1, e2`, `self._x += e`
                                                  -> `{ self with x := … }`;  `self.<property>` -> the @property found by MRO lookup
  dispatch      `super().m(…)` -> the next definition of `m` in the MRO after the class the method is written in, computed
                (C3 linearisation of the `class X(bases)` headers read from the source) for EVERY model class whose MRO contains
                that class; all must agree, otherwise rejected; `dict` methods -> pyDictStore / pyDictClear;
                `self.__class__.m(…)` -> generated dispatch function `cls_m self.kind …` (entry `dispatch=`: one `match` arm per
                model class, the arm is the MRO lookup of `m` in that class);  `cls.m(…)` inside a classmethod -> a function
                parameter `cls_m` (late binding), supplied by the dispatch / by an explicit `C.m2(…)` call with C's lookup
  aliases       `v = self._variables` (a set / dict attribute): `v` names the same object, reads and `v.add(x)` go to the attribute
  sets / dicts  `x in s`, `x not in s`, `s.add(x)`, `d[k] = v`, `set(t)`, `len(…)`, `t.count(x)`, `tuple(…)`, `sorted(…, key=f)`,
                generator / `filter(lambda …)` sources, `any(… for …)`, `max(a, b)` on a cached degree, `max(s)`, `.copy()` of an
                attribute (value semantics), `self.get(k, 0)`, `self.pop(k, 0)`, `-float("inf")`, `"__a%d" % n`
  helpers       `self.m(x, ..)` as a statement, `m` a method of the same class that is not tied (e.g. `_register_term`): inlined,
                parameters renamed to the argument variables (`inline_method`)
  control       `if c: continue` in a loop body (the rest of the body is the else-branch), `if/elif/else`, `for` (foldl / pyForM; `for i in filter(lambda x: c, it)` is the lazy reading
                `for i in it: if c[i/x]`), `return`, `raise KeyError(…)`, `a if c else b`, `f or e`, `not/and/or`, comparisons
"""
import ast
import os
from .. import translate as T
from ..translate import Untranslatable, mangle

U = "qubovert/utils/"
CLASSES = {            # class -> (file, Kind constructor | None)
    "DictArithmetic": (U + "_dict_arithmetic.py", ".dict"),
    "PUBOMatrix": (U + "_pubomatrix.py", ".pubom"), "PUSOMatrix": (U + "_pusomatrix.py", ".pusom"),
    "QUBOMatrix": (U + "_qubomatrix.py", ".qubom"), "QUSOMatrix": (U + "_qusomatrix.py", ".qusom"),
    "Conversions": (U + "_conversions.py", None), "BO": (U + "_bo_parentclass.py", None),
    "QUBO": ("qubovert/_qubo.py", ".qubo"), "QUSO": ("qubovert/_quso.py", ".quso"),
    "PUBO": ("qubovert/_pubo.py", ".pubo"), "PUSO": ("qubovert/_puso.py", ".puso"),
    "PCBO": ("qubovert/_pcbo.py", ".pcbo"), "PCSO": ("qubovert/_pcso.py", ".pcso"),
}
MODEL_CLASSES = ["QUBO", "QUSO", "PUBO", "PUSO", "PCBO", "PCSO", "QUBOMatrix", "QUSOMatrix", "PUBOMatrix", "PUSOMatrix"]
FIELDS = {"_mapping": ("mapping", "Map"), "_reverse_mapping": ("reverse", "RMap"), "_next_label": ("nextLabel", "Nat"),
          "_variables": ("variables", "VSet"), "_num_binary_variables": ("numVars", "Nat"), "_degree": ("degree", "Deg"),
          "_ancilla": ("ancilla", "Nat"), "_constraints": ("constraints", "Cons")}
LEAN_TY = {"Obj": "Obj", "Key": "Key", "Rat": "Rat", "Nat": "Nat", "Int": "Int", "Var": "Var", "Bool": "Bool", "Prop": "Prop",
           "Deg": "Option Nat", "VSet": "List Var", "Map": "List (Var × Nat)", "RMap": "List (Nat × Var)", "OptKey": "Option Key",
           "OKey": "OKey", "Kind": "Kind", "Rel": "Rel", "Poly": "Poly", "Cons": "List (Rel × Poly)", "OptVar": "Option Var",
           "OptInt": "Option Int", "String": "String", "OptMap": "Option (List (Var × Nat))",
           "OptRMap": "Option (List (Nat × Var))", "PolyList": "List Poly"}


def lt(t):
    if isinstance(t, tuple):
        return "(" + " × ".join(lt(x) for x in t) + ")"
    if t not in LEAN_TY:
        raise Untranslatable("no Lean type for %s" % (t,))
    s = LEAN_TY[t]
    return "(%s)" % s if " " in s else s


# ------------------------------------------------------------------------------------------- class table / MRO

_CACHE = {}


def _class_node(name):
    key = (T.repo(), name)
    if key not in _CACHE:
        path = os.path.join(T.repo(), CLASSES[name][0])
        if not os.path.exists(path):
            raise Untranslatable("source file %s is missing" % CLASSES[name][0])
        try:
            tree = ast.parse(open(path).read())
        except SyntaxError as err:
            raise Untranslatable("source file %s does not parse: %s" % (CLASSES[name][0], err))
        hits = [s for s in tree.body if isinstance(s, ast.ClassDef) and s.name == name]
        if len(hits) != 1:
            raise Untranslatable("class %s not found exactly once in %s" % (name, CLASSES[name][0]))
        _CACHE[key] = hits[0]
    return _CACHE[key]


def _bases(name):
    if name == "dict":
        return []
    node = _class_node(name)
    out = []
    for b in node.bases:
        if not (isinstance(b, ast.Name) and (b.id in CLASSES or b.id == "dict")):
            raise Untranslatable("base %s of class %s is not a known class" % (ast.unparse(b), name), node)
        out.append(b.id)
    if node.keywords:
        raise Untranslatable("class %s has a metaclass / keywords" % name, node)
    return out


def mro(name):
    """C3 linearisation computed from the class headers in the source"""
    bases = _bases(name)
    seqs = [mro(b) for b in bases] + [list(bases)]
    out = [name]
    while any(seqs):
        for s in seqs:
            if s and not any(s[0] in o[1:] for o in seqs):
                head = s[0]
                break
        else:
            raise Untranslatable("inconsistent class hierarchy at %s" % name)
        out.append(head)
        seqs = [[x for x in s if x != head] for s in seqs]
    return out


def defines(cls, method):
    if cls == "dict":
        return method in ("__setitem__", "__getitem__", "clear", "__init__", "get", "pop", "copy", "update")
    return any(isinstance(s, ast.FunctionDef) and s.name == method for s in _class_node(cls).body)


def lookup(cls, method, after=None):
    """the class whose definition of `method` an instance of `cls` uses (after `after` in the MRO: `super()` in `after`)"""
    chain = mro(cls)
    if after is not None:
        if after not in chain:
            return None
        chain = chain[chain.index(after) + 1:]
    for c in chain:
        if defines(c, method):
            return c
    raise Untranslatable("no class in the MRO of %s defines %s" % (cls, method))


def super_target(cur, method):
    """`super().method` written in class `cur`: the same class for every model class that inherits from `cur`, or rejected"""
    found = {}
    for k in MODEL_CLASSES + ["DictArithmetic"]:
        c = lookup(k, method, after=cur)
        if c is not None:
            found[k] = c
    if not found:
        raise Untranslatable("no model class inherits from %s" % cur)
    if len(set(found.values())) != 1:
        raise Untranslatable("super().%s in %s resolves differently per class: %s" % (method, cur, found))
    return list(found.values())[0]


def self_target(cur, name):
    """`self.name` (a method / property) written in class `cur`: the lookup must agree for every model class below `cur`"""
    found = {k: lookup(k, name) for k in MODEL_CLASSES + ["DictArithmetic"] if cur in mro(k)}
    if len(set(found.values())) != 1:
        raise Untranslatable("self.%s in %s resolves differently per class: %s" % (name, cur, found))
    return list(found.values())[0]


# ------------------------------------------------------------------------------------------- translator

class FnExt(T.Fn):
    def __init__(self, entry, module_src, fnode, done):
        T.Fn.__init__(self, entry, module_src, fnode, done)
        self.cls = entry["func"].split(".")[0] if "." in entry["func"] else None
        self.mutates = bool(entry.get("mutates"))
        self.how = entry.get("how", "method" if self.cls else "function")     # method | classmethod | static | function
        self.virtual = {}        # cls.m used in a classmethod -> (lean type, callee info)
        self.ret_kinds = []
        self.nb = 0
        self.aliased = set()
        # translate_all's `done` records only a fixed set of facts per function; this module keeps what its own callers
        # need (how / mutates / late-bound parameters / its own type names) in a table stored inside `done`
        self.table = done.setdefault("\0book", {})
        self.key = "cls." + entry["dispatch"] if "dispatch" in entry else entry["func"]

    # ---- callee lookup

    def callee(self, cls, method, node):
        info = self.table.get("%s.%s" % (cls, method))
        if info is None:
            raise Untranslatable("%s.%s is not a (successfully translated) tied function" % (cls, method), node)
        return info

    def fn_type(self, info):
        r = lt(info["ret_ty"]) if info["ret_ty"] != "ObjOnly" else "Obj"
        r = "Except Err %s" % r if info["raises"] else r
        return "(" + " → ".join([lt(t) for t in info["param_tys"]] + [r]) + ")"

    def virtual_args(self, info, for_cls, node):
        """the late-bound methods a classmethod takes as parameters, looked up in class `for_cls`"""
        out = []
        for m in info.get("virtual", []):
            ci = self.callee(lookup(for_cls, m), m, node)
            if ci.get("virtual") or ci["how"] == "method":
                raise Untranslatable("late-bound %s of %s is not a static method" % (m, for_cls), node)
            out.append(ci["lean"])
        return out

    def invoke(self, info, args, node, recv="self", extra=()):
        """call of a tied function: (text, type); binds when it raises; a mutating method rebinds `self` (statement level only)"""
        parts = list(extra)
        if info["how"] == "method":
            parts.append(recv)
        want = info["param_tys"][len(parts):]
        if len(args) != len(want):
            raise Untranslatable("call of %s with %d arguments" % (info["lean"], len(args)), node)
        for (s, t), w in zip(args, want):
            parts.append(self.coerce(s, t, w, node))
        return "(%s %s)" % (info["lean"], " ".join(parts)) if parts else info["lean"]

    def coerce(self, s, t, w, node):
        if t == w:
            return s
        if t == "Lit" and w in ("Nat", "Int", "Rat"):
            return "(%s : %s)" % (s, w)
        if t == "Nat" and w in ("Int", "Rat"):
            return "((%s : Nat) : %s)" % (s, w)
        if t == "Int" and w == "Rat":
            return "((%s : Int) : Rat)" % s
        if t == "Nat" and w == "Deg":
            return "(pyDegOfNat %s)" % s
        if t == "Lit" and w == "Deg":
            return "(pyDegOfNat (%s : Nat))" % s
        if t == "Prop" and w == "Bool":
            return "(decide %s)" % s
        if t == "None" and w.startswith("Opt"):
            return "none"
        if w.startswith("Opt") and w[3:] == t:
            return "(some %s)" % s
        if w == "OptInt" and t in ("Nat", "Lit"):
            return "(some %s)" % self.coerce(s, t, "Int", node)
        if w == "OptVar" and t == "Nat":
            return "(some %s)" % s
        if t == "VSet" and w == "Key" or t == "Key" and w == "VSet":
            return s
        if t == "Empty" and w in ("VSet", "Map", "RMap", "Cons", "Key"):
            return "[]"
        if w == "OKey" and t == ("String", "Var"):
            return s
        raise Untranslatable("a %s where a %s is needed" % (t, w), node)

    def bindx(self, action, ty, node):
        self.nb += 1
        name = "_py_m%d" % self.nb
        self.pend[-1].append((name, ty, action))
        self.raises_now = True
        return name, ty

    def wrapx(self, frame, text, pad):
        for name, ty, action in reversed(frame):
            text = "(%s >>= fun (%s : %s) =>\n%s%s)" % (action, name, lt(ty), pad, text)
        return text

    def pure(self, f, what, node):
        self.pend.append([])
        try:
            out = f()
        finally:
            frame = self.pend.pop()
        if frame:
            raise Untranslatable("an operation that may raise inside %s" % what, node)
        return out

    # ---- expressions

    def is_self(self, n):
        return isinstance(n, ast.Name) and n.id == "self" and self.how == "method"

    def is_super(self, n):
        return isinstance(n, ast.Call) and isinstance(n.func, ast.Name) and n.func.id == "super" and not n.args \
            and not n.keywords and "super" not in self.module_names()

    def num_join(self, ta, tb, node):
        order = ["Lit", "Nat", "Int", "Rat"]
        if ta not in order or tb not in order:
            raise Untranslatable("arithmetic on %s and %s" % (ta, tb), node)
        return order[max(order.index(ta), order.index(tb))]

    def expr(self, n, env, expected=None):
        if isinstance(n, ast.Constant):
            if n.value is None:
                return "none", "None"
            if isinstance(n.value, bool):
                return ("true" if n.value else "false"), "Bool"
            if isinstance(n.value, int) and n.value >= 0:
                return str(n.value), "Lit"
            raise Untranslatable("literal %r" % (n.value,), n)
        if isinstance(n, ast.Name):
            if n.id in env and env[n.id].__class__ is str and env[n.id].startswith("@"):
                # a local bound to a mutable attribute of self (`variables = self._variables`) is that attribute
                return self.expr(ast.Attribute(value=ast.Name(id="self", ctx=ast.Load()), attr=env[n.id][1:], ctx=ast.Load()), env)
            if n.id in env and n.id not in ("self", "cls"):
                return mangle(n.id), env[n.id]
            raise Untranslatable("name %s is not a parameter or an assigned local" % n.id, n)
        if isinstance(n, ast.Attribute) and self.is_self(n.value):
            if n.attr in FIELDS:
                f, t = FIELDS[n.attr]
                return "self.%s" % f, t
            c = self_target(self.cls, n.attr)
            node = [s for s in _class_node(c).body if isinstance(s, ast.FunctionDef) and s.name == n.attr]
            if len(node) != 1 or [ast.unparse(d) for d in node[0].decorator_list] != ["property"]:
                raise Untranslatable("self.%s is not a data attribute of the record nor a @property" % n.attr, n)
            info = self.callee(c, n.attr, n)
            if info["mutates"]:
                raise Untranslatable("a property that writes attributes, read inside an expression", n)
            call = self.invoke(info, [], n)
            return self.bindx(call, info["ret_ty"], n) if info["raises"] else (call, info["ret_ty"])
        if isinstance(n, ast.UnaryOp) and isinstance(n.op, ast.Not):
            return "(¬ %s)" % self.cond(n.operand, env), "Prop"
        if isinstance(n, ast.UnaryOp) and isinstance(n.op, ast.USub):
            v = n.operand
            if isinstance(v, ast.Call) and isinstance(v.func, ast.Name) and v.func.id == "float" and len(v.args) == 1 \
                    and isinstance(v.args[0], ast.Constant) and v.args[0].value == "inf" and "float" not in self.module_names():
                return "pyNegInf", "Deg"
            raise Untranslatable("unary minus", n)
        if isinstance(n, ast.BoolOp):
            v0 = n.values[0]
            if isinstance(n.op, ast.Or) and len(n.values) == 2 and expected == "value" and isinstance(v0, ast.Name) \
                    and env.get(v0.id) == "OptKey":
                a, ta = self.expr(v0, env)             # `f or e` as a value, f None or a tuple
                b, tb = self.pure(lambda: self.expr(n.values[1], env), "a short-circuit operand", n)
                return "(pyOrKey %s %s)" % (a, self.coerce(b, tb, "Key", n)), "Key"
            op = " ∧ " if isinstance(n.op, ast.And) else " ∨ "
            parts = [self.cond(n.values[0], env)]
            parts += [self.pure(lambda v=v: self.cond(v, env), "a short-circuit operand", v) for v in n.values[1:]]
            return "(" + op.join(parts) + ")", "Prop"
        if isinstance(n, ast.Compare):
            return self.compare(n, env), "Prop"
        if isinstance(n, ast.BinOp):
            if isinstance(n.op, ast.Mod) and isinstance(n.left, ast.Constant) and n.left.value == "__a%d":
                b, tb = self.expr(n.right, env)
                return "(pyAncName %s)" % self.coerce(b, tb, "Int", n), "Var"
            a, ta = self.expr(n.left, env)
            b, tb = self.expr(n.right, env)
            t = self.num_join(ta, tb, n)
            if isinstance(n.op, ast.Sub) and t in ("Nat", "Lit"):
                t = "Int"                      # Nat - x is computed in Int
            if t == "Lit":
                t = "Nat"
            sym = {ast.Add: "+", ast.Sub: "-", ast.Mult: "*", ast.Mod: "%"}.get(type(n.op))
            if sym is None or (sym == "%" and t != "Nat"):
                raise Untranslatable("operator %s on %s" % (type(n.op).__name__, t), n)
            return "(%s %s %s)" % (self.coerce(a, ta, t, n), sym, self.coerce(b, tb, t, n)), t
        if isinstance(n, ast.IfExp):
            c = self.cond(n.test, env)
            self.pend.append([])
            a, ta = self.expr(n.body, env)
            fa = self.pend.pop()
            self.pend.append([])
            b, tb = self.expr(n.orelse, env)
            fb = self.pend.pop()
            t = ta if tb == "None" else tb if ta == "None" else ta
            if ta == "None" or tb == "None":
                t = {"Var": "OptVar", "Nat": "OptVar", "Int": "OptInt", "Key": "OptKey"}.get(t, t)
            a, b = self.coerce(a, ta, t, n), self.coerce(b, tb, t, n)
            if fa or fb:
                ok = "(Except.ok %s)"
                return self.bindx("(if %s then %s else %s)" % (c, self.wrapx(fa, ok % a, "    "), self.wrapx(fb, ok % b, "    ")), t, n)
            return "(if %s then %s else %s)" % (c, a, b), t
        if isinstance(n, ast.Dict) and not n.keys:
            return "[]", "Empty"
        if isinstance(n, ast.Tuple):
            parts = [self.expr(x, env) for x in n.elts]
            if len(parts) == 2:
                return "(%s, %s)" % (parts[0][0], parts[1][0]), (parts[0][1], parts[1][1])
            raise Untranslatable("tuple display of %d elements" % len(parts), n)
        if isinstance(n, ast.Subscript) and isinstance(n.value, ast.Name) and self.is_self(n.value):
            raise Untranslatable("self[...] inside an expression", n)
        if isinstance(n, ast.Call):
            return self.call(n, env)
        if isinstance(n, ast.GeneratorExp):
            return self.source(n, env)
        raise Untranslatable("expression %s" % type(n).__name__, n)

    def compare(self, n, env):
        parts, left = [], n.left
        for op, right in zip(n.ops, n.comparators):
            a, ta = self.expr(left, env)
            b, tb = self.expr(right, env)
            if isinstance(op, (ast.In, ast.NotIn)):
                if tb in ("VSet", "Key") and ta in ("Var", "Nat"):
                    c = "(pyIn %s %s)" % (a, b)
                elif tb == "Map" and ta in ("Var", "Nat"):
                    c = "(pyMapHas %s %s)" % (b, a)
                elif tb == "RMap" and ta in ("Nat", "Var"):
                    c = "(pyMapHas %s %s)" % (b, a)
                else:
                    raise Untranslatable("`in` on a %s" % tb, n)
                parts.append("%s = %s" % (c, "true" if isinstance(op, ast.In) else "false"))
            else:
                sym = {ast.Lt: "<", ast.LtE: "≤", ast.Gt: ">", ast.GtE: "≥", ast.Eq: "=", ast.NotEq: "≠"}.get(type(op))
                if sym is None:
                    raise Untranslatable("comparison %s" % type(op).__name__, n)
                if "Deg" in (ta, tb) and sym in ("<", "≤", ">", "≥"):
                    if tb == "Deg":          # b ◇ a mirrored so that the cached degree is on the left
                        a, ta, b, tb, sym = b, tb, a, ta, {"<": ">", ">": "<", "≤": "≥", "≥": "≤"}[sym]
                    b = self.coerce(b, tb, "Nat", n)
                    parts.append({"<": "(pyDegLt %s %s) = true", "≤": "(pyDegLe %s %s) = true",
                                  ">": "(pyDegLe %s %s) = false", "≥": "(pyDegLt %s %s) = false"}[sym] % (a, b))
                else:
                    if ta == "Var" and tb == "Var" or ta == tb == "Key":
                        t = ta
                        if sym not in ("=", "≠"):
                            raise Untranslatable("order comparison of %s" % ta, n)
                    else:
                        if ta == "Var":
                            ta = "Nat"
                        if tb == "Var":
                            tb = "Nat"
                        t = self.num_join(ta, tb, n)
                        t = "Nat" if t == "Lit" else t
                    parts.append("%s %s %s" % (self.coerce(a, ta, t, n), sym, self.coerce(b, tb, t, n)))
            left = right
        return "(" + " ∧ ".join(parts) + ")"

    def cond(self, n, env):
        s, t = self.expr(n, env)
        if t == "Prop":
            return s
        if t == "Bool":
            return "(%s = true)" % s
        if t in ("Nat", "Int", "Rat"):
            return "(%s ≠ 0)" % s
        if t in ("Key", "VSet", "Map", "RMap", "Cons", "PolyList"):
            return "(%s ≠ [])" % s
        raise Untranslatable("truth value of a %s" % t, n)

    def source(self, n, env):
        """something iterated: (lean list, its type)"""
        if isinstance(n, ast.GeneratorExp):
            if len(n.generators) != 1 or n.generators[0].is_async or not isinstance(n.generators[0].target, ast.Name):
                raise Untranslatable("generator expression with several generators / a tuple target", n)
            g = n.generators[0]
            src, ts = self.source(g.iter, env)
            if ts not in ("Key", "VSet"):
                raise Untranslatable("generator over a %s" % ts, n)
            x = g.target.id
            env2 = dict(env)
            env2[x] = "Var"
            if not (isinstance(n.elt, ast.Name) and n.elt.id == x):
                raise Untranslatable("generator expression whose element is not its own variable", n)
            for c in g.ifs:
                cc = self.pure(lambda c=c: self.cond(c, env2), "a generator condition", n)
                src = "(List.filter (fun (%s : Var) => decide %s) %s)" % (mangle(x), cc, src)
            return src, ts
        s, t = self.expr(n, env)
        return s, t

    def call(self, n, env):
        f = n.func
        if n.keywords and not (isinstance(f, ast.Name) and f.id == "sorted"):
            raise Untranslatable("keyword arguments", n)
        if isinstance(f, ast.Name):
            name = f.id
            if name in env:
                raise Untranslatable("call of a local", n)
            if name in ("len", "set", "tuple", "sorted", "any", "max", "isinstance", "filter") and name in self.module_names():
                raise Untranslatable("builtin %s is rebound in this module" % name, n)
            if name == "str" and len(n.args) == 1 and isinstance(n.args[0], ast.Call) and isinstance(n.args[0].func, ast.Name) \
                    and n.args[0].func.id == "type" and len(n.args[0].args) == 1 and not n.args[0].keywords \
                    and not {"str", "type"} & self.module_names():
                a, ta = self.expr(n.args[0].args[0], env)
                if ta == "Var":
                    return "(pyTypeStr %s)" % a, "String"
                raise Untranslatable("str(type(…)) of a %s" % ta, n)
            if name == "set" and not n.args and "set" not in self.module_names():
                return "[]", "Empty"
            if name == "len" and len(n.args) == 1:
                a, ta = self.source(n.args[0], env)
                if ta in ("Key", "VSet", "Map", "RMap", "Cons", "PolyList"):
                    return "(List.length %s)" % a, "Nat"
                raise Untranslatable("len of a %s" % ta, n)
            if name == "set" and len(n.args) == 1:
                a, ta = self.source(n.args[0], env)
                if ta in ("Key", "VSet"):
                    return "(pySet %s)" % a, "VSet"
                raise Untranslatable("set() of a %s" % ta, n)
            if name == "tuple" and len(n.args) == 1:
                a, ta = self.source(n.args[0], env)
                if ta in ("Key", "VSet"):
                    return a, "Key"
                raise Untranslatable("tuple() of a %s" % ta, n)
            if name == "sorted" and len(n.args) == 1:
                kws = {k.arg: k.value for k in n.keywords}
                if set(kws) != {"key"} or not isinstance(kws["key"], ast.Name):
                    raise Untranslatable("sorted without key=<function name>", n)
                info = self.registered_function(kws["key"].id, n)
                if info["param_tys"] != ["Var"] or info["ret_ty"] != "OKey" or info["raises"]:
                    raise Untranslatable("sort key of type other than label -> (str, label)", n)
                a, ta = self.source(n.args[0], env)
                if ta in ("Key", "VSet"):
                    return "(pySorted %s %s)" % (info["lean"], a), "Key"
                raise Untranslatable("sorted() of a %s" % ta, n)
            if name == "any" and len(n.args) == 1 and isinstance(n.args[0], ast.GeneratorExp):
                g = n.args[0]
                if len(g.generators) != 1 or g.generators[0].ifs or not isinstance(g.generators[0].target, ast.Name):
                    raise Untranslatable("any() of this generator", n)
                src, ts = self.source(g.generators[0].iter, env)
                if ts not in ("Key", "VSet"):
                    raise Untranslatable("any() over a %s" % ts, n)
                x = g.generators[0].target.id
                env2 = dict(env)
                env2[x] = "Var"
                c = self.pure(lambda: self.cond(g.elt, env2), "a generator expression", n)
                return "(List.any %s (fun (%s : Var) => decide %s))" % (src, mangle(x), c), "Bool"
            if name == "max" and len(n.args) == 2:
                a, ta = self.expr(n.args[0], env)
                b, tb = self.expr(n.args[1], env)
                if ta == "Deg" and tb in ("Nat", "Lit"):
                    return "(pyMaxDeg %s %s)" % (a, self.coerce(b, tb, "Nat", n)), "Deg"
                raise Untranslatable("max(%s, %s)" % (ta, tb), n)
            if name == "max" and len(n.args) == 1:
                a, ta = self.expr(n.args[0], env)
                if ta == "VSet":
                    return self.bindx("(pyMaxVars %s)" % a, "Var", n)
                raise Untranslatable("max() of a %s" % ta, n)
            if name == "isinstance" and len(n.args) == 2 and isinstance(n.args[1], ast.Name):
                a, ta = self.expr(n.args[0], env)
                if n.args[1].id == "tuple" and ta == "Key":
                    return "true", "Bool"               # keys are tuples in the model universe
                if n.args[1].id == "int" and ta == "Var" and "int" not in self.module_names():
                    return "(pyIsInt %s)" % a, "Bool"
                raise Untranslatable("isinstance(%s, %s)" % (ta, n.args[1].id), n)
            if name in self.table or name in [e["func"] for e in REGISTRY]:
                info = self.registered_function(name, n)
                args = [self.expr(a, env) for a in n.args]
                call = self.invoke(info, args, n)
                return self.bindx(call, info["ret_ty"], n) if info["raises"] else (call, info["ret_ty"])
            raise Untranslatable("call of %s" % name, n)
        if not isinstance(f, ast.Attribute):
            raise Untranslatable("call of a computed function", n)
        recv, m = f.value, f.attr
        # x.count(a), attr.copy()
        if m == "count" and len(n.args) == 1 and not self.is_self(recv):
            a, ta = self.expr(recv, env)
            b, tb = self.expr(n.args[0], env)
            if ta == "Key" and tb == "Var":
                return "(List.count %s %s)" % (b, a), "Nat"
            raise Untranslatable(".count on a %s" % ta, n)
        if m == "copy" and not n.args and isinstance(recv, ast.Attribute) and self.is_self(recv.value) and recv.attr in FIELDS:
            return self.expr(recv, env)               # a copy of a dict / set attribute: the same value
        if m == "get" and self.is_self(recv) and len(n.args) == 2 and isinstance(n.args[1], ast.Constant) \
                and n.args[1].value == 0 and self_target(self.cls, "get") == "dict":
            k, tk = self.expr(n.args[0], env)
            return "(pyDictGet self %s)" % self.coerce(k, tk, "Key", n), "Rat"
        # dynamic dispatch on the class
        dyn = None
        if isinstance(recv, ast.Attribute) and recv.attr == "__class__" and self.is_self(recv.value):
            dyn = "self.kind"
        if dyn:
            info = self.table.get("cls." + m)
            if info is None:
                raise Untranslatable("no generated dispatch for %s" % m, n)
            args = [self.expr(a, env) for a in n.args]
            call = self.invoke(info, args, n, extra=[dyn])
            return self.bindx(call, info["ret_ty"], n) if info["raises"] else (call, info["ret_ty"])
        if isinstance(recv, ast.Name) and recv.id == "cls" and self.how == "classmethod":
            ci = self.callee(lookup(self.cls, m), m, n)
            if ci.get("virtual") or ci["how"] != "static":
                raise Untranslatable("late-bound cls.%s that is not a static method" % m, n)
            self.virtual[m] = ci
            args = [self.expr(a, env) for a in n.args]
            parts = [self.coerce(s, t, w, n) for (s, t), w in zip(args, ci["param_tys"])]
            if len(parts) != len(ci["param_tys"]):
                raise Untranslatable("call of cls.%s with %d arguments" % (m, len(args)), n)
            call = "(cls_%s %s)" % (m, " ".join(parts))
            return self.bindx(call, ci["ret_ty"], n) if ci["raises"] else (call, ci["ret_ty"])
        if isinstance(recv, ast.Name) and recv.id in CLASSES and recv.id not in env:
            # explicit C.m(...): C must be the class of that name (imported into this module, not rebound)
            self.need_class_name(recv.id, n)
            ci = self.callee(lookup(recv.id, m), m, n)
            if ci["how"] == "method":
                raise Untranslatable("explicit %s.%s(self, …) call" % (recv.id, m), n)
            args = [self.expr(a, env) for a in n.args]
            call = self.invoke(ci, args, n, extra=self.virtual_args(ci, recv.id, n))
            return self.bindx(call, ci["ret_ty"], n) if ci["raises"] else (call, ci["ret_ty"])
        if self.is_super(recv) and self.how == "method":
            c = super_target(self.cls, m)
            if c == "dict":
                raise Untranslatable("super().%s of dict inside an expression" % m, n)
            ci = self.callee(c, m, n)
            if ci["mutates"]:
                raise Untranslatable("a method that writes attributes, called inside an expression", n)
            args = [self.expr(a, env) for a in n.args]
            call = self.invoke(ci, args, n)
            return self.bindx(call, ci["ret_ty"], n) if ci["raises"] else (call, ci["ret_ty"])
        raise Untranslatable("method call .%s" % m, n)

    def need_class_name(self, name, node):
        hits = 0
        for s in ast.parse(self.src).body:
            if isinstance(s, ast.ImportFrom):
                hits += sum(1 for a in s.names if (a.asname or a.name) == name and a.asname in (None, name))
            elif isinstance(s, (ast.FunctionDef, ast.ClassDef)) and s.name == name:
                hits += 1 if isinstance(s, ast.ClassDef) and CLASSES[name][0] == self.e["file"] else 100
            elif not isinstance(s, ast.Import):
                hits += 100 * sum(1 for x in ast.walk(s) if isinstance(x, ast.Name) and isinstance(x.ctx, ast.Store) and x.id == name)
        if hits != 1:
            raise Untranslatable("%s is not bound exactly once (import / class definition) in this module" % name, node)

    def registered_function(self, name, node):
        info = self.table.get(name)
        if info is None:
            raise Untranslatable("%s is not a (successfully translated) tied function" % name, node)
        tree = ast.parse(self.src)
        defined = sum(1 for s in tree.body if isinstance(s, ast.FunctionDef) and s.name == name)
        imported = sum(1 for s in tree.body if isinstance(s, ast.ImportFrom) for a in s.names
                       if a.name == name and a.asname is None)
        other = sum(1 for s in tree.body if not isinstance(s, (ast.FunctionDef, ast.ImportFrom, ast.Import, ast.ClassDef))
                    for x in ast.walk(s) if isinstance(x, ast.Name) and isinstance(x.ctx, ast.Store) and x.id == name)
        if defined + imported != 1 or other or (defined and info["file"] != self.e["file"]):
            raise Untranslatable("cannot resolve %s to the tied function" % name, node)
        return info

    # ---- statements

    def with_(self, field, value):
        return "{ self with %s := %s }" % (field, value)

    def setattr_(self, attr, v, tv, node):
        if not self.mutates:
            raise Untranslatable("attribute write in a function registered as not mutating", node)
        if attr not in FIELDS:
            raise Untranslatable("write to attribute %s, which is not part of the record" % attr, node)
        f, t = FIELDS[attr]
        return "let self : Obj := %s;" % self.with_(f, self.coerce(v, tv, t, node))

    def is_self_attr(self, t):
        return isinstance(t, ast.Attribute) and self.is_self(t.value)

    def alias_of(self, target, value):
        """`x = self._attr` for a set / dict attribute: x names the same object (no copy); returns the attribute or None"""
        if isinstance(target, ast.Name) and self.is_self_attr(value) and value.attr in FIELDS \
                and FIELDS[value.attr][1] in ("VSet", "Map", "RMap", "Cons"):
            return value.attr
        return None

    def as_attr(self, recv, env):
        """the attribute of self a receiver denotes (directly or through an alias local)"""
        if self.is_self_attr(recv):
            return recv.attr
        if isinstance(recv, ast.Name) and isinstance(env.get(recv.id), str) and env[recv.id].startswith("@"):
            return env[recv.id][1:]
        return None

    def block(self, stmts, env, k, ind):
        if not stmts:
            return k(env)
        self.pend.append([])
        try:
            out = self.stmt(stmts, env, k, ind)
        finally:
            frame = self.pend.pop()
        return self.wrapx(frame, out, " " * ind)

    def finish(self, v, tv, node):
        """the value of the function at a `return` / at the end"""
        if tv == "None" and self.mutates and self.want_ret is None:
            out, t = "self", "ObjOnly"
        elif self.mutates:
            w = self.want_ret or tv
            out, t = "(%s, self)" % self.coerce(v, tv, w, node), (w, "Obj")
        else:
            w = self.want_ret or tv
            out, t = self.coerce(v, tv, w, node), w
        self.ret_kinds.append(t)
        return "(Except.ok %s)" % out if self.raises else out

    def proc_call(self, info, args, node, recv="self", extra=()):
        call = self.invoke(info, args, node, recv=recv, extra=extra)
        if info["mutates"]:
            if info["ret_ty"] != "ObjOnly":
                raise Untranslatable("statement call of a method that also returns a value", node)
            if not self.mutates:
                raise Untranslatable("call of a mutating method in a function registered as not mutating", node)
            if info["raises"]:
                self.raises_now = True
                return lambda rest: "(%s >>= fun (self : Obj) =>\n%s)" % (call, rest)
            return lambda rest: "let self : Obj := %s;\n%s" % (call, rest)
        if info["raises"]:
            self.raises_now = True
            return lambda rest: "(%s >>= fun _ =>\n%s)" % (call, rest)
        return lambda rest: rest

    def stmt(self, stmts, env, k, ind):
        s, rest = stmts[0], stmts[1:]
        pad = " " * ind

        def cont(env2=env):
            return self.block(rest, env2, k, ind)

        if isinstance(s, ast.Expr) and isinstance(s.value, ast.Constant) and isinstance(s.value.value, str):
            return cont()
        if isinstance(s, ast.Pass):
            return cont()
        if isinstance(s, ast.Return):
            if rest:
                raise Untranslatable("statement after return", rest[0])
            if s.value is None:
                return self.finish("none", "None", s)
            v, tv = self.expr(s.value, env, expected="value")
            return self.finish(v, tv, s)
        if isinstance(s, ast.Raise):
            if rest:
                raise Untranslatable("statement after raise", rest[0])
            exc = s.exc
            name = exc.func.id if isinstance(exc, ast.Call) and isinstance(exc.func, ast.Name) else \
                exc.id if isinstance(exc, ast.Name) else None
            if name not in T.EXC or s.cause is not None or name in self.module_names():
                raise Untranslatable("raise of something that is not a builtin exception of the model's enum", s)
            self.raises_now = True
            return "(Except.error %s)" % T.EXC[name]
        if isinstance(s, ast.Assign):
            if len(s.targets) != 1:
                raise Untranslatable("chained assignment", s)
            t0 = s.targets[0]
            if isinstance(t0, ast.Tuple) and isinstance(s.value, ast.Tuple) and len(t0.elts) == len(s.value.elts):
                # a, b = e1, e2 : all right-hand sides first, then the stores left to right
                vals = [self.expr(v, env) for v in s.value.elts]
                out, env2 = "", dict(env)
                for i, (v, tv) in enumerate(vals):
                    out += "let _py_t%d := %s;\n%s" % (i, v if tv != "Lit" else "(%s : Nat)" % v, pad)
                for i, (tg, (v, tv)) in enumerate(zip(t0.elts, vals)):
                    tv = "Nat" if tv == "Lit" else tv
                    al = self.alias_of(tg, s.value.elts[i])
                    if al:
                        self.aliased.add(al)
                        env2[tg.id] = "@" + al
                        continue
                    out += self.store_target(tg, "_py_t%d" % i, tv, env2, s) + "\n" + pad
                return out + cont(env2)
            if isinstance(t0, ast.Subscript) and self.as_attr(t0.value, env) in ("_mapping", "_reverse_mapping"):
                f, tf = FIELDS[self.as_attr(t0.value, env)]      # directly or through an alias local (`m = self._mapping`)
                kk, tk = self.expr(t0.slice, env)
                v, tv = self.expr(s.value, env)
                kt, vt = ("Var", "Nat") if tf == "Map" else ("Nat", "Var")
                if not self.mutates:
                    raise Untranslatable("attribute write in a function registered as not mutating", s)
                return "let self : Obj := %s;\n%s%s" % (self.with_(f, "(pyMapStore self.%s %s %s)" % (
                    f, self.coerce(kk, tk, kt, s), self.coerce(v, tv, vt, s))), pad, cont())
            al = self.alias_of(t0, s.value)
            if al:
                self.aliased.add(al)
                env2 = dict(env)
                env2[t0.id] = "@" + al
                return cont(env2)
            v, tv = self.expr(s.value, env, expected="value")
            env2 = dict(env)
            return self.store_target(t0, v, tv, env2, s) + "\n" + pad + cont(env2)
        if isinstance(s, ast.AugAssign):
            if self.is_self_attr(s.target):
                cur = ast.Attribute(value=s.target.value, attr=s.target.attr, ctx=ast.Load(), lineno=s.lineno)
                v, tv = self.expr(ast.BinOp(left=cur, op=s.op, right=s.value, lineno=s.lineno), env)
                return self.setattr_(s.target.attr, v, tv, s) + "\n" + pad + cont()
            if isinstance(s.target, ast.Name) and s.target.id in env:
                cur = ast.Name(id=s.target.id, ctx=ast.Load(), lineno=s.lineno)
                v, tv = self.expr(ast.BinOp(left=cur, op=s.op, right=s.value, lineno=s.lineno), env)
                env2 = dict(env)
                env2[s.target.id] = tv
                return "let %s : %s := %s;\n%s%s" % (mangle(s.target.id), lt(tv), v, pad, cont(env2))
            if isinstance(s.target, ast.Subscript) and self.is_self(s.target.value) and isinstance(s.op, ast.Add):
                # self[key] += value : __getitem__ of the object's class, the addition, __setitem__ of the object's class
                gi, si = self.table.get("cls.__getitem__"), self.table.get("cls.__setitem__")
                if not gi or not si:
                    raise Untranslatable("no generated dispatch for item access", s)
                kk, tk = self.expr(s.target.slice, env)
                old = self.bindx(self.invoke(gi, [(kk, tk)], s, extra=["self.kind"]), "Rat", s)[0]
                v, tv = self.expr(s.value, env)
                f = self.proc_call(si, [(kk, tk), ("(%s + %s)" % (old, self.coerce(v, tv, "Rat", s)), "Rat")], s, extra=["self.kind"])
                return f(pad + cont())
            raise Untranslatable("augmented assignment to this target", s)
        if isinstance(s, ast.If):
            c = self.cond(s.test, env)
            a = self.block(s.body, env, lambda e2: cont(), ind + 2)
            b = self.block(s.orelse, env, lambda e2: cont(), ind + 2)
            return "if %s then\n%s  (%s)\n%selse\n%s  (%s)" % (c, pad, a, pad, pad, b)
        if isinstance(s, ast.For):
            return self.for_(s, env, cont, ind)
        if isinstance(s, ast.Expr) and isinstance(s.value, ast.Call):
            return self.call_stmt(s.value, env, cont, pad, s)
        raise Untranslatable("statement %s" % type(s).__name__, s)

    def store_target(self, tg, v, tv, env2, node):
        if isinstance(tg, ast.Name):
            if tg.id in ("self", "cls"):
                raise Untranslatable("assignment to %s" % tg.id, node)
            tv = "Nat" if tv == "Lit" else tv
            if tv == "Prop":
                v, tv = "(decide %s)" % v, "Bool"
            env2[tg.id] = tv
            if tv in ("None", "Empty"):
                raise Untranslatable("a local bound to None", node)
            return "let %s : %s := %s;" % (mangle(tg.id), lt(tv), v)
        if self.is_self_attr(tg):
            if tg.attr in self.aliased:
                raise Untranslatable("attribute %s is rebound while a local names its old value" % tg.attr, node)
            return self.setattr_(tg.attr, v, tv, node)
        raise Untranslatable("assignment target %s" % type(tg).__name__, node)

    def call_stmt(self, c, env, cont, pad, node):
        f = c.func
        if c.keywords or not isinstance(f, ast.Attribute):
            raise Untranslatable("statement call", node)
        recv, m = f.value, f.attr
        if self.is_super(recv) and self.how == "method":
            tgt = super_target(self.cls, m)
            args = [self.expr(a, env) for a in c.args]
            if tgt == "dict":
                if not self.mutates:
                    raise Untranslatable("dict mutation in a function registered as not mutating", node)
                if m == "__setitem__" and len(args) == 2:
                    return "let self : Obj := (pyDictStore self %s %s);\n%s%s" % (
                        self.coerce(args[0][0], args[0][1], "Key", node), self.coerce(args[1][0], args[1][1], "Rat", node), pad, cont())
                if m == "clear" and not args:
                    return "let self : Obj := (pyDictClear self);\n%s%s" % (pad, cont())
                if m == "__init__" and not args:
                    return cont()                   # dict.__init__() without arguments leaves the dict as it is
                raise Untranslatable("super().%s of dict" % m, node)
            return self.proc_call(self.callee(tgt, m, node), args, node)(pad + cont())
        if self.is_self(recv):
            if m == "pop" and len(c.args) == 2 and isinstance(c.args[1], ast.Constant) and c.args[1].value == 0 \
                    and self_target(self.cls, "pop") == "dict":
                if not self.mutates:
                    raise Untranslatable("dict mutation in a function registered as not mutating", node)
                kk, tk = self.expr(c.args[0], env)
                return "let self : Obj := (pyDictPop self %s);\n%s%s" % (self.coerce(kk, tk, "Key", node), pad, cont())
            if m == "__init__":
                info = self.table.get("cls.__init__")
                if not info:
                    raise Untranslatable("no generated dispatch for __init__", node)
                if c.args:
                    raise Untranslatable("self.__init__ with arguments", node)
                return self.proc_call(info, [("none", "None")], node, extra=["self.kind"])(pad + cont())
            inl = self.inline_method(m, c, env, node)
            if inl is not None:
                return self.block(inl, env, lambda e2: cont(e2), len(pad))
            raise Untranslatable("statement call self.%s" % m, node)
        if self.as_attr(recv, env) == "_variables" and m == "add" and len(c.args) == 1:
            a, ta = self.expr(c.args[0], env)
            return self.setattr_("_variables", "(pySetAdd self.variables %s)" % self.coerce(a, ta, "Var", node), "VSet", node) \
                + "\n" + pad + cont()
        # self._constraints.setdefault(key, []).append(c)
        if m == "append" and len(c.args) == 1 and isinstance(recv, ast.Call) and isinstance(recv.func, ast.Attribute) \
                and recv.func.attr == "setdefault" and self.is_self_attr(recv.func.value) and recv.func.value.attr == "_constraints" \
                and len(recv.args) == 2 and isinstance(recv.args[1], ast.List) and not recv.args[1].elts:
            kk, tk = self.expr(recv.args[0], env)
            v, tv = self.expr(c.args[0], env)
            return self.setattr_("_constraints", "(pyConsAppend self.constraints %s %s)" % (
                self.coerce(kk, tk, "Rel", node), self.coerce(v, tv, "Poly", node)), "Cons", node) + "\n" + pad + cont()
        raise Untranslatable("statement call .%s" % m, node)

    @staticmethod
    def no_continue(body):
        """`if c: continue` directly among the statements of a loop body: the rest of the body is its else-branch"""
        for i, x in enumerate(body):
            if isinstance(x, ast.If) and not x.orelse and len(x.body) == 1 and isinstance(x.body[0], ast.Continue):
                rest = FnExt.no_continue(body[i + 1:])
                return body[:i] + [ast.If(test=x.test, body=[ast.Pass(lineno=x.lineno)], orelse=rest or [ast.Pass(lineno=x.lineno)],
                                          lineno=x.lineno)]
        return body

    def inline_method(self, m, c, env, node):
        """`self.m(x, ..)` as a statement where `m` is a method of the class this function is written in that is not part
        of the tie: its statements with each parameter renamed to its argument (arguments must be variables; the helper
        must not `return`, and the locals it binds must be new names here) — None when `m` is not such a method"""
        import copy
        if self.how != "method" or c.keywords:
            return None
        try:
            tgt = self_target(self.cls, m)
        except Untranslatable:
            return None
        if tgt != self.cls or tgt not in CLASSES or ("%s.%s" % (tgt, m)) in self.table:
            return None
        hits = [x for x in _class_node(tgt).body if isinstance(x, ast.FunctionDef) and x.name == m]
        if len(hits) != 1:
            return None
        h, a = hits[0], hits[0].args
        if h.decorator_list or a.vararg or a.kwarg or a.kwonlyargs or a.posonlyargs or a.defaults or not a.args:
            return None
        params = [x.arg for x in a.args]
        if len(params) - 1 != len(c.args) or not all(isinstance(x, ast.Name) and x.id in env for x in c.args):
            raise Untranslatable("call of the untied method %s with arguments that are not variables" % m, node)
        body = [x for x in h.body if not (isinstance(x, ast.Expr) and isinstance(x.value, ast.Constant)
                                          and isinstance(x.value.value, str))]
        ren = dict(zip(params, ["self"] + [x.id for x in c.args]))
        for x in body:
            for y in ast.walk(x):
                if isinstance(y, (ast.Return, ast.Yield, ast.YieldFrom, ast.Global, ast.Nonlocal, ast.FunctionDef)):
                    raise Untranslatable("untied method %s with a return / nested function" % m, node)
                if isinstance(y, ast.Name) and isinstance(y.ctx, ast.Store) and (y.id in env or y.id in ren):
                    raise Untranslatable("untied method %s binds `%s`, a name of its caller" % (m, y.id), node)
                if isinstance(y, ast.Name) and isinstance(y.ctx, ast.Load) and y.id not in ren and y.id in env \
                        and y.id not in self.assigned(body):
                    raise Untranslatable("untied method %s reads the global `%s`, a local of its caller" % (m, y.id), node)
        out = copy.deepcopy(body)
        for x in out:
            for y in ast.walk(x):
                if isinstance(y, ast.Name) and y.id in ren:
                    y.id = ren[y.id]
        return out

    def for_(self, s, env, cont, ind):
        pad = " " * ind
        it, body, target = s.iter, self.no_continue(list(s.body)), s.target
        if s.orelse or any(isinstance(x, (ast.Return, ast.Break, ast.Continue)) for b in body for x in ast.walk(b)):
            raise Untranslatable("for with else / return / break / continue", s)
        if isinstance(it, ast.Call) and isinstance(it.func, ast.Name) and it.func.id == "filter" and len(it.args) == 2 \
                and isinstance(it.args[0], ast.Lambda) and "filter" not in self.module_names() and isinstance(target, ast.Name):
            lam = it.args[0]
            a = lam.args
            if len(a.args) != 1 or a.vararg or a.kwarg or a.kwonlyargs or a.defaults or a.posonlyargs:
                raise Untranslatable("lambda with other than one plain parameter", lam)
            p = a.args[0].arg

            class Ren(ast.NodeTransformer):
                def visit_Name(self, node):
                    return ast.copy_location(ast.Name(id=target.id, ctx=node.ctx), node) if node.id == p else node
            if p != target.id and any(isinstance(x, ast.Name) and x.id == target.id for x in ast.walk(lam.body)):
                raise Untranslatable("filter lambda mentions the loop variable", lam)
            test = Ren().visit(ast.parse(ast.unparse(lam.body), mode="eval").body)
            # filter is lazy: the test of an element is evaluated when the loop reaches it
            body = [ast.If(test=test, body=body, orelse=[], lineno=s.lineno)]
            it = it.args[1]
        src, ts = self.source(it, env)
        if ts in ("Key", "VSet") and isinstance(target, ast.Name):
            et, lets, env_b = "Var", "", dict(env)
            env_b[target.id] = "Var"
            itname = mangle(target.id)
        elif ts in ("Map", "RMap") and isinstance(target, ast.Tuple) and len(target.elts) == 2 \
                and all(isinstance(x, ast.Name) for x in target.elts):
            a, b = ("Var", "Nat") if ts == "Map" else ("Nat", "Var")
            et, itname, env_b = (a, b), "_py_it", dict(env)
            env_b[target.elts[0].id], env_b[target.elts[1].id] = a, b
            lets = "let %s : %s := _py_it.1; let %s : %s := _py_it.2;\n%s    " % (
                mangle(target.elts[0].id), lt(a), mangle(target.elts[1].id), lt(b), pad)
        elif ts == "Poly" and isinstance(target, ast.Tuple) and len(target.elts) == 2 \
                and all(isinstance(x, ast.Name) for x in target.elts):
            et, itname, env_b = ("Key", "Rat"), "_py_it", dict(env)
            env_b[target.elts[0].id], env_b[target.elts[1].id] = "Key", "Rat"
            lets = "let %s : Key := _py_it.1; let %s : Rat := _py_it.2;\n%s    " % (
                mangle(target.elts[0].id), mangle(target.elts[1].id), pad)
        else:
            raise Untranslatable("iteration over a %s" % (ts,), s)
        assigned = [x for x in self.assigned(body) if x in env and x not in ("self",)]
        if any(isinstance(v, str) and v.startswith("@") for v in env.values()) and any(
                isinstance(x, ast.Attribute) and isinstance(x.ctx, ast.Store) and x.attr in self.aliased for b in body for x in ast.walk(b)):
            raise Untranslatable("aliased attribute rebound inside a loop", s)
        if assigned:
            raise Untranslatable("loop body assigns the outer local %s" % assigned[0], s)
        if not self.mutates:
            raise Untranslatable("loop in a function registered as not mutating", s)
        before = self.raises_now
        self.raises_now = False
        inner = self.block(body, env_b, lambda e2: "\0END", ind + 4)
        body_raises = self.raises_now
        self.raises_now = before or body_raises
        if body_raises:
            inner = inner.replace("\0END", "(Except.ok self)")
            return "((pyForM %s self (fun (self : Obj) (%s : %s) =>\n%s    %s%s)) >>= fun (self : Obj) =>\n%s%s)" % (
                src, itname, lt(et), pad, lets, inner, pad, cont())
        inner = inner.replace("\0END", "self")
        return "let self : Obj := List.foldl (fun (self : Obj) (%s : %s) =>\n%s    %s%s) self %s;\n%s%s" % (
            itname, lt(et), pad, lets, inner, src, pad, cont())

    # ---- the function

    def check_sig(self):
        e, a = self.e, self.fnode.args
        decos = [ast.unparse(d) for d in self.fnode.decorator_list]
        want = {"method": [[], ["property"]], "classmethod": [["classmethod"]], "static": [["staticmethod"]], "function": [[]]}[self.how]
        if decos not in want:
            raise Untranslatable("decorators %s (registry expects %s)" % (decos, want), self.fnode)
        if e.get("star_args"):
            if not a.vararg or not a.kwarg or a.kwonlyargs or a.posonlyargs or [x.arg for x in a.args] != ["self"]:
                raise Untranslatable("signature changed: registry expects (self, *args, **kwargs)", self.fnode)
            return
        if a.vararg or a.kwarg or a.kwonlyargs or a.posonlyargs or a.defaults:
            raise Untranslatable("signature with defaults / *args / **kwargs / keyword-only parameters", self.fnode)
        got = [x.arg for x in a.args]
        first = {"method": ["self"], "classmethod": ["cls"]}.get(self.how, [])
        if got != first + [p for p, _ in e["params"]]:
            raise Untranslatable("signature changed: parameters %s, registry expects %s" % (got, first + [p for p, _ in e["params"]]),
                                 self.fnode)

    def translate(self):
        out = self.translate_inner()
        self.table[self.key] = dict(lean=self.e["lean"], file=self.e["file"], raises=self.raises, param_tys=self.ptys_out,
                                    ret_ty=self.ret_ty, how=self.how, mutates=self.mutates, virtual=list(self.virtual))
        return out

    def translate_inner(self):
        e = self.e
        if "dispatch" in e:
            return self.translate_dispatch()
        self.check_sig()
        self.want_ret = e.get("returns")
        # first pass finds out whether anything can raise and the late-bound parameters; second pass renders
        self.raises = False
        for _ in range(2):
            self.pend, self.nb, self.raises_now, self.ret_kinds = [[]], 0, False, []
            env = {p: t for p, t in e["params"]}
            if self.how == "method":
                env["self"] = "Obj"

            def fall_off(env2):
                return self.finish("none", "None", self.fnode)
            body = self.block(self.body_stmts(), env, fall_off, 2)
            if self.raises_now and not self.raises:
                self.raises = True
                continue
            break
        kinds = [k for k in self.ret_kinds]
        ret = kinds[0]
        for k2 in kinds[1:]:
            if k2 != ret:
                raise Untranslatable("returns of different types %s and %s (declare `returns` in the registry)" % (ret, k2), self.fnode)
        self.ret_ty = ret
        binders, ptys = [], []
        for m, ci in self.virtual.items():
            binders.append("(cls_%s : %s)" % (m, self.fn_type(ci)))
            ptys.append("Fn")
        if self.how == "method":
            binders.append("(self : Obj)")
            ptys.append("Obj")
        for p, t in e["params"]:
            binders.append("(%s : %s)" % (mangle(p), lt(t)))
            ptys.append(t)
        r = "Obj" if ret == "ObjOnly" else lt(ret)
        rty = "Except Err %s" % r if self.raises else r
        self.ptys_out = ptys
        return binders, ptys, rty, body

    def body_stmts(self):
        body = list(self.fnode.body)
        e = self.e
        if "only" in e:        # a contiguous group of statements identified by their text
            want = [ast.dump(x) for x in ast.parse(e["only"]).body]
            dumps = [ast.dump(x) for x in body]
            idx = [i for i in range(len(body)) if dumps[i:i + len(want)] == want]
            if len(idx) != 1:
                raise Untranslatable("statements %r not found exactly once" % e["only"], self.fnode)
            body = body[idx[0]:idx[0] + len(want)]
        return body

    def translate_dispatch(self):
        """`self.__class__.m(…)`: one arm per model class, the arm is the definition the MRO lookup finds"""
        e = self.e
        m = e["dispatch"]
        arms, sig, raises = [], None, False
        infos = {}
        for k in MODEL_CLASSES:
            c = lookup(k, m)
            if c == "dict":
                raise Untranslatable("%s.%s is the builtin dict's" % (k, m), self.fnode)
            infos[k] = self.callee(c, m, self.fnode)
        raises = any(i["raises"] for i in infos.values()) or e.get("dict_arm") == "attr"
        for k in MODEL_CLASSES:
            ci = infos[k]
            user = [t for t in ci["param_tys"] if t not in ("Fn",)]
            if ci["how"] == "method":
                user = user[1:]
            this = (tuple(user), ci["ret_ty"])
            if sig is None:
                sig = this
            elif sig != this:
                raise Untranslatable("definitions of %s have different signatures" % m, self.fnode)
            parts = self.virtual_args(ci, k, self.fnode)
            if ci["how"] == "method":
                parts.append("self")
            parts += ["a%d" % i for i in range(len(user))]
            call = "%s %s" % (ci["lean"], " ".join(parts))
            if raises and not ci["raises"]:
                call = "Except.ok (%s)" % call
            arms.append("  | %s => %s" % (CLASSES[k][1], call))
        if e.get("dict_arm") == "attr":
            arms.append("  | .dict => Except.error Err.attr")       # DictArithmetic has no such method
        else:
            ci = self.callee(lookup("DictArithmetic", m), m, self.fnode)
            call = "%s %s" % (ci["lean"], " ".join((["self"] if ci["how"] == "method" else []) + ["a%d" % i for i in range(len(sig[0]))]))
            arms.append("  | .dict => %s" % ("Except.ok (%s)" % call if raises and not ci["raises"] else call))
        method = any(i["how"] == "method" for i in infos.values())
        binders = ["(κ : Kind)"] + (["(self : Obj)"] if method else []) + ["(a%d : %s)" % (i, lt(t)) for i, t in enumerate(sig[0])]
        self.how = "method" if method else "static"
        self.raises = raises
        self.ret_ty = sig[1]
        self.mutates = any(i["mutates"] for i in infos.values())
        r = "Obj" if sig[1] == "ObjOnly" else lt(sig[1])
        ptys = ["Kind"] + (["Obj"] if method else []) + list(sig[0])
        self.ptys_out = ptys
        return binders, ptys, ("Except Err %s" % r if raises else r), "match κ with\n" + "\n".join(arms)




# ------------------------------------------------------------------------------------------- registry

UNITS = {"Book": ("SourceBook.lean", ["Qv.Model.Book", "Qv.Gen.PreludeBook"])}
BK = dict(unit="Book", group="Book")
KEYS = ["C05", "C14"]
PM, SM, QM, LM, DA, BOF = (U + "_pubomatrix.py", U + "_pusomatrix.py", U + "_qubomatrix.py", U + "_qusomatrix.py",
                           U + "_dict_arithmetic.py", U + "_bo_parentclass.py")
NT_LABELS = "labels are natural numbers: `isinstance(key, tuple)` is statically true, `isinstance(k, int)` / `k < 0` never fire " \
            "(malformed keys are exercised by the correspondence only)"


def _ckv(file, cls, note=None):
    return dict(BK, file=file, func=cls + "._check_key_valid", lean=cls + "_check_key_valid", how="static",
                params=[("key", "Key")], returns="OptKey", props=KEYS, not_translated=[note or NT_LABELS])


REGISTRY = [
    dict(BK, file=U + "_ordering_key.py", func="ordering_key", lean="ordering_key", how="function", params=[("x", "Var")],
         returns="OKey", props=KEYS, not_translated=["`str(type(x))` is one fixed string: labels of one model have one type in the "
                                                     "model universe (DESIGN.md §3.1)"]),
    _ckv(PM, "PUBOMatrix"), _ckv("qubovert/_pubo.py", "PUBO"), _ckv("qubovert/_puso.py", "PUSO"),
    _ckv("qubovert/_qubo.py", "QUBO"), _ckv("qubovert/_quso.py", "QUSO"),
    dict(BK, file=PM, func="PUBOMatrix.squash_key", lean="PUBOMatrix_squash_key", how="classmethod", params=[("key", "Key")],
         props=KEYS, not_translated=["`cls._check_key_valid` is a function parameter (late binding); the dispatch "
                                     "`cls_squash_key` supplies each class's own"]),
    dict(BK, file=SM, func="PUSOMatrix.squash_key", lean="PUSOMatrix_squash_key", how="classmethod", params=[("key", "Key")],
         props=KEYS, not_translated=["as PUBOMatrix.squash_key"]),
    _ckv(QM, "QUBOMatrix"), _ckv(LM, "QUSOMatrix"),
    dict(BK, file=PM, func="PUBOMatrix.squash_key", dispatch="squash_key", lean="cls_squash_key", dict_arm="attr", props=KEYS,
         not_translated=["not a function of the source: the method-resolution table `cls.squash_key` for the ten model classes, "
                         "computed from the `class X(bases)` headers (C3) and the classes' method definitions"]),
    dict(BK, file=DA, func="DictArithmetic.__getitem__", lean="DictArithmetic_getitem", params=[("key", "Key")], props=KEYS),
    dict(BK, file=DA, func="DictArithmetic.__setitem__", lean="DictArithmetic_setitem", params=[("key", "Key"), ("value", "Rat")],
         mutates=True, props=KEYS),
    dict(BK, file=PM, func="PUBOMatrix.__getitem__", lean="PUBOMatrix_getitem", params=[("key", "Key")], props=KEYS),
    dict(BK, file=PM, func="PUBOMatrix.__setitem__", lean="PUBOMatrix_setitem", params=[("key", "Key"), ("value", "Rat")],
         mutates=True, props=KEYS, extra_theorems=["PUBOMatrix_setitem_terms"]),
    dict(BK, file=BOF, func="BO.__setitem__", lean="BO_setitem", params=[("key", "Key"), ("value", "Rat")], mutates=True,
         props=["C14"], extra_theorems=["BO_setitem_eq_model_of_inv"]),
    dict(BK, file=BOF, func="BO.__setitem__", dispatch="__setitem__", lean="cls_setitem", props=["C14"],
         not_translated=["the method-resolution table of `self[key] = value` for the ten model classes and DictArithmetic"]),
    dict(BK, file=PM, func="PUBOMatrix.__getitem__", dispatch="__getitem__", lean="cls_getitem", props=["C14"],
         not_translated=["the method-resolution table of `self[key]`"]),
    dict(BK, file=PM, func="PUBOMatrix.degree", lean="PUBOMatrix_degree", params=[], props=["C14"]),
    dict(BK, file=PM, func="PUBOMatrix.variables", lean="PUBOMatrix_variables", params=[], props=["C14"]),
    dict(BK, file=PM, func="PUBOMatrix.num_binary_variables", lean="PUBOMatrix_num_binary_variables", params=[], props=["C14"]),
    dict(BK, file=PM, func="PUBOMatrix.max_index", lean="PUBOMatrix_max_index", params=[], props=["C14"]),
    dict(BK, file=BOF, func="BO.max_index", lean="BO_max_index", params=[], props=["C14"]),
    dict(BK, file=BOF, func="BO.mapping", lean="BO_mapping", params=[], props=["C14"]),
    dict(BK, file=BOF, func="BO.reverse_mapping", lean="BO_reverse_mapping", params=[], props=["C14"]),
    dict(BK, file="qubovert/_pcbo.py", func="PCBO.num_ancillas", lean="PCBO_num_ancillas", params=[], props=["C14"]),
    dict(BK, file="qubovert/_pcbo.py", func="PCBO._next_ancilla", lean="PCBO_next_ancilla", params=[], mutates=True, props=["C14"],
         not_translated=['the label `"__a%d" % n` is the model label `ANC + n` (DESIGN.md §3.1)']),
    dict(BK, file="qubovert/_pcbo.py", func="PCBO._append_constraint", lean="PCBO_append_constraint",
         params=[("key", "Rel"), ("constraint", "Poly")], mutates=True, props=["C14"],
         not_translated=["the dict of lists `_constraints` is the list of (relation, constraint) pairs in append order"]),
]


# ------------------------------------------------------------------------------------------- replay on the real code

def _cls(name):
    import qubovert as qv
    import qubovert.utils as qu
    return getattr(qv, name, None) or getattr(qu, name)


def _mk(st):
    """a real object in the state `st` (the JSON of `Qv.Gen.Search.jState`): attributes set directly, labels = the ids"""
    from fractions import Fraction
    o = _cls(st["kind"])()
    for k, v in st["terms"]:
        dict.__setitem__(o, tuple(k), Fraction(v))
    o._variables = set(st["variables"])
    o._num_binary_variables = st["num_binary_variables"]
    o._degree = -float("inf") if st["degree"] is None else st["degree"]
    if hasattr(o, "_mapping"):
        o._mapping = {a: b for a, b in st["mapping"]}
        o._reverse_mapping = {a: b for a, b in st["reverse"]}
        o._next_label = st["next_label"]
    if hasattr(o, "_ancilla"):
        o._ancilla = st["ancilla"]
    return o


class _Shown:
    """a result printed like the Lean side"""
    def __init__(self, text, obj=None):
        self.text, self.obj = text, obj

    def __str__(self):
        return self.text

    def __repr__(self):
        return self.text


def _show_state(o, st):
    import json
    from fractions import Fraction

    def fr(v):
        v = Fraction(v)
        return str(v.numerator) if v.denominator == 1 else "%d/%d" % (v.numerator, v.denominator)
    d = [("kind", json.dumps(type(o).__name__)),
         ("terms", "[" + ", ".join("[[%s], \"%s\"]" % (", ".join(str(i) for i in k), fr(v)) for k, v in o.items()) + "]"),
         ("mapping", "[" + ", ".join("[%d, %d]" % (a, b) for a, b in getattr(o, "_mapping", {}).items()) + "]"),
         ("reverse", "[" + ", ".join("[%d, %d]" % (a, b) for a, b in getattr(o, "_reverse_mapping", {}).items()) + "]"),
         ("next_label", str(getattr(o, "_next_label", st["next_label"]))),
         ("variables", "[" + ", ".join(str(i) for i in sorted(o._variables)) + "]"),
         ("num_binary_variables", str(o._num_binary_variables)),
         ("degree", "null" if o._degree == -float("inf") else str(o._degree)),
         ("ancilla", str(getattr(o, "_ancilla", st["ancilla"])))]
    return "{" + ", ".join("%s: %s" % (json.dumps(k), v) for k, v in d) + "}"


def _real_setitem(inp):
    from fractions import Fraction
    o = _mk(inp["self"])
    o[tuple(inp["key"])] = Fraction(inp["value"])
    return _Shown(_show_state(o, inp["self"]), o)


def _real_squash(inp):
    k = _cls(inp["kind"]).squash_key(tuple(inp["key"]))
    return _Shown("[" + ", ".join(str(i) for i in k) + "]", k)


def _real_getitem(inp):
    from fractions import Fraction
    v = Fraction(_mk(inp["self"])[tuple(inp["key"])])
    return _Shown(str(v.numerator) if v.denominator == 1 else "%d/%d" % (v.numerator, v.denominator), v)


def _setitem_oracle(inp, got, names):
    """C14 on the live object after the edit: caches are upper bounds; mapping / reverse_mapping mutually inverse bijections
    between exactly the reported variables and 0..num_binary_variables-1 (labelled classes)"""
    o = got.obj
    true_vars = {i for k in o for i in k}
    bad = []
    if not true_vars <= o._variables:
        bad.append("variables %s miss %s" % (sorted(o._variables), sorted(true_vars - o._variables)))
    if o._num_binary_variables != len(o._variables):
        bad.append("num_binary_variables %s != |variables| %d" % (o._num_binary_variables, len(o._variables)))
    if len(o) and o._degree < max(len(k) for k in o):
        bad.append("degree %s below the true degree" % o._degree)
    if hasattr(o, "_mapping"):
        m, r = o._mapping, o._reverse_mapping
        if set(m) != o._variables or sorted(m.values()) != list(range(o._num_binary_variables)) \
                or {v: k for k, v in m.items()} != r:
            bad.append("mapping %s / reverse_mapping %s are not inverse bijections variables %s <-> 0..%d" % (
                m, r, sorted(o._variables), o._num_binary_variables - 1))
    return (not bad), ("; ".join(bad) or "bookkeeping consistent")


def _squash_oracle(inp, got, names):
    """C05: keys are stored canonically — sorted, duplicate-free, the boolean / spin reduction of the raw key"""
    key, k = inp["key"], list(got.obj)
    spin = inp["kind"] in ("QUSO", "PUSO", "PCSO", "QUSOMatrix", "PUSOMatrix")
    want = sorted(i for i in set(key) if not spin or key.count(i) % 2)
    return k == want, "canonical key %s, squash_key returned %s" % (want, k)


REAL = {
    "cls_squash_key": ("C05", _real_squash, ("kind", "key"), _squash_oracle),
    "cls_setitem": ("C14", _real_setitem, ("self", "key", "value"), _setitem_oracle),
    "BO_setitem": ("C14", _real_setitem, ("self", "key", "value"), _setitem_oracle),
    "PUBOMatrix_setitem": ("C14", lambda inp: (_ for _ in ()).throw(NotImplementedError(
        "PUBOMatrix.__setitem__ alone is not callable on a labelled object; see cls_setitem")), ("self", "key", "value"), None),
    "cls_getitem": ("C05", _real_getitem, ("self", "key"), None),
    "PUBOMatrix_getitem": ("C05", _real_getitem, ("self", "key"), None),
}
