"""Tie extension, second wave, for the problem classes of `qubovert/problems` (property C10; `Problem.solve_bruteforce` also C09).

Generated unit: `lean/Qv/Gen/SourceProblems5.lean`; trusted primitives: `lean/Qv/Gen/PreludeProblems2.lean` (on top of
`PreludeProblems.lean`); proofs: `lean/Qv/Proofs/GenEq/Problems5*.lean` …; search: `lean/Qv/Gen/Search/Problems5*.lean`.

Everything of `harness/tie_ext/problems.py` (FnExt) is inherited; added rules — one per construct, anything else is `Untranslatable`:

  own methods     `self._m(a, …)` -> the registered, translated method of the same class (of THIS module's registry or of the
                  first wave's); a trailing parameter the call omits takes the default the registry records for it (the `def`
                  line is checked against it); `@property` methods registered with `property=True` (`self.p` -> the call)
  lazy filter     `filter(lambda k: c, src)` -> pb2LazyFilter src (fun k => c): the source elements paired with the outcome of
                  the test (`c` may raise); `for x in <such an object>: body` -> pb2ForLazyM (test, then body, element by
                  element — the iterator is lazy, an exception of the test comes after the bodies of the earlier elements)
  comprehensions  a filter that may raise -> pb2CompM (test, then element, one source element at a time); two generators
                  `e for a in A for b in B(a)` -> the per-`a` lists in order, flattened (pb2Flatten)
  sets            a set-valued attribute that is iterated / compared (`self._U`) is its element list in iteration order
                  (`P2.SetIter`); `s == self._U` for a set value `s` -> s = pySortedSet U; `set()` -> the empty sorted list;
                  `s.add(x)` on a set local -> insertion into the sorted duplicate-free list (pb2SetAdd); `set(d.keys())`
  tuples of sets  `res = tuple(set() for _ in range(n))` -> n empty sets; `res[i].add(x)` -> pb2TupSetAdd (IndexError)
  early return    `return e` inside (nested) `for` loops of a monadic function -> the loop state is `Except-Flow`
                  (pb2ForRetM): the first `return` ends all enclosing loops with that value
"""
import ast
from harness import translate as T
from harness.translate import (Fn, Untranslatable, Simple, TTuple, TOpt, TList, TV, RAT, INT, NAT, BOOL, PROP, VAR, KEY,
                               POLY, OPAQUE, res, lean_ty, coerce, is_num, mangle, same)
from harness.tie_ext import problems as P1
from harness.tie_ext.problems import (MATQ, MATS, SOL, INDEXOF, DICTAT, SETVAR, SEQCTOR, KIND, is_nat, as_nat)

SETITER = Simple("SetIter", "List Var")               # a set attribute, given by its iteration order
LAZYNAT = Simple("LazyNat", "List (Nat × Except Err Bool)")   # a `filter` object over naturals
TUPSETS = Simple("TupSets", "List (List Var)")        # a tuple of sets (each a sorted duplicate-free list)

PDICT = Simple("PlainDict", "Poly")                   # a plain dict with tuple keys (`dict(qubo)`)
BSOL = Simple("BruteSol", "Brute.Sol")                # second component of a brute-force solver's result
ALPHA = Simple("Alpha", "α")                          # whatever the child's `convert_solution` returns
VALIDFN = Simple("ValidFn", "Sol → Except Err Bool")    # a bound `is_solution_valid`, called with one argument (a dict)
CONVERTFN = Simple("ConvertFn", "Sol → Except Err α")  # the child's `convert_solution`, called with one argument (a dict)

T.PARAM_TYPES.update({
    "P2.PlainDict": lambda: PDICT, "P2.BruteSol": lambda: BSOL, "P2.ConvertFn": lambda: CONVERTFN, "P2.QuboM": lambda: MATQ,
    "P2.Var": lambda: VAR, "P2.SetIter": lambda: SETITER, "P2.LazyNat": lambda: LAZYNAT, "P2.TupSets": lambda: TUPSETS,
    "P2.JobDict": lambda: TList(TTuple([VAR, RAT])),
})


def lean_ty2(t, top=True):
    """translate.lean_ty, but a Simple type whose Lean text is an application (`List Var`) is parenthesised when nested"""
    t = res(t)
    if isinstance(t, Simple):
        return t.lean if top or " " not in t.lean or t.lean.startswith("(") else "(%s)" % t.lean
    if isinstance(t, TTuple):
        x = " × ".join(lean_ty2(e, False) for e in t.elts)
        return x if top else "(" + x + ")"
    if isinstance(t, TOpt):
        x = "Option " + lean_ty2(t.elt, False)
    elif isinstance(t, (TList, T.TSet)):
        x = "List " + lean_ty2(t.elt, False)
    else:
        return lean_ty(t, top)
    return x if top else "(" + x + ")"


class FnExt(P1.FnExt):
    def wrap(self, frame, text, pad):
        for name, ty, action in reversed(frame):
            text = "(%s >>= fun (%s : %s) =>\n%s%s)" % (action, name, lean_ty2(ty), pad, text)
        return text

    def __init__(self, entry, module_src, fnode, done):
        P1.FnExt.__init__(self, entry, module_src, fnode, done)
        self.lazy_srcs = set()

    def translate(self):
        binders, ptys, rty, body = P1.FnExt.translate(self)
        rty = "Except Err (%s)" % lean_ty2(self.ret_ty) if self.raises else lean_ty2(self.ret_ty)
        if self.e.get("typevars"):
            binders = ["{%s : Type}" % v for v in self.e["typevars"]] + binders
        return binders, ptys, rty, body

    # ---- signature: a `@property` registered as such
    def check_signature(self):
        if self.e.get("varsig"):
            a = self.fnode.args
            if self.fnode.decorator_list or a.posonlyargs or a.kwonlyargs or a.defaults or [x.arg for x in a.args] != ["self"] \
                    or a.vararg is None or a.kwarg is None or a.vararg.arg != "args" or a.kwarg.arg != "kwargs":
                raise Untranslatable("signature changed: registry expects (self, *args, **kwargs)", self.fnode)
            return
        if self.e.get("property"):
            d = self.fnode.decorator_list
            if not (len(d) == 1 and isinstance(d[0], ast.Name) and d[0].id == "property"):
                raise Untranslatable("registry expects exactly the decorator @property", self.fnode)
            if "property" in self.module_names():
                raise Untranslatable("builtin property is rebound in this module", self.fnode)
            saved = self.fnode.decorator_list
            self.fnode.decorator_list = []
            try:
                return P1.FnExt.check_signature(self)
            finally:
                self.fnode.decorator_list = saved
        return P1.FnExt.check_signature(self)

    # ---- own methods
    def registry_entry(self, qual):
        reg = [r for r in REGISTRY + P1.REGISTRY if r["func"] == qual and r["file"] == self.e["file"]]
        return reg

    def call_own_method(self, n, env):
        f = n.func
        if f.attr in self.attrs and self.attrs[f.attr][1] == "P2.ConvertFn":
            if len(n.args) != 1:
                raise Untranslatable("self.%s called with other than one argument" % f.attr, n)
            x, tx = self.expr(n.args[0], env)
            if res(tx) is BSOL:         # the solver's result handed over as a dict
                x, tx = self.bind("(pb2SolDict %s)" % x, SOL, n)
            if res(tx) is not SOL:
                raise Untranslatable("self.%s of a %s" % (f.attr, lean_ty(tx)), n)
            return self.bind("(%s %s)" % (mangle(self.attrs[f.attr][0]), x), ALPHA, n)
        cls = self.e["func"].split(".")[0]
        qual = "%s.%s" % (cls, f.attr)
        callee = self.done.get(qual)
        reg = [r for r in self.registry_entry(qual) if callee is not None and r["lean"] == callee["lean"]]
        if callee is None or not reg or callee["file"] != self.e["file"] or callee["status"] != "translated" \
                or reg[-1].get("symbolic") or reg[-1].get("property"):
            raise Untranslatable("method self.%s is not a translated method of this class" % f.attr, n)
        reg = reg[-1]
        pp = reg["pyparams"]
        if len(n.args) > len(pp) or any(len(p) < 3 for p in pp[len(n.args):]):
            raise Untranslatable("call of self.%s with %d arguments" % (f.attr, len(n.args)), n)
        args, seen = [], set()
        for _, ln, ty in reg["attrs"]:
            if ln not in seen and ty != "P.SeqCtor":
                seen.add(ln)
                args.append(mangle(ln))
        for i, p in enumerate(pp):
            pt = T.PARAM_TYPES[p[1]]()
            if i < len(n.args):
                a = n.args[i]
                s, t = self.expr(a, env, pt)
                if res(pt) is NAT and res(t) is INT:
                    s, t = as_nat(s, t, n), NAT
            else:           # the parameter's default (check_signature of the callee compared it with the `def` line)
                a = ast.parse(p[2]).body[0].value
                s, t = self.expr(a, {}, pt)
            if p[1] == "P.Sol" and res(t) is BSOL:
                s, t = self.bind("(pb2SolDict %s)" % s, SOL, n)      # the solver's result handed over as a dict
                args.append(s)
                args.append("true")
                continue
            args.append(coerce(s, t, pt, n))
            if p[1] == "P.Sol":
                if not isinstance(a, ast.Name) or (a.id + "_is_dict") not in env:
                    raise Untranslatable("a computed solution container", n)
                args.append(mangle(a.id) + "_is_dict")
        return self.bind("(%s %s)" % (callee["lean"], " ".join(args)), callee["ret_ty"], n)

    def property_read(self, n, env):
        """`self.p` for a method of this class registered with `property=True`"""
        if isinstance(n, ast.Attribute) and isinstance(n.value, ast.Name) and n.value.id == "self" \
                and n.attr not in self.attrs:
            cls = self.e["func"].split(".")[0]
            qual = "%s.%s" % (cls, n.attr)
            callee = self.done.get(qual)
            reg = [r for r in self.registry_entry(qual) if r.get("property")]
            if callee and reg and callee["status"] == "translated" and callee["lean"] == reg[-1]["lean"]:
                args, seen = [], set()
                for _, ln, ty in reg[-1]["attrs"]:
                    if ln not in seen and ty != "P.SeqCtor":
                        seen.add(ln)
                        args.append(mangle(ln))
                return self.bind("(%s %s)" % (callee["lean"], " ".join(args)), callee["ret_ty"], n)
        return None

    # ---- expressions
    def lam_except_bool(self, lam, et, env):
        """`lambda k: c` as `fun k => (c : Except Err Bool)`"""
        a = lam.args
        if len(a.args) != 1 or a.vararg or a.kwarg or a.kwonlyargs or a.defaults or a.posonlyargs:
            raise Untranslatable("lambda with other than one plain parameter", lam)
        p = a.args[0].arg
        if p in env:
            raise Untranslatable("lambda parameter %s shadows a local" % p, lam)
        env2 = dict(env)
        env2[p] = et
        c, frame = self.framed(lambda: self.cond(lam.body, env2))
        body = self.wrap(frame, "(Except.ok (decide %s))" % c, "      ")
        return "(fun (%s : %s) => %s)" % (mangle(p), lean_ty(et), body)

    def compare(self, n, env):
        if len(n.ops) == 1 and isinstance(n.ops[0], (ast.Eq, ast.NotEq)):
            la, ra = self.self_attr(n.left), self.self_attr(n.comparators[0])
            sym = "=" if isinstance(n.ops[0], ast.Eq) else "≠"
            if ra is not None and ra[1] is SETITER:
                a, ta = self.expr(n.left, env)
                if res(ta) is not SETVAR:
                    raise Untranslatable("comparison of a %s with a set attribute" % lean_ty(ta), n)
                return "(%s %s (pySortedSet %s))" % (a, sym, ra[0])
            if la is not None and la[1] is SETITER:
                b, tb = self.expr(n.comparators[0], env)
                if res(tb) is not SETVAR:
                    raise Untranslatable("comparison of a set attribute with a %s" % lean_ty(tb), n)
                return "((pySortedSet %s) %s %s)" % (la[0], sym, b)
        return P1.FnExt.compare(self, n, env)

    def bound_method(self, n, env):
        """`self.is_solution_valid` as a value: the function of one argument (a dict; the other parameters defaulted)"""
        if isinstance(n, ast.Attribute) and isinstance(n.value, ast.Name) and n.value.id == "self" and n.attr not in self.attrs \
                and n.attr == "is_solution_valid":
            cls = self.e["func"].split(".")[0]
            qual = "%s.%s" % (cls, n.attr)
            callee = self.done.get(qual)
            reg = [r for r in self.registry_entry(qual) if callee is not None and r["lean"] == callee["lean"]]
            if callee and reg and callee["status"] == "translated" and not reg[-1].get("symbolic") \
                    and [tuple(q) for q in reg[-1]["pyparams"]] == [("solution", "P.Sol"), ("spin", "Bool", "False")]:
                args, seen = [], set()
                for _, ln, ty in reg[-1]["attrs"]:
                    if ln not in seen and ty != "P.SeqCtor":
                        seen.add(ln)
                        args.append(mangle(ln))
                return "(fun (_py_x : Sol) => (%s %s _py_x true false))" % (callee["lean"], " ".join(args)), VALIDFN
        return None

    def expr(self, n, env, expected=None):
        pr = self.property_read(n, env)
        if pr is not None:
            return pr
        bm = self.bound_method(n, env)
        if bm is not None:
            return bm
        if isinstance(n, ast.Compare) and len(n.ops) == 1 and isinstance(n.ops[0], (ast.In, ast.NotIn)):
            a = self.self_attr(n.comparators[0])
            if a is not None and a[1] is SETITER:
                x, tx = self.expr(n.left, env)
                if not is_nat(tx):
                    raise Untranslatable("`in` with a %s on the left" % lean_ty(tx), n)
                return "(List.contains %s %s = %s)" % (a[0], as_nat(x, tx, n), "true" if isinstance(n.ops[0], ast.In) else "false"), PROP
        return P1.FnExt.expr(self, n, env, expected)

    def subscript(self, n, env):
        v = n.value
        if isinstance(v, ast.Call) and isinstance(v.func, ast.Name) and v.func.id == "solve_qubo_bruteforce" \
                and v.func.id not in env and self.const_index(n) == 1 and len(v.args) == 2 and not v.keywords:
            self.imported("qubovert.utils", "solve_qubo_bruteforce", n)
            q, tq = self.expr(v.args[0], env)
            a, ta = self.expr(v.args[1], env)
            if res(tq) is not PDICT or "set_order" not in env:
                raise Untranslatable("solve_qubo_bruteforce on a %s" % lean_ty(tq), n)
            return self.bind("(pb2SolveQubo %s %s set_order)" % (q, coerce(a, ta, BOOL, n)), BSOL, n)
        return P1.FnExt.subscript(self, n, env)

    def multi_gen(self, g, env):
        """`e for a in A for b in B(a)` (no filters): the list of the per-`a` lists, flattened"""
        if len(g.generators) != 2 or any(x.is_async or x.ifs for x in g.generators):
            raise Untranslatable("comprehension with these generators", g)
        g1, g2 = g.generators
        src, et = self.iter_source(g1.iter, env)
        lets, env2 = self.bind_target(g1.target, et, "_py_it", env)

        def inner():
            src2, et2 = self.iter_source(g2.iter, env2)
            lets2, env3 = self.bind_target(g2.target, et2, "_py_it2", env2)
            e, te = self.pure_only(lambda: self.expr(g.elt, env3), "the element of a two-generator comprehension", g)
            return "(List.map (fun (_py_it2 : %s) => %s%s) %s)" % (lean_ty(et2), lets2, e, src2), TList(te)
        s, tl = self.mapm(src, et, lets, inner, g)
        return "(pb2Flatten %s)" % s, res(tl).elt

    def gen_list(self, n, env):
        if len(n.generators) == 2:
            return self.multi_gen(n, env)
        g = self.one_generator(n)
        if g.ifs:
            src, et = self.iter_source(g.iter, env)
            lets, env2 = self.bind_target(g.target, et, "_py_it", env)
            conds, frame = self.framed(lambda: [self.cond(i, env2) for i in g.ifs])
            if frame:       # a filter that may raise: test, then element, one source element at a time
                if len(g.ifs) != 1:
                    raise Untranslatable("several filters of which one may raise", n)
                test = self.wrap(frame, "(Except.ok (decide %s))" % conds[0], "      ")
                (e, te), fe = self.framed(lambda: self.expr(n.elt, env2))
                if res(te) is PROP:
                    e, te = coerce(e, PROP, BOOL), BOOL
                if isinstance(res(te), TV):
                    res(te).ref = INT
                elt = self.wrap(fe, "(Except.ok %s)" % e, "      ")
                return self.bind("(pb2CompM %s (fun (_py_it : %s) => %s%s) (fun (_py_it : %s) => %s%s))" % (
                    src, lean_ty(et), lets, test, lean_ty(et), lets, elt), TList(te), n)
        return P1.FnExt.gen_list(self, n, env)

    def call(self, n, env):
        f = n.func
        if isinstance(f, ast.Name) and f.id == "dict" and f.id not in env and len(n.args) == 1 and not n.keywords \
                and isinstance(n.args[0], ast.Name) and n.args[0].id in env and res(env[n.args[0].id]) in KIND:
            if "dict" in self.module_names():
                raise Untranslatable("builtin dict is rebound in this module", n)
            return "(pb2DictOf %s)" % mangle(n.args[0].id), PDICT
        if isinstance(f, ast.Name) and f.id == "solve_qubo_bruteforce" and f.id not in env and len(n.args) == 3 and not n.keywords:
            self.imported("qubovert.utils", "solve_qubo_bruteforce", n)
            q, tq = self.expr(n.args[0], env)
            a, ta = self.expr(n.args[1], env)
            v, tv = self.expr(n.args[2], env)
            if res(tq) not in (PDICT, POLY) or res(tv) is not VALIDFN or "set_order" not in env:
                raise Untranslatable("solve_qubo_bruteforce on these arguments", n)
            return self.bind("(pb2SolveQuboValid %s %s %s set_order)" % (q, coerce(a, ta, BOOL, n), v), TTuple([TOpt(RAT), BSOL]), n)
        if isinstance(f, ast.Name) and f.id == "filter" and f.id not in env and len(n.args) == 2 and not n.keywords \
                and isinstance(n.args[0], ast.Lambda):
            if "filter" in self.module_names():
                raise Untranslatable("builtin filter is rebound in this module", n)
            src, et = self.iter_source(n.args[1], env)
            if res(et) is not NAT:
                raise Untranslatable("filter over a %s" % lean_ty(et), n)
            return "(pb2LazyFilter %s %s)" % (src, self.lam_except_bool(n.args[0], et, env)), LAZYNAT
        if isinstance(f, ast.Name) and f.id == "set" and f.id not in env and not n.keywords:
            if "set" in self.module_names():
                raise Untranslatable("builtin set is rebound in this module", n)
            if not n.args:
                return "([] : List Var)", SETVAR
            if len(n.args) == 1 and isinstance(n.args[0], ast.GeneratorExp) and len(n.args[0].generators) == 2:
                l, tl = self.multi_gen(n.args[0], env)
                if not is_nat(res(tl).elt):
                    raise Untranslatable("set of %s" % lean_ty(res(tl).elt), n)
                return "(pySortedSet %s)" % l, SETVAR
            if len(n.args) == 1 and isinstance(n.args[0], ast.Call) and isinstance(n.args[0].func, ast.Attribute) \
                    and n.args[0].func.attr == "keys" and not n.args[0].args and not n.args[0].keywords:
                d, td = self.expr(n.args[0].func.value, env)
                td = res(td)
                if isinstance(td, TList) and isinstance(res(td.elt), TTuple) and res(res(td.elt).elts[0]) is VAR:
                    return "(pySortedSet (List.map Prod.fst %s))" % d, SETVAR
                raise Untranslatable("set(….keys()) of a %s" % lean_ty(td), n)
        if isinstance(f, ast.Name) and f.id == "tuple" and f.id not in env and len(n.args) == 1 and not n.keywords \
                and isinstance(n.args[0], ast.GeneratorExp) and len(n.args[0].generators) == 1 \
                and isinstance(n.args[0].elt, ast.Call) and isinstance(n.args[0].elt.func, ast.Name) \
                and n.args[0].elt.func.id == "set" and not n.args[0].elt.args and not n.args[0].elt.keywords:
            g = n.args[0].generators[0]
            if g.ifs or g.is_async or "tuple" in self.module_names() or "set" in self.module_names():
                raise Untranslatable("tuple(set() for …) with filters", n)
            src, et = self.iter_source(g.iter, env)
            return "(List.map (fun (_ : %s) => ([] : List Var)) %s)" % (lean_ty(et), src), TUPSETS
        return P1.FnExt.call(self, n, env)

    # ---- iteration
    def iter_source(self, n, env):
        if isinstance(n, ast.Call) and isinstance(n.func, ast.Attribute) and n.func.attr == "items" and not n.args \
                and not n.keywords:
            a = self.self_attr(n.func.value)
            if a is not None and isinstance(res(a[1]), TList) and isinstance(res(res(a[1]).elt), TTuple):
                return a[0], res(a[1]).elt         # the items of a dict given by its item list
        if isinstance(n, ast.Call) and isinstance(n.func, ast.Name) and n.func.id == "sorted" and n.func.id not in env \
                and len(n.args) == 1 and not n.keywords and isinstance(n.args[0], ast.Call) \
                and isinstance(n.args[0].func, ast.Attribute) and n.args[0].func.attr == "items" and not n.args[0].args \
                and not n.args[0].keywords and isinstance(n.args[0].func.value, ast.Name) \
                and n.args[0].func.value.id in env and res(env[n.args[0].func.value.id]) is SOL:
            if "sorted" in self.module_names():
                raise Untranslatable("builtin sorted is rebound in this module", n)
            return "(pb2SortedItems %s)" % mangle(n.args[0].func.value.id), TTuple([NAT, RAT])
        if isinstance(n, ast.Name) and n.id in env and res(env[n.id]) is SOL and (n.id + "_is_dict") in env:
            # iterating a solver output: the keys of a dict, the elements of a list / tuple
            return "(pb2SolIterVals %s %s_is_dict)" % (mangle(n.id), mangle(n.id)), RAT
        a = self.self_attr(n)
        if a is not None:
            if a[1] is SETITER:
                return a[0], VAR
            if self.attrs[n.attr][1] == "P2.JobDict":
                return "(List.map Prod.fst %s)" % a[0], VAR      # iterating a dict gives its keys
        if isinstance(n, ast.Name) and n.id in env and res(env[n.id]) is TUPSETS:
            return mangle(n.id), SETVAR
        if isinstance(n, ast.Name) and n.id in env and res(env[n.id]) is BSOL:
            l, _ = self.bind("(pb2SolIter %s)" % mangle(n.id), TList(SOL), n)      # the solver's result iterated as a list
            return l, SOL
        if isinstance(n, ast.Call) and isinstance(n.func, ast.Attribute) and isinstance(n.func.value, ast.Name) \
                and n.func.value.id == "self" and not n.keywords and n.func.attr not in self.attrs:
            s, t = self.expr(n, env)
            t = res(t)
            if t is LAZYNAT:
                self.lazy_srcs.add(s)
                return s, NAT
            if isinstance(t, TList):
                return s, t.elt
            raise Untranslatable("iteration over a %s" % lean_ty(t), n)
        return P1.FnExt.iter_source(self, n, env)

    def bind_target(self, target, elt_ty, it, env):
        lets, env2 = P1.FnExt.bind_target(self, target, elt_ty, it, env)
        if isinstance(target, ast.Name) and res(elt_ty) is SOL:
            # (a solution container as a loop element only arises from the solver's list of dicts)
            lets += "let %s_is_dict : Bool := true; " % mangle(target.id)
            env2[target.id + "_is_dict"] = BOOL
        return lets, env2

    def for_body(self, s, env, cont, ind, flow, pad, src, et, accs, acc_tys, acc_ty, mg, init, unpack, lets, env_body,
                 has_ret):
        out = P1.FnExt.for_body(self, s, env, cont, ind, flow, pad, src, et, accs, acc_tys, acc_ty, mg, init, unpack, lets,
                                env_body, has_ret)
        if src in self.lazy_srcs:
            head = "((pyForM %s " % src
            if not out.startswith(head):
                raise Untranslatable("a loop over a filter object in this position", s)
            out = "((pb2ForLazyM %s " % src + out[len(head):]
        return out

    def for_(self, s, env, cont, ind, flow):
        has_ret = any(isinstance(n, ast.Return) for b in s.body for n in ast.walk(b))
        if not has_ret:
            # (a loop without `return` nested in one with `return` is an ordinary loop; its continuation knows the flow)
            return P1.FnExt.for_(self, s, env, cont, ind, None)
        if not self.monadic or s.orelse:
            raise Untranslatable("for ... else / return in a loop of a non-monadic function", s)
        if any(isinstance(n, ast.Raise) for b in s.body for n in ast.walk(b)):
            raise Untranslatable("raise inside a loop with return", s)
        pad = " " * ind
        src, et = self.iter_source(s.iter, env)
        if src in self.lazy_srcs:
            raise Untranslatable("return inside a loop over a filter object", s)
        targets = [n.id for n in ast.walk(s.target) if isinstance(n, ast.Name)]
        names = [x for x in self.assigned(s.body) if x not in targets]
        accs = [x for x in names if x in env and res(env[x]) is not OPAQUE]
        for x in targets:
            if x in env:
                raise Untranslatable("loop target %s shadows a local" % x, s)
        acc_tys = [env[x] for x in accs]
        acc_ty = TTuple(acc_tys) if len(accs) > 1 else (acc_tys[0] if accs else T.UNIT)
        init = "(" + ", ".join(mangle(x) for x in accs) + ")" if accs else "()"
        unpack = "".join("let %s : %s := %s; " % (mangle(x), lean_ty(t), T.proj("_py_acc", i, len(accs)))
                         for i, (x, t) in enumerate(zip(accs, acc_tys)))
        lets, env_body = self.bind_target(s.target, et, "_py_it", env)
        rho = "(%s)" % lean_ty(self.ret_ty) if self.ret_ty is not None else "Unit"     # (first pass: only the types are collected)

        def after_body(env2):
            for x, t in zip(accs, acc_tys):
                if not same(env2[x], t):
                    raise Untranslatable("local %s changes type inside the loop" % x, s)
            tup = "(" + ", ".join(mangle(x) for x in accs) + ")" if accs else "()"
            return "(Except.ok (Pb2Ret.run %s))" % tup

        body = self.block(s.body, env_body, after_body, ind + 4, True)
        rebind = "".join("let %s : %s := %s;\n%s      " % (mangle(x), lean_ty(t), T.proj("_py_acc", i, len(accs)), pad)
                         for i, (x, t) in enumerate(zip(accs, acc_tys)))
        ret_case = "(Except.ok (Pb2Ret.ret _py_v))" if flow else "(Except.ok _py_v)"
        sig = "(%s)" % lean_ty(acc_ty)
        return ("((pb2ForRetM %s %s (fun (_py_acc : %s) (_py_it : %s) =>\n%s    %s%s\n%s    %s)) >>= "
                "fun (_py_r : Pb2Ret %s %s) =>\n%s  (match _py_r with\n%s  | Pb2Ret.ret _py_v => %s\n%s  | Pb2Ret.run _py_acc =>\n%s      %s%s))" % (
                    src, init, lean_ty(acc_ty), lean_ty(et), pad, unpack, lets, pad, body, rho, sig, pad, pad, ret_case, pad,
                    pad, rebind, self.block([], dict(env), cont, ind + 6, flow)))

    # ---- statements
    def stmt(self, stmts, env, k, ind, flow):
        s, rest = stmts[0], stmts[1:]
        pad = " " * ind

        def cont(env2):
            return self.block(rest, env2, k, ind, flow)

        if isinstance(s, ast.Return) and flow and self.monadic:
            if rest:
                raise Untranslatable("statement after return", rest[0])
            return "(Except.ok (Pb2Ret.ret %s))" % self.ret(s, env)

        if isinstance(s, ast.Assign) and len(s.targets) == 1 and isinstance(s.targets[0], ast.Name) \
                and s.targets[0].id in env and res(env[s.targets[0].id]) is SOL and (s.targets[0].id + "_is_dict") in env \
                and isinstance(s.value, ast.Call) and (
                    (isinstance(s.value.func, ast.Name) and s.value.func.id in ("tuple", "list")) or
                    (isinstance(s.value.func, ast.Attribute) and s.value.func.attr == "convert_solution"
                     and isinstance(s.value.func.value, ast.Name) and s.value.func.value.id == "self"
                     and res((self.done.get(self.e["func"].split(".")[0] + ".convert_solution") or {}).get("ret_ty")) is SOL)):
            x = s.targets[0].id
            v, tv = self.expr(s.value, env)
            tv = res(tv)
            if isinstance(tv, TList) and res(tv.elt) is RAT:
                v = "(pb2Enumerate %s)" % v                   # a tuple / list of numbers as a solution container
            elif tv is not SOL or not (isinstance(s.value.func, ast.Attribute) and s.value.func.attr == "convert_solution"):
                raise Untranslatable("assignment of a %s to the solution container" % lean_ty(tv), s)
            # (the result of `tuple(…)` / of this class's `convert_solution` is a tuple, not a dict)
            return "let %s : Sol := %s;\n%slet %s_is_dict : Bool := false;\n%s%s" % (mangle(x), v, pad, mangle(x), pad, cont(env))
        if isinstance(s, ast.Expr) and isinstance(s.value, ast.Call) and isinstance(s.value.func, ast.Attribute) \
                and s.value.func.attr == "setdefault" and len(s.value.args) == 2 and not s.value.keywords \
                and isinstance(s.value.func.value, ast.Name) and s.value.func.value.id in env \
                and res(env[s.value.func.value.id]) is PDICT:
            d = s.value.func.value.id
            dv = s.value.args[1]
            if not (isinstance(dv, ast.Constant) and type(dv.value) is int and dv.value == 0):
                raise Untranslatable("setdefault with a default other than the literal 0", s)
            key = self.key_of(s.value.args[0], env)
            return "let %s : Poly := (pb2Setdefault0 %s %s);\n%s%s" % (mangle(d), mangle(d), key, pad, cont(env))
        # `x.add(e)` / `t[i].add(e)` on a set local / a tuple-of-sets local
        if isinstance(s, ast.Expr) and isinstance(s.value, ast.Call) and isinstance(s.value.func, ast.Attribute) \
                and s.value.func.attr == "add" and len(s.value.args) == 1 and not s.value.keywords:
            recv = s.value.func.value
            if isinstance(recv, ast.Name) and recv.id in env and res(env[recv.id]) is SETVAR:
                v, tv = self.expr(s.value.args[0], env)
                if not is_nat(tv):
                    raise Untranslatable("set.add of a %s" % lean_ty(tv), s)
                return "let %s : List Var := (pb2SetAdd %s %s);\n%s%s" % (
                    mangle(recv.id), mangle(recv.id), as_nat(v, tv, s), pad, cont(env))
            if isinstance(recv, ast.Subscript) and isinstance(recv.value, ast.Name) and recv.value.id in env \
                    and res(env[recv.value.id]) is TUPSETS:
                i, ti = self.expr(recv.slice, env)
                v, tv = self.expr(s.value.args[0], env)
                if not (is_nat(ti) and is_nat(tv)):
                    raise Untranslatable("t[i].add(x) with these operands", s)
                m = recv.value.id
                nm, _ = self.bind("(pb2TupSetAdd %s %s %s)" % (mangle(m), as_nat(i, ti, s), as_nat(v, tv, s)), TUPSETS, s)
                return "let %s : List (List Var) := %s;\n%s%s" % (mangle(m), nm, pad, cont(env))
        return P1.FnExt.stmt(self, stmts, env, k, ind, flow)

    def assigned(self, stmts):
        out = P1.FnExt.assigned(self, stmts)
        for s in stmts:
            for n in ast.walk(s):
                if isinstance(n, ast.Call) and isinstance(n.func, ast.Attribute) and n.func.attr in ("add", "setdefault"):
                    r = n.func.value
                    if isinstance(r, ast.Subscript):
                        r = r.value
                    if isinstance(r, ast.Name) and r.id not in out:
                        out.append(r.id)
        return out


# ------------------------------------------------------------------------------------------------------ registry
_P = "qubovert/problems/"
NOTE_INIT, NOTE_DISPATCH = P1.NOTE_INIT, P1.NOTE_DISPATCH
SOLP = P1.SOLP


def _mk(file, cls, attrs, func, lean, pyparams, group, **kw):
    d = dict(file=_P + file, func="%s.%s" % (cls, func), lean=lean, attrs=attrs, pyparams=pyparams, unit="Problems5",
             group=group, props=["C10"], not_translated=[NOTE_INIT] + kw.pop("notes", []))
    d.update(kw)
    return d


SC_FILE = "np/covering/_set_cover.py"
SC_ATTRS = [("_U", "self_U", "P2.SetIter"), ("_alpha_to_index", "self_U", "P.IndexOf"), ("_V", "self_V", "P.ListListVar"),
            ("_weights", "self_weights", "P.ListRat"), ("_log_trick", "self_log_trick", "Bool"), ("_M", "self_M", "Nat"),
            ("_log_M", "self_log_M", "Nat"), ("_N", "self_N", "Nat"), ("_n", "self_n", "Nat")]
NOTE_SC = ("the sets `_U` and `_V[k]` are their element lists (`_U` in its iteration order, which `_alpha_to_index` enumerates); "
           "labels `_x(alpha, m)` are computed in Int (`m - 1`) and read as naturals where they index the matrix")

REGISTRY = [
    _mk(SC_FILE, "SetCover", SC_ATTRS, "num_binary_variables", "SetCover_num_binary_variables", [], "Problems5",
        property=True),
    _mk(SC_FILE, "SetCover", SC_ATTRS, "_filtered_range", "SetCover__filtered_range",
        [("alpha", "P2.Var"), ("start", "Nat", "0")], "Problems5", notes=[NOTE_SC]),
    _mk(SC_FILE, "SetCover", SC_ATTRS, "_x", "SetCover__x", [("alpha", "P2.Var"), ("m", "Nat")], "Problems5", notes=[NOTE_SC]),
    _mk(SC_FILE, "SetCover", SC_ATTRS, "to_qubo", "SetCover_to_qubo", [("A", "Rat", "2"), ("B", "Rat", "1")], "Problems6",
        defaults=True, extra_theorems=["SetCover_to_qubo_default_eq_model"], notes=[NOTE_SC]),
    _mk(SC_FILE, "SetCover", SC_ATTRS, "convert_solution", "SetCover_convert_solution", SOLP, "Problems5"),
    _mk(SC_FILE, "SetCover", SC_ATTRS, "is_solution_valid", "SetCover_is_solution_valid_converted",
        [("solution", "P.SetVar"), ("spin", "Bool", "False")], "Problems5",
        static={"isinstance(solution, set)": True}, notes=[NOTE_DISPATCH]),
    _mk(SC_FILE, "SetCover", SC_ATTRS, "is_solution_valid", "SetCover_is_solution_valid", SOLP, "Problems5",
        static={"isinstance(solution, set)": False}, notes=[NOTE_DISPATCH]),
]

JS_FILE = "np/coloring/_job_sequencing.py"
JS_ATTRS = [("_lengths", "self_lengths", "P2.JobDict"), ("_job_to_int", "self_jobs", "P.IndexOf"), ("_m", "self_m", "Nat"),
            ("_log_trick", "self_log_trick", "Bool"), ("_max_L", "self_max_L", "Rat"), ("_N", "self_N", "Nat"),
            ("_M", "self_M", "Nat"), ("_log_M", "self_log_M", "Nat")]
NOTE_JS = ("the dict `_lengths` is its item list in insertion order, `_job_to_int` the list of its keys; the slack label "
           "`_y(i, worker)` is computed in Int (`self._m - 1`, `… - 1`) and read as a natural number where it indexes the matrix")


def _mkjs(func, lean, pyparams, group, **kw):
    d = _mk(JS_FILE, "JobSequencing", JS_ATTRS, func, lean, pyparams, group, **kw)
    d["unit"] = "Problems7"
    return d


REGISTRY += [
    _mkjs("_x", "JobSequencing__x", [("job", "P2.Var"), ("worker", "Nat")], "Problems7", notes=[NOTE_JS]),
    _mkjs("_y", "JobSequencing__y", [("i", "Nat"), ("worker", "Nat")], "Problems7", notes=[NOTE_JS]),
    _mkjs("to_qubo", "JobSequencing_to_qubo", [("A", "P.OptRat", "None"), ("B", "Rat", "1")], "Problems7",
          defaults=True, extra_theorems=["JobSequencing_to_qubo_default_eq_model"], notes=[NOTE_JS]),
]

JS_SKIP = ["converted = isinstance(solution, tuple) and all(isinstance(x, set) for x in solution)"]
REGISTRY += [
    _mkjs("convert_solution", "JobSequencing_convert_solution", SOLP, "Problems8"),
    _mkjs("is_solution_valid", "JobSequencing_is_solution_valid_converted",
          [("solution", "P2.TupSets"), ("spin", "Bool", "False")], "Problems8",
          skip=JS_SKIP, static={"converted": True}, notes=[NOTE_DISPATCH]),
    _mkjs("is_solution_valid", "JobSequencing_is_solution_valid", SOLP, "Problems8",
          skip=JS_SKIP, static={"converted": False}, notes=[NOTE_DISPATCH]),
]

NOTE_SCB = ("`solve_qubo_bruteforce(Q, all_solutions, valid)` is the prelude's pb2SolveQuboValid = the model's solver (C09), with "
            "`valid = self.is_solution_valid` the generated `SetCover_is_solution_valid` on a dict (an exception of `valid` is read "
            "as `False`, as in the model: it cannot raise on the total assignments the solver builds — `SC.valid` on `0..N-1`); "
            "`set_order`: the iteration order of the variable set the solver collects; one definition per value of `all_solutions`")


def _mkscb(lean, static):
    d = _mk(SC_FILE, "SetCover", SC_ATTRS, "solve_bruteforce", lean, [("all_solutions", "Bool", "False")], "Problems11",
            static={"all_solutions": static}, locals=[("set_order", "P.ListVar")], notes=[NOTE_SC, NOTE_SCB])
    d["unit"], d["props"] = "Problems11", ["C10", "C09"]
    return d


REGISTRY += [_mkscb("SetCover_solve_bruteforce_one", False), _mkscb("SetCover_solve_bruteforce_all", True)]

PP_FILE = "_problem_parentclass.py"
PB_ATTRS = [("num_binary_variables", "self_num_binary_variables", "Nat"),
            ("convert_solution", "self_convert_solution", "P2.ConvertFn")]
PB_SKIP = ["kwargs = kwargs.copy()", "all_solutions = kwargs.pop('all_solutions', False)", "qubo = self.to_qubo(*args, **kwargs)"]
NOTE_PB = ("`kwargs = kwargs.copy()`, `all_solutions = kwargs.pop(\"all_solutions\", False)`, `qubo = self.to_qubo(*args, **kwargs)`: "
           "their results `all_solutions`, `qubo` (the QUBOMatrix the child's `to_qubo` returned) are parameters; the child's "
           "`num_binary_variables` and `convert_solution` (called with one argument: a dict, `spin` defaulted) are parameters too; "
           "`solve_qubo_bruteforce` is the prelude's pb2SolveQubo = the model's solver (tied to `_solve_bruteforce` by the groups "
           "Brute / BruteWhole of C09), `set_order` the iteration order of the variable set it collects; the two `return`s have "
           "different Python types, so the method is generated once per value of `all_solutions`")


def _mkpb(lean, static):
    return dict(file=_P + PP_FILE, func="Problem.solve_bruteforce", lean=lean, attrs=PB_ATTRS, pyparams=[], varsig=True,
                locals=[("all_solutions", "Bool"), ("qubo", "P2.QuboM"), ("set_order", "P.ListVar")], skip=PB_SKIP,
                static={"all_solutions": static}, typevars=["α"], unit="Problems9", group="Problems9", props=["C10", "C09"],
                extra_theorems=[lean + "_solveVia"] + (["VertexCover_solve_bruteforce_all", "BILP_solve_bruteforce_all"] if static
                                                       else ["VertexCover_solve_bruteforce_one", "BILP_solve_bruteforce_one"]),
                not_translated=[NOTE_PB])


REGISTRY += [_mkpb("Problem_solve_bruteforce_one", False), _mkpb("Problem_solve_bruteforce_all", True)]

ASC_NOTE = ("a tuple of numbers is represented like every solution container: its `(index, value)` items (pb2Enumerate) with the "
            "flag `_is_dict` false; `convert_solution` of this class returns a tuple")
REGISTRY += [
    dict(_mk(P1.ASC_FILE, "AlternatingSectorsChain", P1.ASC_ATTRS, "num_binary_variables", "AlternatingSectorsChain_num_binary_variables",
             [], "Problems10", property=True), unit="Problems10"),
    dict(_mk(P1.ASC_FILE, "AlternatingSectorsChain", P1.ASC_ATTRS, "convert_solution", "AlternatingSectorsChain_convert_solution",
             SOLP, "Problems10", notes=[ASC_NOTE],
             extra_theorems=["SetCover_to_quso_chain", "JobSequencing_to_quso_chain", "VertexCover_to_quso_chain", "BILP_to_quso_chain",
                             "NumberPartitioning_to_qubo_chain", "GraphPartitioning_to_qubo_chain",
                             "AlternatingSectorsChain_to_qubo_chain"]), unit="Problems10"),
    dict(_mk(P1.ASC_FILE, "AlternatingSectorsChain", P1.ASC_ATTRS, "is_solution_valid", "AlternatingSectorsChain_is_solution_valid",
             SOLP, "Problems10", notes=[ASC_NOTE]), unit="Problems10"),
]

UNITS = {"Problems11": ("SourceProblems11.lean", ["Qv.Gen.SourceProblems5"]), "Problems10": ("SourceProblems10.lean", ["Qv.Gen.SourceProblems5"]), "Problems9": ("SourceProblems9.lean", ["Qv.Gen.SourceProblems5"]), "Problems7": ("SourceProblems7.lean", ["Qv.Gen.SourceProblems5"]), "Problems5": ("SourceProblems5.lean", ["Qv.Gen.SourceProblems", "Qv.Gen.PreludeProblems2"])}
UNITS = dict(sorted(UNITS.items()))


# ------------------------------------------------------------------------------------------------------ replay on the real code
from fractions import Fraction as _Fr
from harness.tie_ext.problems import (_Shown, _poly, _bool, _sol, _nats, _rats, _energy_oracle, _valid_oracle, _bits, _call_to)
import itertools


def _sc(inp):
    from qubovert.problems import SetCover
    U = list(inp["U"])
    p = SetCover(set(U), [set(v) for v in inp["V"]], weights=None, log_trick=bool(inp["log_trick"]), M=int(inp["M"]))
    p._weights = [_Fr(w) for w in inp["weights"]]          # (the normalisation test of __init__ is not part of the tie)
    p._alpha_to_index = {a: i for i, a in enumerate(U)}   # the enumeration of the set U is data of the instance
    return p


def _sc_nvars(inp):
    import math
    N, n, M = len(inp["V"]), len(inp["U"]), int(inp["M"])
    return N + n * (int(math.log2(M)) + 2) if inp["log_trick"] else N + n * M


def _sc_form(inp, x):
    """C10: Lucas' H_A + H_B for Set Cover with the counters as written (section 5.1): unary counter
    A*sum_a (1 - sum_m y_am)^2 + A*sum_a (sum_m m*y_am - c_a)^2, binary counter A*sum_a (1 + sum_m 2^m y_am - c_a)^2,
    c_a the number of chosen subsets containing a; plus B*sum_i w_i x_i"""
    import math
    A, B = (_Fr(inp["A"]), _Fr(inp["B"])) if inp.get("A") is not None else (2, 1)
    U, V, M = list(inp["U"]), [set(v) for v in inp["V"]], int(inp["M"])
    N, n = len(V), len(U)
    e = B * sum(_Fr(w) * x[i] for i, w in enumerate(inp["weights"]))
    for ia, a in enumerate(U):
        cnt = sum(x[i] for i in range(N) if a in V[i])
        if inp["log_trick"]:
            bits = int(math.log2(M)) + 2
            e += A * (1 + sum(2 ** m * x[N + ia + n * m] for m in range(bits)) - cnt) ** 2
        else:
            ys = [x[N + ia + n * (m - 1)] for m in range(1, M + 1)]
            e += A * (1 - sum(ys)) ** 2 + A * (sum(m * y for m, y in zip(range(1, M + 1), ys)) - cnt) ** 2
    return e


def _sc_cover_ok(inp, cover):
    V = [set(v) for v in inp["V"]]
    if any(i >= len(V) for i in cover):
        return None
    got = set()
    for i in cover:
        got |= V[i]
    return got == set(inp["U"])


def _sc_feasible(inp):
    items = sorted((int(i), _Fr(v)) for i, v in inp["solution"])
    N = len(inp["V"])
    if [i for i, _ in items][:N] != list(range(N)):
        return None
    vals = [v for _, v in items]
    if all(v in (0, 1) for v in vals) and not (all(v == 1 for v in vals) and inp["spin"]):
        x = vals
    elif all(v in (1, -1) for v in vals):
        x = [(1 - v) / 2 for v in vals]
    else:
        return None
    return _sc_cover_ok(inp, [i for i in range(N) if x[i]])


def _sc_filtered_oracle(inp, got, names):
    want = [k for k in range(int(inp["start"]), len(inp["V"])) if inp["alpha"] in inp["V"][k]]
    return (got.value == want), "_filtered_range gives %s, the subsets from `start` on that contain alpha are %s" % (got.value, want)


REAL = {
    "SetCover_num_binary_variables": ("C10", lambda i: _Shown(str(_sc(i).num_binary_variables)), ("U", "V", "weights", "log_trick", "M"), None),
    "SetCover__x": ("C10", lambda i: _Shown(str(_sc(i)._x(i["alpha"], i["m"]))), ("U", "V", "weights", "log_trick", "M", "alpha", "m"), None),
    "SetCover__filtered_range": ("C10", lambda i: (lambda l: _Shown(_nats(l), l))(list(_sc(i)._filtered_range(i["alpha"], i["start"]))),
                                 ("U", "V", "weights", "log_trick", "M", "alpha", "start"), _sc_filtered_oracle),
    "SetCover_to_qubo": ("C10", _call_to(_sc, "to_qubo", ("A", "B")), ("U", "V", "weights", "log_trick", "M", "A", "B"),
                         _energy_oracle((0, 1), _sc_nvars, _sc_form)),
    "SetCover_convert_solution": ("C10", lambda i: _Shown(_nats(sorted(_sc(i).convert_solution(_sol(i), i["spin"])))),
                                  ("U", "V", "weights", "log_trick", "M", "solution", "is_dict", "spin"), None),
    "SetCover_is_solution_valid": ("C10", lambda i: _bool(_sc(i).is_solution_valid(_sol(i), i["spin"])),
                                   ("U", "V", "weights", "log_trick", "M", "solution", "is_dict", "spin"), _valid_oracle(_sc_feasible)),
    "SetCover_is_solution_valid_converted": ("C10", lambda i: _bool(_sc(i).is_solution_valid(set(i["cover"]))),
                                             ("U", "V", "weights", "log_trick", "M", "cover"),
                                             _valid_oracle(lambda i: _sc_cover_ok(i, i["cover"]))),
}


def _js(inp):
    from qubovert.problems import JobSequencing
    return JobSequencing({int(j): _Fr(l) for j, l in inp["lengths"]}, int(inp["m"]), log_trick=bool(inp["log_trick"]), M=int(inp["M"]))


def _js_maxM(inp):
    import math
    return int(math.log2(int(inp["M"]))) + 1 if inp["log_trick"] else int(inp["M"])


def _js_nvars(inp):
    return int(inp["m"]) * len(inp["lengths"]) + (int(inp["m"]) - 1) * _js_maxM(inp)


def _js_form(inp, x):
    """C10: Lucas' H_A + H_B for Job Sequencing with the slack counters as written:
    A*sum_j (1 - sum_w x_jw)^2 + A*sum_{w>=1} (sum_n c_n y_nw + sum_j L_j (x_jw - x_j0))^2 + B*sum_j L_j x_j0"""
    L = [_Fr(l) for _, l in inp["lengths"]]
    N, m, mm = len(L), int(inp["m"]), _js_maxM(inp)
    B = _Fr(inp["B"]) if inp.get("B") is not None else 1
    A = _Fr(inp["A"]) if (inp.get("A") is not None and inp.get("B") is not None) else B * max(L)
    X = lambda j, w: x[j * m + w]                                 # noqa: E731
    Y = lambda n, w: x[N * m + n * (m - 1) + w - 1]               # noqa: E731
    c = lambda n: 2 ** n if inp["log_trick"] else n + 1           # noqa: E731
    e = B * sum(L[j] * X(j, 0) for j in range(N)) + A * sum((1 - sum(X(j, w) for w in range(m))) ** 2 for j in range(N))
    for w in range(1, m):
        e += A * (sum(c(n) * Y(n, w) for n in range(mm)) + sum(L[j] * (X(j, w) - X(j, 0)) for j in range(N))) ** 2
    return e


def _js_sets(t):
    return _Shown("[" + ", ".join(_nats(sorted(x)) for x in t) + "]")


def _js_assign_ok(inp, sets):
    jobs = [int(j) for j, _ in inp["lengths"]]
    flat = [j for s in sets for j in s]
    return len(flat) == len(set(flat)) and set(flat) == set(jobs)


def _js_feasible(inp):
    items = sorted((int(i), _Fr(v)) for i, v in inp["solution"])
    N, m = len(inp["lengths"]), int(inp["m"])
    if [i for i, _ in items][:N * m] != list(range(N * m)):
        return None
    vals = [v for _, v in items]
    if all(v in (0, 1) for v in vals) and not (all(v == 1 for v in vals) and inp["spin"]):
        xb = vals
    elif all(v in (1, -1) for v in vals):
        xb = [(1 - v) / 2 for v in vals]
    else:
        return None
    jobs = [int(j) for j, _ in inp["lengths"]]
    return _js_assign_ok(inp, [[jobs[j] for j in range(N) if xb[j * m + w] == 1] for w in range(m)])


_JSF = ("lengths", "m", "log_trick", "M")
REAL.update({
    "JobSequencing__x": ("C10", lambda i: _Shown(str(_js(i)._x(i["job"], i["worker"]))), _JSF + ("job", "worker"), None),
    "JobSequencing__y": ("C10", lambda i: _Shown(str(_js(i)._y(i["i"], i["worker"]))), _JSF + ("i", "worker"), None),
    "JobSequencing_to_qubo": ("C10", _call_to(_js, "to_qubo", ("A", "B")), _JSF + ("A", "B"),
                              _energy_oracle((0, 1), _js_nvars, _js_form)),
    "JobSequencing_convert_solution": ("C10", lambda i: _js_sets(_js(i).convert_solution(_sol(i), i["spin"])),
                                       _JSF + ("solution", "is_dict", "spin"), None),
    "JobSequencing_is_solution_valid": ("C10", lambda i: _bool(_js(i).is_solution_valid(_sol(i), i["spin"])),
                                        _JSF + ("solution", "is_dict", "spin"), _valid_oracle(_js_feasible)),
    "JobSequencing_is_solution_valid_converted": (
        "C10", lambda i: _bool(_js(i).is_solution_valid(tuple(set(x) for x in i["assignment"]))), _JSF + ("assignment",),
        _valid_oracle(lambda i: _js_assign_ok(i, i["assignment"]))),
})


def _pb_problem(inp):
    from qubovert.problems import Problem
    from qubovert.utils import QUBOMatrix
    Q, N = {tuple(int(i) for i in k): _Fr(v) for k, v in inp["Q"]}, int(inp["N"])

    class _K(Problem):
        @property
        def num_binary_variables(self):
            return N

        def to_qubo(self):
            return QUBOMatrix(Q)

        def convert_solution(self, solution, spin=False):
            return solution
    return _K(), Q, N


def _pb_show(x):
    return "[" + ", ".join("[%d, %s]" % (int(i), '"%s"' % _gs.fs(_Fr(v))) for i, v in sorted(x.items())) + "]"


def _pb_one(inp):
    k, _, _ = _pb_problem(inp)
    r = k.solve_bruteforce()
    return _Shown(_pb_show(r), [r])


def _pb_all(inp):
    k, _, _ = _pb_problem(inp)
    r = k.solve_bruteforce(all_solutions=True)
    return _Shown("[" + ", ".join(_pb_show(x) for x in r) + "]", r)


def _pb_oracle(all_solutions):
    """C09 / C10: every returned assignment is total on the labels 0..N-1 and on the labels of Q, and minimises Q over them;
    with all_solutions the list holds every minimiser exactly once"""
    def oracle(inp, got, names):
        _, Q, N = _pb_problem(inp)
        Qm = {tuple(sorted(set(k))): v for k, v in Q.items()}
        labels = sorted(set(range(N)) | {i for k in Q for i in k})
        if len(labels) > 12:
            return None, "too many variables"
        best, arg = None, []
        for t in itertools.product((0, 1), repeat=len(labels)):
            x = dict(zip(labels, t))
            e = sum((v * _gs.prod(_Fr(x[i]) for i in k) for k, v in Qm.items()), _Fr(0))
            if best is None or e < best:
                best, arg = e, [x]
            elif e == best:
                arg.append(x)
        sols = got.value
        for s in sols:
            if sorted(s) != labels and (labels or s):
                return False, "returned assignment %s is not total on the labels %s" % (s, labels)
            if s not in arg and labels:
                return False, "returned assignment %s is not a minimiser (minimum %s)" % (s, _gs.fs(best))
        if all_solutions and labels and (len(sols) != len(arg) or any(a not in sols for a in arg)):
            return False, "all_solutions returned %d assignments, there are %d minimisers" % (len(sols), len(arg))
        return True, "minimiser(s) of Q over all labels"
    return oracle


from harness import gen_search as _gs    # noqa: E402
REAL.update({
    "Problem_solve_bruteforce_one": ("C10", _pb_one, ("Q", "N"), _pb_oracle(False)),
    "Problem_solve_bruteforce_all": ("C10", _pb_all, ("Q", "N"), _pb_oracle(True)),
})


def _asc(i):
    from qubovert.problems import AlternatingSectorsChain
    return AlternatingSectorsChain(int(i["N"]), int(i["chain_length"]), _Fr(i["min_strength"]), _Fr(i["max_strength"]))


_ASCF = ("N", "chain_length", "min_strength", "max_strength")


def _asc_valid_oracle(inp, got, names):
    """C10: valid iff all spins are equal (a dict is read in key order; boolean values 0/1 stand for the spins 1/-1)"""
    vals = [_Fr(v) for _, v in (sorted((int(i), v) for i, v in inp["solution"]) if inp["is_dict"] else inp["solution"])]
    if not vals or not (all(v in (0, 1) for v in vals) or all(v in (1, -1) for v in vals)):
        return None, "not an assignment of booleans or of spins"
    if not inp["is_dict"]:
        return None, "a list / tuple is taken as spins as it is: outside the decoding contract"
    spin = all(v in (1, -1) for v in vals) and not (all(v == 1 for v in vals) and not inp["spin"])
    z = vals if spin else [1 - 2 * v for v in vals]
    w = len(set(z)) == 1
    return (got.value == w), "is_solution_valid returned %s, the spins are %s" % (got.value, "all equal" if w else "not all equal")


REAL.update({
    "AlternatingSectorsChain_num_binary_variables": ("C10", lambda i: _Shown(str(_asc(i).num_binary_variables)), _ASCF, None),
    "AlternatingSectorsChain_convert_solution": ("C10", lambda i: _Shown(_rats(_asc(i).convert_solution(_sol(i), i["spin"]))),
                                                 _ASCF + ("solution", "is_dict", "spin"), None),
    "AlternatingSectorsChain_is_solution_valid": ("C10", lambda i: _bool(_asc(i).is_solution_valid(_sol(i), i["spin"])),
                                                  _ASCF + ("solution", "is_dict", "spin"), _asc_valid_oracle),
})


def _scb_oracle(all_solutions):
    """C10 / C09: every returned cover covers U with minimal total weight; with all_solutions every minimal cover exactly once"""
    def oracle(inp, got, names):
        N, w = len(inp["V"]), [_Fr(x) for x in inp["weights"]]
        covers = [c for r in range(N + 1) for c in itertools.combinations(range(N), r) if _sc_cover_ok(inp, c)]
        if not covers:
            return None, "not coverable: ValueError expected"
        best = min(sum(w[i] for i in c) for c in covers)
        arg = [set(c) for c in covers if sum(w[i] for i in c) == best]
        for s in got.value:
            if set(s) not in arg:
                return False, "returned %s is not a minimum-weight cover (minimum %s)" % (sorted(s), _gs.fs(best))
        if all_solutions and (len(got.value) != len(arg) or any(a not in [set(s) for s in got.value] for a in arg)):
            return False, "all_solutions returned %d covers, there are %d minimum-weight covers" % (len(got.value), len(arg))
        return True, "minimum-weight cover(s)"
    return oracle


def _scb(all_solutions):
    def real(inp):
        r = _sc(inp).solve_bruteforce(all_solutions)
        r = r if all_solutions else [r]
        return _Shown("[" + ", ".join(_nats(sorted(x)) for x in r) + "]", r)
    return real


REAL.update({
    "SetCover_solve_bruteforce_all": ("C10", _scb(True), ("U", "V", "weights", "log_trick", "M"), _scb_oracle(True)),
    "SetCover_solve_bruteforce_one": ("C10", _scb(False), ("U", "V", "weights", "log_trick", "M"), _scb_oracle(False)),
})
