"""Tie extension `conv` (property C04; parts also C01 / C11 / C12): WHOLE conversion functions and methods.

Continues the groups `Convert` / `ConvGen` of harness/translate.py (per-term loop bodies) to the whole functions:

  qubovert/utils/_conversions.py   qubo_to_quso, quso_to_qubo, pubo_to_puso, puso_to_pubo (type tests, choice of
                                   `squash_key`, result-type rule, the loop over `.items()`), boolean_to_spin,
                                   spin_to_boolean (containers), the four `Conversions` defaults
  qubovert/_qubo.py, _quso.py      to_qubo / to_quso relabelling, to_pubo / to_puso, convert_solution
  qubovert/_pubo.py, _puso.py      to_pubo / to_qubo wrappers, _to_puso, to_puso / to_quso shortcuts, convert_solution
  qubovert/utils/_qubomatrix.py    QUBOMatrix.Q, matrix_to_qubo, qubo_to_matrix;  _qusomatrix.py: h, J

Object state is explicit (lean/Qv/Gen/PreludeConv2.lean: ConvObj = type + items; ConvModel = type + items + _mapping +
_reverse_mapping + num_binary_variables; SolC = dict-or-sequence solution container).  Every function is translated in
monadic mode (translate.py docstring).  Rules added here (one per construct; anything else -> Untranslatable):

  classes     a bare class name `QUBOMatrix` … / `qv.QUBO` … (the name must be bound exactly once at module level, by
              `from <pkg> import Name` or by the class definition itself; `qv` must be `import qubovert as qv`) -> Kind.<k>
  type tests  `type(X) in (C1, C2, …)` -> `pyType X = Kind.c1 ∨ …`;  `isinstance(X, C)` on an Obj -> the kinds that are
              subclasses of C (table SUBCLASSES, read off the class statements of qubovert and checked against them)
  objects     `C()` -> pyNewObj;  `C(x)` -> pyObjConstruct;  `X.items()` -> pyObjItems;  `L[key] += e` / `-=` on a local
              object -> pyItemIAdd, `L[key] = e` -> pyItemSet (L is rebound; inside a loop L is part of the loop state)
  functions   `def f(k): return e` nested in an `if` -> a local function value; `f = qv.QUBO.squash_key` -> pySquashKey;
              `f(x)` on such a local; a nested generator that is itself registered (`generate_new_key_value`) is skipped
  self        `self.items()`, `self._mapping[i]`, `self._reverse_mapping[i]` -> pyMapGet, `self.num_binary_variables`,
              `self.degree` (Model.degree: -inf for no terms), `self` passed where an object is expected -> ConvModel.obj,
              `self.m(…)` / `Class.m(self, …)` / `super().m(…)` -> the registered method (resolved through the table MRO,
              which is checked against the class statements)
  sequences   `tuple(e for i in k)`, `tuple(sorted(e for i in k))` with a raising element -> pyListMapM (+ pySortedNat);
              `{k: v for i in range(n)}` -> pyDictCompM; `{-1: 1, 1: 0}` -> a number dict, `d[v]` -> pyNumDictGet
  reshapings  whole function bodies are first normalised by exact syntactic equivalences (normalize_whole_body): a local
              assigned once, at top level, to a static pure expression (`type(p)` of a never-rebound parameter, class
              references, tuples of them, `in (…)` tests of them) is inlined; `x = helper(args…)` with a private module-level
              helper that only chooses between returns (if / return tree) on static pure arguments is inlined as the if/else
              tree of assignments to x; `x = f` with f a module-level one-parameter single-return function is `def x(p): …`
  defaults    the registry lists the expected default of every defaulted parameter; a changed default is a changed
              signature (Untranslatable)
"""
import ast
from .. import translate as T
from ..translate import (Simple, TList, TTuple, TOpt, Untranslatable, res, lean_ty, coerce, is_num, mangle,
                         RAT, INT, NAT, BOOL, PROP, VAR, KEY, POLY, UNIT)

OBJ, MODEL, SOLC = Simple("Obj", "ConvObj"), Simple("Model", "ConvModel"), Simple("SolC", "SolC")
KIND = Simple("Kind", "Kind")
SQ = Simple("Sq", "(Key → Except Err Key)")
NUMDICT = Simple("NumDict", "(List (Rat × Rat))")
ASSIGNMENT = Simple("Assignment", "(List (Var × Rat))")
DEGT = Simple("Degree", "(Option Nat)")            # `self.degree`: an int, or -inf (none) for a model without terms
EXOBJ = Simple("ExceptObj", "(Except Err ConvObj)")    # the value of a call the translator does not follow (registry `routes`)
REDUCE = Simple("ReduceFn", "(ConvModel → ConvObj → Option Int → Except Err ConvObj)")
T.PARAM_TYPES.update({"ExceptObj": lambda: EXOBJ, "ReduceFn": lambda: REDUCE, "OptInt": lambda: TOpt(INT)})
T.PARAM_TYPES.update({"Obj": lambda: OBJ, "Model": lambda: MODEL, "SolC": lambda: SOLC, "Var": lambda: VAR})

CLASS_KIND = {"QUBO": "qubo", "QUSO": "quso", "PUBO": "pubo", "PUSO": "puso", "PCBO": "pcbo", "PCSO": "pcso",
              "QUBOMatrix": "qubom", "QUSOMatrix": "qusom", "PUBOMatrix": "pubom", "PUSOMatrix": "pusom"}
LABELLED = ("QUBO", "QUSO", "PUBO", "PUSO", "PCBO", "PCSO")

CONVF = "qubovert/utils/_conversions.py"


class FnExt(T.Fn):

    def __init__(self, entry, module_src, fnode, done):
        T.Fn.__init__(self, entry, module_src, fnode, done)
        self.tree = ast.parse(module_src)

    # ---- names of classes

    def bound_once_as_class(self, name, node):
        """`name` is bound exactly once at module level: by `from … import name` or by `class name`"""
        hits = 0
        for s in self.tree.body:
            if isinstance(s, ast.ImportFrom):
                hits += sum(1 for a in s.names if (a.asname or a.name) == name and a.asname in (None, name))
                hits += 100 * sum(1 for a in s.names if a.asname == name and a.name != name)
            elif isinstance(s, ast.Import):
                hits += 100 * sum(1 for a in s.names if (a.asname or a.name.split(".")[0]) == name)
            elif isinstance(s, ast.ClassDef):
                hits += 1 if s.name == name else 0
            elif isinstance(s, (ast.FunctionDef, ast.AsyncFunctionDef)):
                hits += 100 if s.name == name else 0
            else:
                hits += 100 * sum(1 for x in ast.walk(s) if isinstance(x, ast.Name) and isinstance(x.ctx, ast.Store)
                                  and x.id == name)
        if hits != 1:
            raise Untranslatable("%s is not bound exactly once (import-from or class) at module level" % name, node)

    def class_ref(self, n, env):
        """the model class an expression names, or None"""
        if isinstance(n, ast.Name) and n.id in CLASS_KIND and n.id not in env:
            self.bound_once_as_class(n.id, n)
            return n.id
        if isinstance(n, ast.Attribute) and isinstance(n.value, ast.Name) and n.value.id not in env and n.attr in CLASS_KIND \
                and n.value.id not in CLASS_KIND:
            self.need_module_alias("qubovert", n.value.id, n)
            return n.attr
        return None

    def kind_of(self, n, env):
        c = self.class_ref(n, env)
        if c is None:
            raise Untranslatable("expression that is not one of the ten model classes", n)
        return "Kind." + CLASS_KIND[c]

    def as_obj(self, s, t, node):
        t = res(t)
        if t is OBJ:
            return s
        if t is MODEL:
            return "(ConvModel.obj %s)" % s
        raise Untranslatable("a %s where an object is expected" % lean_ty(t), node)

    # ---- expressions

    def compare(self, n, env):
        if len(n.ops) == 1 and isinstance(n.ops[0], ast.In) and isinstance(n.comparators[0], ast.Tuple) \
                and isinstance(n.left, ast.Call) and isinstance(n.left.func, ast.Name) and n.left.func.id == "type" \
                and len(n.left.args) == 1 and not n.left.keywords and "type" not in env:
            if "type" in self.module_names():
                raise Untranslatable("builtin type is rebound in this module", n)
            x, tx = self.expr(n.left.args[0], env)
            x = self.as_obj(x, tx, n)
            kinds = [self.kind_of(c, env) for c in n.comparators[0].elts]
            if not kinds:
                raise Untranslatable("`in` an empty tuple", n)
            return "(" + " ∨ ".join("(pyType %s) = %s" % (x, k) for k in kinds) + ")"
        if len(n.ops) == 1 and isinstance(n.ops[0], (ast.GtE, ast.LtE)):
            # `d >= self.degree` / `self.degree <= d` (the degree may be -inf)
            big, small = (n.left, n.comparators[0]) if isinstance(n.ops[0], ast.GtE) else (n.comparators[0], n.left)
            if isinstance(small, ast.Attribute) and small.attr == "degree":
                b, tb = self.expr(big, env)
                sm, ts = self.expr(small, env)
                if res(ts) is DEGT and is_num(tb) and res(tb) is not RAT:
                    return "((pyGeDegree %s %s) = true)" % (coerce(b, tb, INT, n), sm)
        return T.Fn.compare(self, n, env)

    def route_of(self, n):
        for text, name in self.e.get("routes", {}).items():
            if ast.dump(ast.parse(text).body[0].value) == ast.dump(n):
                return name
        return None

    def expr(self, n, env, expected=None):
        r = self.route_of(n) if isinstance(n, ast.Call) else None
        if r is not None:
            # a call the translator does not follow: its value is a parameter of the generated definition
            return self.bind(mangle(r), OBJ, n)
        if isinstance(n, ast.Attribute) and isinstance(n.value, ast.Name) and n.value.id in env \
                and res(env[n.value.id]) is MODEL and n.attr == "degree":
            return "(pyDegree %s)" % mangle(n.value.id), DEGT
        # `qv.QUBO.squash_key` / `QUBOMatrix.squash_key`
        if isinstance(n, ast.Attribute) and n.attr == "squash_key" and self.class_ref(n.value, env) is not None:
            return "(pySquashKey %s)" % self.kind_of(n.value, env), SQ
        if isinstance(n, ast.Attribute) and isinstance(n.value, ast.Name) and n.value.id in env \
                and res(env[n.value.id]) is MODEL:
            recv = mangle(n.value.id)
            if n.attr == "num_binary_variables":
                return "%s.nvars" % recv, NAT
        if isinstance(n, ast.Dict) and n.keys and all(k is not None for k in n.keys):
            try:
                parts = [(self.expr(k, env), self.expr(v, env)) for k, v in zip(n.keys, n.values)]
            except Untranslatable:
                parts = None
            if parts and all(is_num(tk) and is_num(tv) for (_, tk), (_, tv) in parts):
                return "[" + ", ".join("(%s, %s)" % (coerce(k, tk, RAT, n), coerce(v, tv, RAT, n))
                                       for (k, tk), (v, tv) in parts) + "]", NUMDICT
        if isinstance(n, ast.DictComp):
            return self.dict_comp(n, env)
        return T.Fn.expr(self, n, env, expected)

    def binop(self, op, left, right, env, node):
        if isinstance(op, ast.Mult):
            (a, ta), fa = self.framed(lambda: self.expr(left, env))
            if res(ta) is KEY and not fa:
                b, tb = self.expr(right, env)
                if is_num(tb) and res(tb) is not RAT:
                    return "(pyRepeat %s %s)" % (a, coerce(b, tb, INT, node)), KEY      # `k * n` on a tuple
                raise Untranslatable("a key times a %s" % lean_ty(tb), node)
        return T.Fn.binop(self, op, left, right, env, node)

    def subscript(self, n, env):
        v = n.value
        # self._mapping[i] / self._reverse_mapping[i]
        if isinstance(v, ast.Attribute) and isinstance(v.value, ast.Name) and v.value.id in env \
                and res(env[v.value.id]) is MODEL and v.attr in ("_mapping", "_reverse_mapping"):
            i, ti = self.expr(n.slice, env)
            if res(ti) not in (VAR, NAT):
                raise Untranslatable("label dict indexed by a %s" % lean_ty(ti), n)
            fld = "mapping" if v.attr == "_mapping" else "rev"
            return self.bind("(pyMapGet %s.%s %s)" % (mangle(v.value.id), fld, i), VAR, n)
        if isinstance(v, ast.Name) and v.id in env and res(env[v.id]) is NUMDICT:
            i, ti = self.expr(n.slice, env)
            return self.bind("(pyNumDictGet %s %s)" % (mangle(v.id), coerce(i, ti, RAT, n)), RAT, n)
        if isinstance(v, ast.Name) and v.id in env and res(env[v.id]) is SOLC:
            i, ti = self.expr(n.slice, env)
            if res(ti) is not NAT:
                raise Untranslatable("solution container indexed by a %s" % lean_ty(ti), n)
            return self.bind("(pySolItem %s %s)" % (mangle(v.id), i), RAT, n)
        return T.Fn.subscript(self, n, env)

    def monadic_lambda(self, target, elt_ty, elt_node, env, want=None):
        """`fun it => <elt>` where <elt> may raise: (lean text, type of the element)"""
        lets, env2 = self.bind_target(target, elt_ty, "_py_it", env)
        (e, te), frame = self.framed(lambda: self.expr(elt_node, env2))
        if want is not None:
            e, te = coerce(e, te, want, elt_node), want
        body = self.wrap(frame, "(Except.ok %s)" % e, "      ")
        return "(fun (_py_it : %s) => %s%s)" % (lean_ty(elt_ty), lets, body), te

    def gen_map(self, g, env):
        """a generator expression `e for i in src` whose element may raise, consumed eagerly -> (pyListMapM …, elt type)"""
        gen = self.one_generator(g)
        if gen.ifs:
            raise Untranslatable("filtered generator with a raising element", g)
        src, et = self.iter_source(gen.iter, env)
        f, te = self.monadic_lambda(gen.target, et, g.elt, env)
        return "(pyListMapM %s %s)" % (src, f), te

    def dict_comp(self, n, env):
        """`{k: v for i in src [if c]}`"""
        gen = self.one_generator(n)
        it = gen.iter
        if isinstance(it, ast.Call) and isinstance(it.func, ast.Attribute) and it.func.attr == "items" and not it.args \
                and not it.keywords and isinstance(it.func.value, ast.Name) and it.func.value.id in env \
                and res(env[it.func.value.id]) is SOLC:
            # `{k: e(v) for k, v in s.items()}` on a dict container: same keys, values mapped
            tg = gen.target
            if gen.ifs or not (isinstance(tg, ast.Tuple) and len(tg.elts) == 2 and all(isinstance(x, ast.Name) for x in tg.elts)
                               and isinstance(n.key, ast.Name) and n.key.id == tg.elts[0].id):
                raise Untranslatable("dict comprehension over s.items() that does not keep the keys", n)
            kname = tg.elts[0].id
            if any(isinstance(x, ast.Name) and x.id == kname for x in ast.walk(n.value)):
                raise Untranslatable("dict comprehension whose value reads the key", n)
            fn, te = self.monadic_lambda(tg.elts[1], RAT, n.value, env, RAT)
            return self.bind("(pySolItemsMapM %s %s)" % (mangle(it.func.value.id), fn), SOLC, n)
        src, et = self.iter_source(gen.iter, env)
        lets, env2 = self.bind_target(gen.target, et, "_py_it", env)
        if gen.ifs:
            c = " ∧ ".join(self.pure_only(lambda i=i: self.cond(i, env2), "a comprehension filter", n) for i in gen.ifs)
            src = "(List.filter (fun (_py_it : %s) => %sdecide %s) %s)" % (lean_ty(et), lets, c, src)

        def both():
            k, tk = self.expr(n.key, env2)          # the key is evaluated before the value
            v, tv = self.expr(n.value, env2)
            return k, tk, v, tv
        (k, tk, v, tv), frame = self.framed(both)
        tk = res(tk)
        if tk is NAT:
            tk = VAR
        if tk not in (VAR, KEY) or not is_num(tv):
            raise Untranslatable("dict comprehension from %s to %s" % (lean_ty(tk), lean_ty(tv)), n)
        v = coerce(v, tv, RAT, n)
        f = "(fun (_py_it : %s) => %s%s)" % (lean_ty(et), lets, self.wrap(frame, "(Except.ok (%s, %s))" % (k, v), "      "))
        ty = ASSIGNMENT if tk is VAR else POLY
        return self.bind("(pyDictCompM %s %s)" % (src, f), ty, n)

    def iter_source(self, n, env):
        if isinstance(n, ast.Call) and isinstance(n.func, ast.Attribute) and n.func.attr == "items" and not n.args \
                and not n.keywords:
            s, t = self.expr(n.func.value, env)
            if res(t) in (OBJ, MODEL):
                return "(pyObjItems %s)" % self.as_obj(s, t, n), TTuple([KEY, RAT])
        return T.Fn.iter_source(self, n, env)

    def registry_entry(self, func):
        hits = [e for e in T.REGISTRY if e["func"] == func and "loop_body" not in e and "after" not in e]
        if len(hits) > 1:
            # several units tie the same source function under different Lean names: the callable one is the one `done` holds
            lean = (self.done.get(func) or {}).get("lean")
            hits = [e for e in hits if e.get("lean", e["func"].split(".")[-1]) == lean] or hits
        return hits[0] if len(hits) == 1 else None

    def call_with_values(self, name, n, env):
        """a registered function one of whose parameters is typed `Values` (the list of a container's values plus the
        flag `isinstance(container, dict)`): a SolC argument supplies both"""
        callee, entry = self.done[name], self.registry_entry(name)
        if callee["status"] != "translated":
            raise Untranslatable("call of %s, which is itself %s" % (name, callee["status"]), n)
        if callee["raises"]:
            raise Untranslatable("call of %s (raising, with a Values parameter)" % name, n)
        tree = self.tree
        defined = any(isinstance(s, ast.FunctionDef) and s.name == name for s in tree.body)
        imported = any(isinstance(s, ast.ImportFrom) and any(a.name == name and a.asname is None for a in s.names)
                       for s in tree.body)
        if defined == imported or (defined and callee["file"] != self.e["file"]):
            raise Untranslatable("cannot resolve %s to the registered function" % name, n)
        if len(n.args) != len(entry["params"]) or n.keywords:
            raise Untranslatable("call of %s with %d arguments" % (name, len(n.args)), n)
        out = []
        for a, (pname, ptyname) in zip(n.args, entry["params"]):
            sa, ta = self.expr(a, env)
            if ptyname == "Values":
                if res(ta) is not SOLC:
                    raise Untranslatable("a %s passed as a solution container" % lean_ty(ta), n)
                out += ["(pySolValues %s)" % sa, "(pySolIsDict %s)" % sa]
            else:
                out.append(coerce(sa, ta, T.PARAM_TYPES[ptyname](), n))
        return "(%s %s)" % (callee["lean"], " ".join(out)), callee["ret_ty"]

    def method_call(self, cls, meth, recv, recv_ty, args, n, env):
        """the registered method `cls.meth` applied to `recv`"""
        callee = self.done.get("%s.%s" % (cls, meth))
        if callee is None:
            raise Untranslatable("method %s.%s is not registered" % (cls, meth), n)
        if callee["status"] != "translated":
            raise Untranslatable("call of %s.%s, which is itself %s" % (cls, meth, callee["status"]), n)
        entry = self.registry_entry("%s.%s" % (cls, meth))
        want = [T.PARAM_TYPES[t]() for _, t in entry["params"]]
        if res(recv_ty) is not res(want[0]):
            raise Untranslatable("receiver of %s.%s is a %s" % (cls, meth, lean_ty(recv_ty)), n)
        if n.keywords or any(isinstance(a, ast.Starred) for a in args):
            raise Untranslatable("keyword / starred arguments in a method call", n)
        if len(args) > len(want) - 1:
            raise Untranslatable("too many arguments for %s.%s" % (cls, meth), n)
        out = [recv]
        for i, ((pname, _), pt) in enumerate(zip(entry["params"][1:], want[1:])):
            if i < len(args):
                sa, ta = self.expr(args[i], env, pt)
            else:                               # omitted: the callee's default (part of its checked signature)
                d = entry.get("defaults", {}).get(pname)
                if d is None:
                    raise Untranslatable("missing argument %s of %s.%s" % (pname, cls, meth), n)
                sa, ta = self.expr(ast.parse(d).body[0].value, env, pt)
            out.append(coerce(sa, ta, pt, n))
        extra = ["_py_red"] if entry.get("uses_reduce") else []
        if extra and not self.e.get("uses_reduce"):
            raise Untranslatable("call of a method that needs the opaque `_reduce_degree` from one that does not carry it", n)
        call = "(%s %s)" % (callee["lean"], " ".join(extra + out))
        return self.bind(call, callee["ret_ty"], n) if callee["raises"] else (call, callee["ret_ty"])

    def call(self, n, env):
        f = n.func
        # isinstance(s, dict) on a solution container
        if isinstance(f, ast.Name) and f.id == "isinstance" and len(n.args) == 2 and not n.keywords \
                and isinstance(n.args[0], ast.Name) and n.args[0].id in env and res(env[n.args[0].id]) is SOLC \
                and isinstance(n.args[1], ast.Name) and n.args[1].id == "dict":
            if "dict" in self.module_names() or "isinstance" in self.module_names():
                raise Untranslatable("builtin dict / isinstance is rebound in this module", n)
            return "(pySolIsDict %s)" % mangle(n.args[0].id), BOOL
        # type(s)(e for i in s) on a sequence container
        if isinstance(f, ast.Call) and isinstance(f.func, ast.Name) and f.func.id == "type" and len(f.args) == 1 \
                and isinstance(f.args[0], ast.Name) and f.args[0].id in env and res(env[f.args[0].id]) is SOLC \
                and len(n.args) == 1 and not n.keywords and isinstance(n.args[0], ast.GeneratorExp):
            g = n.args[0]
            gen = self.one_generator(g)
            if gen.ifs or not (isinstance(gen.iter, ast.Name) and gen.iter.id == f.args[0].id):
                raise Untranslatable("type(s)(…) over something else than s itself", n)
            fn, te = self.monadic_lambda(gen.target, RAT, g.elt, env, RAT)
            return self.bind("(pySolSeqMapM %s %s)" % (mangle(gen.iter.id), fn), SOLC, n)
        if isinstance(f, ast.Name) and f.id in self.done and f.id not in env and self.registry_entry(f.id) is not None \
                and any(t == "Values" for _, t in self.registry_entry(f.id)["params"]):
            return self.call_with_values(f.id, n, env)
        # self.m(…) for a method of the same class that is registered
        if isinstance(f, ast.Attribute) and isinstance(f.value, ast.Name) and f.value.id in env \
                and res(env[f.value.id]) is MODEL and "." in self.e["func"] \
                and "%s.%s" % (self.e["func"].split(".")[0], f.attr) in self.done:
            cls = self.e["func"].split(".")[0]
            if self.done["%s.%s" % (cls, f.attr)]["file"] != self.e["file"]:
                raise Untranslatable("method %s of another module" % f.attr, n)
            return self.method_call(cls, f.attr, mangle(f.value.id), MODEL, n.args, n, env)
        # Class.method(self, …)
        if isinstance(f, ast.Attribute) and isinstance(f.value, ast.Name) and f.value.id in LABELLED and f.value.id not in env \
                and "%s.%s" % (f.value.id, f.attr) in self.done and n.args and isinstance(n.args[0], ast.Name):
            self.bound_once_as_class(f.value.id, n)
            r, tr = self.expr(n.args[0], env)
            return self.method_call(f.value.id, f.attr, r, tr, n.args[1:], n, env)
        if not n.keywords:
            # C() / C(x)
            c = self.class_ref(f, env)
            if c is not None:
                if not n.args:
                    return "(pyNewObj %s)" % self.kind_of(f, env), OBJ
                if len(n.args) == 1:
                    a, ta = self.expr(n.args[0], env)
                    return self.bind("(pyObjConstruct %s %s)" % (self.kind_of(f, env), self.as_obj(a, ta, n)), OBJ, n)
                raise Untranslatable("constructor call with %d arguments" % len(n.args), n)
            # f(x) on a local function value
            if isinstance(f, ast.Name) and f.id in env and res(env[f.id]) is SQ and len(n.args) == 1:
                a, ta = self.expr(n.args[0], env)
                if res(ta) is not KEY:
                    raise Untranslatable("%s applied to a %s" % (f.id, lean_ty(ta)), n)
                return self.bind("(%s %s)" % (mangle(f.id), a), KEY, n)
            # tuple(<gen>) / tuple(sorted(<gen>)) with an element that may raise
            if isinstance(f, ast.Name) and f.id == "tuple" and "tuple" not in env and len(n.args) == 1:
                if "tuple" in self.module_names():
                    raise Untranslatable("builtin tuple is rebound in this module", n)
                a, srt = n.args[0], False
                if isinstance(a, ast.Call) and isinstance(a.func, ast.Name) and a.func.id == "sorted" and len(a.args) == 1 \
                        and not a.keywords and "sorted" not in env:
                    if "sorted" in self.module_names():
                        raise Untranslatable("builtin sorted is rebound in this module", n)
                    a, srt = a.args[0], True
                if isinstance(a, ast.GeneratorExp):
                    m, te = self.gen_map(a, env)
                    if res(te) not in (VAR, NAT):
                        raise Untranslatable("tuple of %s" % lean_ty(te), n)
                    name, _ = self.bind(m, KEY, n)
                    return ("(pySortedNat %s)" % name if srt else name), KEY
        return T.Fn.call(self, n, env)

    # ---- statements

    def assigned(self, stmts):
        out = T.Fn.assigned(self, stmts)
        for s in stmts:
            for n in ast.walk(s):
                # `L[key] += e` rebinds the object L (explicit state)
                if isinstance(n, (ast.AugAssign, ast.Assign)):
                    tg = n.target if isinstance(n, ast.AugAssign) else n.targets[0]
                    while isinstance(tg, ast.Subscript):
                        tg = tg.value
                    if isinstance(tg, ast.Name) and isinstance(tg.ctx, ast.Load) and tg.id not in out:
                        out.append(tg.id)
        return out

    def stmt(self, stmts, env, k, ind, flow):
        s, rest = stmts[0], stmts[1:]
        pad = " " * ind

        def cont(env2):
            return self.block(rest, env2, k, ind, flow)

        if isinstance(s, ast.FunctionDef):
            inner = "%s.%s" % (self.e["func"], s.name)
            if inner in self.done and self.done[inner].get("nested") and self.done[inner]["file"] == self.e["file"]:
                return cont(env)        # a nested function translated on its own (registry `nested=True`)
            return self.local_def(s, env, cont, pad)
        if isinstance(s, ast.AugAssign) and isinstance(s.target, ast.Subscript) and isinstance(s.target.value, ast.Name) \
                and s.target.value.id in env and res(env[s.target.value.id]) is OBJ and isinstance(s.op, (ast.Add, ast.Sub)):
            L = s.target.value.id
            key, tk = self.expr(s.target.slice, env)
            if res(tk) is not KEY:
                raise Untranslatable("item of %s with a key that is not a tuple of labels" % L, s)
            v, tv = self.expr(s.value, env)
            v = coerce(v, tv, RAT, s)
            if isinstance(s.op, ast.Sub):
                v = "(-%s)" % v
            name, _ = self.bind("(pyItemIAdd %s %s %s)" % (mangle(L), key, v), OBJ, s)
            return "let %s : ConvObj := %s;\n%s%s" % (mangle(L), name, pad, cont(env))
        if isinstance(s, ast.Expr) and isinstance(s.value, ast.Call) and isinstance(s.value.func, ast.Attribute) \
                and s.value.func.attr == "_reduce_degree" and "reduce_degree" in env and res(env["reduce_degree"]) is REDUCE:
            c = s.value
            if not (isinstance(c.func.value, ast.Name) and c.func.value.id in env and res(env[c.func.value.id]) is MODEL
                    and len(c.args) == 4 and not c.keywords and isinstance(c.args[0], ast.Name)
                    and c.args[0].id in env and res(env[c.args[0].id]) is OBJ
                    and [ast.dump(a) for a in c.args[2:]] == [ast.dump(ast.Name(id=x, ctx=ast.Load())) for x in ("lam", "pairs")]
                    and all(x in env and res(env[x]) is T.OPAQUE for x in ("lam", "pairs"))):
                raise Untranslatable("_reduce_degree called other than as self._reduce_degree(D, <deg>, lam, pairs)", s)
            D = c.args[0].id
            d, td = self.expr(c.args[1], env, TOpt(INT))
            d = coerce(d, td, TOpt(INT), s)
            name, _ = self.bind("(reduce_degree %s %s %s)" % (mangle(c.func.value.id), mangle(D), d), OBJ, s)
            return "let %s : ConvObj := %s;\n%s%s" % (mangle(D), name, pad, cont(env))
        if isinstance(s, ast.Assign) and len(s.targets) == 1 and isinstance(s.targets[0], ast.Subscript) \
                and isinstance(s.targets[0].value, ast.Name) and s.targets[0].value.id in env \
                and res(env[s.targets[0].value.id]) is OBJ:
            L = s.targets[0].value.id
            v, tv = self.expr(s.value, env)             # the value is evaluated before the subscript
            v = coerce(v, tv, RAT, s)
            key, tk = self.expr(s.targets[0].slice, env)
            if res(tk) is not KEY:
                raise Untranslatable("item of %s with a key that is not a tuple of labels" % L, s)
            name, _ = self.bind("(pyItemSet %s %s %s)" % (mangle(L), key, v), OBJ, s)
            return "let %s : ConvObj := %s;\n%s%s" % (mangle(L), name, pad, cont(env))
        return T.Fn.stmt(self, stmts, env, k, ind, flow)

    def static_scalar_test(self, t, env):
        """`isinstance(x, (int, float))` for an `x` whose static type is a solution container: false"""
        return isinstance(t, ast.Call) and isinstance(t.func, ast.Name) and t.func.id == "isinstance" and len(t.args) == 2 \
            and not t.keywords and isinstance(t.args[0], ast.Name) and t.args[0].id in env \
            and res(env[t.args[0].id]) is SOLC and isinstance(t.args[1], ast.Tuple) \
            and [ast.dump(x) for x in t.args[1].elts] == [ast.dump(ast.Name(id=c, ctx=ast.Load())) for c in ("int", "float")] \
            and not ({"int", "float", "isinstance"} & self.module_names())

    def if_(self, test, body, orelse, env, cont, ind, flow, node):
        if isinstance(test, ast.BoolOp) and isinstance(test.op, ast.And) and self.static_scalar_test(test.values[0], env):
            # the scalar branch of a function registered on containers: not translated (registry `not_translated`)
            return self.block(orelse, env, cont, ind, flow)
        return T.Fn.if_(self, test, body, orelse, env, cont, ind, flow, node)

    def local_def(self, s, env, cont, pad):
        """`def f(k): return e` -> `let f : Key → Except Err Key := fun k => e`"""
        a = s.args
        sig = self.e.get("local_defs", {}).get(s.name)
        if sig is None:
            raise Untranslatable("nested function %s the registry does not expect" % s.name, s)
        if len(a.args) != 1 or a.vararg or a.kwarg or a.kwonlyargs or a.defaults or a.posonlyargs or s.decorator_list:
            raise Untranslatable("nested function with other than one plain parameter", s)
        body = [x for x in s.body if not (isinstance(x, ast.Expr) and isinstance(x.value, ast.Constant)
                                          and isinstance(x.value.value, str))]
        if len(body) != 1 or not isinstance(body[0], ast.Return) or body[0].value is None:
            raise Untranslatable("nested function whose body is not a single return", s)
        if sig != ("Key", "Key"):
            raise Untranslatable("nested function of a type the translator does not know", s)
        p = a.args[0].arg
        env2 = dict(env)
        env2[p] = KEY
        (e, te), frame = self.framed(lambda: self.expr(body[0].value, env2))
        if res(te) is not KEY:
            raise Untranslatable("nested function returning a %s" % lean_ty(te), s)
        fn = "fun (%s : Key) => %s" % (mangle(p), self.wrap(frame, "(Except.ok %s)" % e, pad + "  "))
        env3 = dict(env)
        env3[s.name] = SQ
        return "let %s : %s := %s;\n%s%s" % (mangle(s.name), lean_ty(SQ), fn, pad, cont(env3))

    # ---- exact syntactic normalisations of a whole function body (before any rule is applied)

    def static_pure(self, n, params):
        """an expression without effects whose value cannot change during the call: `type(p)` of a never-rebound parameter,
        a class reference, a tuple of such, `a in (…)` / `a not in (…)` of such"""
        if isinstance(n, ast.Call):
            return isinstance(n.func, ast.Name) and n.func.id == "type" and len(n.args) == 1 and not n.keywords \
                and isinstance(n.args[0], ast.Name) and n.args[0].id in params and "type" not in self.module_names()
        if isinstance(n, ast.Name):
            return n.id in CLASS_KIND and n.id not in params
        if isinstance(n, ast.Attribute):
            return isinstance(n.value, ast.Name) and n.attr in CLASS_KIND and n.value.id not in params \
                and n.value.id not in CLASS_KIND
        if isinstance(n, ast.Tuple):
            return all(self.static_pure(x, params) for x in n.elts)
        if isinstance(n, ast.Compare):
            return len(n.ops) == 1 and isinstance(n.ops[0], (ast.In, ast.NotIn)) and self.static_pure(n.left, params) \
                and isinstance(n.comparators[0], ast.Tuple) and self.static_pure(n.comparators[0], params)
        return False

    @staticmethod
    def substitute(node, sub):
        """copy of `node` with every load of a name in `sub` replaced by (a copy of) its expression"""
        import copy

        class S(ast.NodeTransformer):
            def visit_Name(self, x):
                if isinstance(x.ctx, ast.Load) and x.id in sub:
                    return ast.copy_location(copy.deepcopy(sub[x.id]), x)
                return x
        return ast.fix_missing_locations(S().visit(copy.deepcopy(node)))

    def plain_helper(self, name, env_names):
        """the module-level function `name`: bound once by an undecorated `def`, not a registered / tied function, with
        plain positional parameters only; None otherwise"""
        if name in env_names or name in self.done or name in T.BUILTINS or not T.hoisted_helper_ok(self.tree, name):
            return None
        if any(e["func"] == name and e["file"] == self.e["file"] for e in T.REGISTRY):
            return None
        f = [x for x in self.tree.body if isinstance(x, ast.FunctionDef) and x.name == name][0]
        a = f.args
        if a.vararg or a.kwarg or a.kwonlyargs or a.defaults or a.posonlyargs or f.decorator_list:
            return None
        if any(isinstance(x, (ast.Yield, ast.YieldFrom, ast.Await, ast.Lambda, ast.FunctionDef)) and x is not f
               for x in ast.walk(f)):
            return None
        return f

    @staticmethod
    def sans_doc(body):
        return [x for x in body if not (isinstance(x, ast.Expr) and isinstance(x.value, ast.Constant)
                                        and isinstance(x.value.value, str))]

    def return_tree(self, stmts, target):
        """statements consisting of `if`s and `return e` only, every path ending in a return  ->  the same tree with
        `return e` replaced by `target = e` (an `if` whose body always returns continues in its else-branch); else None"""
        if not stmts:
            return None
        s, rest = stmts[0], stmts[1:]
        if isinstance(s, ast.Return) and s.value is not None and not rest:
            return [ast.Assign(targets=[ast.Name(id=target, ctx=ast.Store())], value=s.value, lineno=s.lineno)]
        if isinstance(s, ast.If):
            a = self.return_tree(s.body, target)
            if a is None:
                return None
            if s.orelse and rest:
                return None
            b = self.return_tree(s.orelse or rest, target)
            if b is None:
                return None
            return [ast.If(test=s.test, body=a, orelse=b, lineno=s.lineno)]
        return None

    def normalize_whole_body(self, stmts):
        fn = self.fnode
        params = {a.arg for a in fn.args.args}
        stores = [x.id for x in ast.walk(fn) if isinstance(x, ast.Name) and isinstance(x.ctx, ast.Store)]
        stores += [x.name for x in ast.walk(fn) if isinstance(x, (ast.FunctionDef, ast.ClassDef)) and x is not fn]
        stores += [t for x in ast.walk(fn) if isinstance(x, ast.For) for t in
                   [y.id for y in ast.walk(x.target) if isinstance(y, ast.Name)]]
        if any(isinstance(x, (ast.Global, ast.Nonlocal)) for x in ast.walk(fn)):
            return stmts
        fixed = {p for p in params if p not in stores}          # parameters never rebound
        local_names = params | set(stores)
        # (1) a local assigned exactly once, at the top level of the function, to a static pure expression is inlined
        sub, out = {}, []
        for s in stmts:
            if isinstance(s, ast.Assign) and len(s.targets) == 1 and isinstance(s.targets[0], ast.Name) \
                    and stores.count(s.targets[0].id) == 1 and s.targets[0].id not in params:
                v = self.substitute(s.value, sub)
                if self.static_pure(v, fixed):
                    sub[s.targets[0].id] = v
                    continue
            out.append(self.substitute(s, sub) if sub else s)
        # (2) `x = helper(a, …)`: a module-level helper that only chooses between returns, called on static pure arguments,
        #     is inlined as the if/else tree of assignments to x
        out2 = []
        for s in out:
            v = s.value if isinstance(s, ast.Assign) and len(s.targets) == 1 and isinstance(s.targets[0], ast.Name) else None
            h = self.plain_helper(v.func.id, local_names) if isinstance(v, ast.Call) and isinstance(v.func, ast.Name) else None
            if h is not None and not v.keywords and len(v.args) == len(h.args.args) \
                    and all(self.static_pure(a, fixed) for a in v.args):
                hp = [a.arg for a in h.args.args]
                body = self.sans_doc(h.body)
                hstores = {x.id for x in ast.walk(h) if isinstance(x, ast.Name) and isinstance(x.ctx, ast.Store)}
                tree = self.return_tree(body, s.targets[0].id) if not hstores and len(set(hp)) == len(hp) else None
                # the helper's own free names must mean the same here: none of them is a local of this function
                free = {x.id for x in ast.walk(h) if isinstance(x, ast.Name)} - set(hp)
                if tree is not None and not (free & local_names):
                    amap = dict(zip(hp, v.args))
                    out2 += [self.substitute(t, amap) for t in tree]
                    continue
            out2.append(s)
        return self.defs_from_aliases(out2, local_names)

    def defs_from_aliases(self, stmts, local_names):
        """(3) `x = f` with `f` a module-level one-parameter function whose body is a single return  ==  `def x(p): return e`"""
        out = []
        for s in stmts:
            if isinstance(s, ast.If):
                s = ast.If(test=s.test, body=self.defs_from_aliases(s.body, local_names),
                           orelse=self.defs_from_aliases(s.orelse, local_names), lineno=s.lineno)
            elif isinstance(s, ast.Assign) and len(s.targets) == 1 and isinstance(s.targets[0], ast.Name) \
                    and isinstance(s.value, ast.Name):
                h = self.plain_helper(s.value.id, local_names)
                if h is not None and len(h.args.args) == 1:
                    body = self.sans_doc(h.body)
                    free = {x.id for x in ast.walk(h) if isinstance(x, ast.Name)} - {h.args.args[0].arg}
                    if len(body) == 1 and isinstance(body[0], ast.Return) and body[0].value is not None \
                            and not (free & local_names):
                        s = ast.FunctionDef(name=s.targets[0].id, args=h.args, body=body, decorator_list=[], returns=None,
                                            lineno=s.lineno, type_params=[])
            out.append(s)
        return out

    def body_statements(self):
        stmts = T.Fn.body_statements(self)
        if "loop_body" in self.e or "after" in self.e:
            return stmts
        return self.normalize_whole_body(stmts)

    # ---- signature: defaults are part of it

    def check_signature(self):
        if self.e.get("property"):
            a = self.fnode.args
            if [ast.dump(d) for d in self.fnode.decorator_list] != [ast.dump(ast.Name(id="property", ctx=ast.Load()))] \
                    or [x.arg for x in a.args] != ["self"] or a.defaults or a.kwonlyargs or a.posonlyargs or a.vararg or a.kwarg \
                    or "property" in self.module_names():
                raise Untranslatable("not a plain @property of self", self.fnode)
            return
        if self.e.get("forwarding"):
            a = self.fnode.args
            if self.fnode.decorator_list or [x.arg for x in a.args] != ["self"] or a.defaults or a.kwonlyargs or a.posonlyargs \
                    or a.vararg is None or a.kwarg is None or a.vararg.arg != "args" or a.kwarg.arg != "kwargs":
                raise Untranslatable("signature is not (self, *args, **kwargs)", self.fnode)
            return
        T.Fn.check_signature(self)
        if "loop_body" in self.e:
            return
        a = self.fnode.args
        names = [x.arg for x in a.args][len(a.args) - len(a.defaults):]
        got = {p: ast.dump(d) for p, d in zip(names, a.defaults)}
        want = {p: ast.dump(ast.parse(d).body[0].value) for p, d in self.e.get("defaults", {}).items()}
        if got != want:
            raise Untranslatable("defaults changed: %s, registry expects %s" % (
                {p: ast.unparse(d) for p, d in zip(names, a.defaults)}, self.e.get("defaults", {})), self.fnode)


# ------------------------------------------------------------------------------------------- registry

FREE_NOTE = ["object identity / the bookkeeping a labelled result type keeps beside its terms (C14); `L[key] += c` is "
             "read as the model's addTerm of the receiving type (prelude pyItemIAdd), `qv.X.squash_key` as the model's "
             "squash (pySquashKey)"]
REGISTRY = [
    dict(file=CONVF, func="qubo_to_quso", lean="qubo_to_quso", unit="Conv2", group="Conv2Free", props=["C04", "C01"],
         monadic=True, params=[("Q", "Obj")], local_defs={"squash_key": ("Key", "Key")}, not_translated=FREE_NOTE),
    dict(file=CONVF, func="quso_to_qubo", lean="quso_to_qubo", unit="Conv2", group="Conv2Free", props=["C04", "C01"],
         monadic=True, params=[("L", "Obj")], local_defs={"squash_key": ("Key", "Key")}, not_translated=FREE_NOTE),
    dict(file=CONVF, func="pubo_to_puso", lean="pubo_to_puso", unit="Conv2", group="Conv2Free", props=["C04", "C01"],
         monadic=True, params=[("P", "Obj")], not_translated=FREE_NOTE),
    dict(file=CONVF, func="puso_to_pubo", lean="puso_to_pubo", unit="Conv2", group="Conv2Free", props=["C04", "C01"],
         monadic=True, params=[("H", "Obj")], not_translated=FREE_NOTE),
]

SCALAR_NOTE = ["the scalar branch `isinstance(x, (int, float)) and x in convert` (the function is registered on solution "
               "containers: a dict, list or tuple, on which that test is false)"]
SOL_NOTE = ["`solution` is a dict / list / tuple of numbers given by its items (SolC); other containers (numpy arrays, "
            "strings …) are outside the model"]
for _f in ("boolean_to_spin", "spin_to_boolean"):
    REGISTRY.append(dict(file=CONVF, func=_f, lean=_f, unit="Conv2Sol", group="Conv2Sol", props=["C04"], monadic=True,
                         params=[(("x" if _f == "boolean_to_spin" else "z"), "SolC")], not_translated=SCALAR_NOTE))
for _cls, _file, _dflt in (("QUBO", "qubovert/_qubo.py", "False"), ("QUSO", "qubovert/_quso.py", "True"),
                           ("PUBO", "qubovert/_pubo.py", "False"), ("PUSO", "qubovert/_puso.py", "True")):
    REGISTRY.append(dict(file=_file, func=_cls + ".convert_solution", lean=_cls + "_convert_solution", unit="Conv2Sol",
                         group="Conv2Sol", props=["C04"], monadic=True, defaults={"spin": _dflt},
                         params=[("self", "Model"), ("solution", "SolC"), ("spin", "Bool")], not_translated=SOL_NOTE))

RELABEL_NOTE = ["`self` is the explicit state (type, items, _mapping, _reverse_mapping, num_binary_variables); that the "
                "state is consistent is C14"]
ROUTE_NOTE = ["the calls listed in the entry's `routes` are not followed (degree reduction, C01): their value is a parameter "
              "of the generated definition, universally quantified in the theorem"]
REGISTRY += [
    dict(file="qubovert/_qubo.py", func="QUBO.to_qubo", lean="QUBO_to_qubo", extra_theorems=['QUBO_to_quso_chain', 'QUBO_to_puso_chain'], unit="Conv2Meth", group="Conv2Meth",
         props=["C04", "C11", "C12"], monadic=True, params=[("self", "Model")], not_translated=RELABEL_NOTE),
    dict(file="qubovert/_qubo.py", func="QUBO.to_pubo", lean="QUBO_to_pubo", unit="Conv2Meth", group="Conv2Meth",
         props=["C04"], monadic=True, params=[("self", "Model")], not_translated=RELABEL_NOTE),
    dict(file="qubovert/_quso.py", func="QUSO.to_quso", lean="QUSO_to_quso", extra_theorems=['QUSO_to_qubo_chain', 'QUSO_to_pubo_chain'], unit="Conv2Meth", group="Conv2Meth",
         props=["C04", "C11", "C12"], monadic=True, params=[("self", "Model")], not_translated=RELABEL_NOTE),
    dict(file="qubovert/_quso.py", func="QUSO.to_puso", lean="QUSO_to_puso", unit="Conv2Meth", group="Conv2Meth",
         props=["C04"], monadic=True, params=[("self", "Model")], not_translated=RELABEL_NOTE),
    dict(file="qubovert/_puso.py", func="PUSO._to_puso", lean="PUSO_to_puso_enum", unit="Conv2Meth", group="Conv2Meth",
         props=["C04", "C11", "C12"], monadic=True, params=[("self", "Model")], not_translated=RELABEL_NOTE),
    dict(file="qubovert/_puso.py", func="PUSO.to_puso", lean="PUSO_to_puso", extra_theorems=['PUSO_to_puso_chain'], unit="Conv2Meth", group="Conv2Meth",
         props=["C04", "C11"], monadic=True, defaults={"deg": "None", "lam": "None", "pairs": "None"},
         params=[("self", "Model"), ("deg", "OptInt"), ("lam", "Opaque"), ("pairs", "Opaque")],
         routes={"self._create_pubo().to_puso(deg, lam, pairs)": "route_reduced"}, locals=[("route_reduced", "ExceptObj")],
         not_translated=RELABEL_NOTE + ROUTE_NOTE),
    dict(file="qubovert/_puso.py", func="PUSO.to_quso", lean="PUSO_to_quso", extra_theorems=['PUSO_to_quso_chain'], unit="Conv2Meth", group="Conv2Meth",
         props=["C04", "C11"], monadic=True, defaults={"lam": "None", "pairs": "None"},
         params=[("self", "Model"), ("lam", "Opaque"), ("pairs", "Opaque")],
         routes={"super().to_quso(lam, pairs)": "route_reduced"}, locals=[("route_reduced", "ExceptObj")],
         not_translated=RELABEL_NOTE + ROUTE_NOTE),
    dict(file="qubovert/_pubo.py", func="PUBO.to_pubo", lean="PUBO_to_pubo", extra_theorems=['PUBO_to_pubo_chain', 'PUBO_to_puso_chain'], unit="Conv2Meth", group="Conv2Meth",
         props=["C04", "C01"], monadic=True, defaults={"deg": "None", "lam": "None", "pairs": "None"},
         params=[("self", "Model"), ("deg", "OptInt"), ("lam", "Opaque"), ("pairs", "Opaque")],
         locals=[("reduce_degree", "ReduceFn")],
         not_translated=["`self._reduce_degree(D, deg, lam, pairs)` (C01) is not followed: it is the parameter `reduce_degree` of the "
                         "generated definition (lam and pairs are checked to be passed through unchanged)"]),
    dict(file="qubovert/_pubo.py", func="PUBO.to_qubo", lean="PUBO_to_qubo", extra_theorems=['PUBO_to_qubo_chain', 'PUBO_to_quso_chain'], unit="Conv2Meth", group="Conv2Meth",
         props=["C04", "C01"], monadic=True, defaults={"lam": "None", "pairs": "None"},
         params=[("self", "Model"), ("lam", "Opaque"), ("pairs", "Opaque")], locals=[("reduce_degree", "ReduceFn")],
         not_translated=["`self._reduce_degree(D, 2, lam, pairs)` (C01) is not followed: parameter `reduce_degree`"]),
]
FWD_NOTE = ["`self.to_X(*args, **kwargs)` is a dynamically dispatched call with all arguments forwarded: its value is the "
            "parameter `self_to_X` of the generated definition (which method it is for each class: Python's MRO, see the "
            "chain theorems in Qv/Proofs/GenEq/Conv2Meth.lean)"]
for _m, _via in (("to_qubo", "to_quso"), ("to_quso", "to_qubo"), ("to_pubo", "to_puso"), ("to_puso", "to_pubo")):
    REGISTRY.append(dict(file=CONVF, func="Conversions." + _m, lean="Conversions_" + _m, unit="Conv2Meth", group="Conv2Meth",
                         props=["C04", "C01"], monadic=True, forwarding=True, params=[("self", "Opaque")],
                         routes={"self.%s(*args, **kwargs)" % _via: "self_" + _via}, locals=[("self_" + _via, "ExceptObj")],
                         not_translated=FWD_NOTE))

REGISTRY += [
    dict(file="qubovert/utils/_qubomatrix.py", func="QUBOMatrix.Q", lean="QUBOMatrix_Q", unit="Conv2Exp", group="Conv2Exp",
         props=["C04"], monadic=True, property=True, params=[("self", "Obj")],
         not_translated=["`self` is given by its items; the result is a plain dict in insertion order"]),
]

UNITS = {
    "Conv2Exp": ("SourceConv2Exp.lean", ["Qv.Model.Basic", "Qv.Gen.PreludeConv2"]),
    "Conv2Meth": ("SourceConv2Meth.lean", ["Qv.Gen.SourceConv2", "Qv.Gen.PreludeConv2"]),
    "Conv2": ("SourceConv2.lean", ["Qv.Gen.SourceConv", "Qv.Gen.PreludeConv2"]),
    "Conv2Sol": ("SourceConv2Sol.lean", ["Qv.Gen.Source", "Qv.Gen.PreludeConv2"]),
}



# ------------------------------------------------------------------------------------------- replay on the real code

def _F(x):
    from fractions import Fraction
    return Fraction(x)


class ConvResult:
    """type and items (dict order) of a conversion result; printed like the Lean side's `showObj`"""
    def __init__(self, ty, items):
        self.ty, self.items = ty, items

    def __repr__(self):
        from ..gen_search import fs
        return "%s [%s]" % (self.ty, ", ".join("[[%s], \"%s\"]" % (", ".join(str(i) for i in k), fs(_F(v)))
                                               for k, v in self.items))


def _cls(name):
    import qubovert as qv
    from qubovert import utils
    return getattr(qv, name, None) or getattr(utils, name)


def _build(kind, items):
    """the real object of type `kind` whose items() are exactly `items` (NotImplementedError when there is none)"""
    d = {tuple(k): _F(v) for k, v in items}
    if len(d) != len(items):
        raise NotImplementedError("a key twice")
    if kind == "dict":
        return d
    try:
        obj = _cls(kind)(d)
    except Exception:                      # noqa: BLE001
        raise NotImplementedError("no %s with these items" % kind)
    if [(tuple(k), _F(v)) for k, v in obj.items()] != [(tuple(k), _F(v)) for k, v in items]:
        raise NotImplementedError("no %s whose items() are these (keys not canonical for the type)" % kind)
    return obj


def _real_free(fname):
    def real(inp):
        import qubovert.utils as u
        R = getattr(u, fname)(_build(inp["kind"], inp["items"]))
        return ConvResult(type(R).__name__, [(tuple(k), v) for k, v in R.items()])
    return real


MATRIX_OUT = {"qubo_to_quso": ("QUSOMatrix", "QUSO", {"QUBOMatrix", "PUBOMatrix"}),
              "quso_to_qubo": ("QUBOMatrix", "QUBO", {"QUSOMatrix", "PUSOMatrix"}),
              "pubo_to_puso": ("PUSOMatrix", "PUSO", {"QUBOMatrix", "PUBOMatrix"}),
              "puso_to_pubo": ("PUBOMatrix", "PUBO", {"QUSOMatrix", "PUSOMatrix"})}


def _free_oracle(fname):
    """C04: the result has the same value at corresponding assignments (x = (1 - z) / 2) and the documented type
    (a Matrix type of the source's family in -> the Matrix type of the target; the labelled type otherwise)"""
    to_spin = fname in ("qubo_to_quso", "pubo_to_puso")

    def oracle(inp, got, names):
        import itertools
        from ..gen_search import prod, fs
        src = [(tuple(k), _F(v)) for k, v in inp["items"]]
        mat, lab, mats = MATRIX_OUT[fname]
        want_ty = mat if inp["kind"] in mats else lab
        if got.ty != want_ty:
            return False, "%s(%s) returned a %s, documented: %s" % (fname, inp["kind"], got.ty, want_ty)
        labs = sorted({i for k, _ in src for i in k} | {i for k, _ in got.items for i in k})
        for t in itertools.product((0, 1), repeat=len(labs)):
            x = dict(zip(labs, map(_F, t)))
            z = {i: 1 - 2 * b for i, b in x.items()}
            a, b = (x, z) if to_spin else (z, x)
            vs = sum((v * prod(a[i] for i in k) for k, v in src), _F(0))
            vt = sum((_F(v) * prod(b[i] for i in k) for k, v in got.items), _F(0))
            if vs != vt:
                return False, "at %s the source is %s, the converted model %s" % (
                    {i: str(a[i]) for i in labs}, fs(vs), fs(vt))
        return True, "values agree at all %d assignments, type %s" % (2 ** len(labs), got.ty)
    return oracle


REAL = {f: ("C04", _real_free(f), ("kind", "items"), _free_oracle(f))
        for f in ("qubo_to_quso", "quso_to_qubo", "pubo_to_puso", "puso_to_pubo")}


class SolResult:
    """a container (dict / sequence) or a plain dict result, printed like the Lean side's `showSol` / `showAssign`"""
    def __init__(self, tag, items):
        self.tag, self.items = tag, items

    def __repr__(self):
        from ..gen_search import fs
        body = "[%s]" % ", ".join("[%s, \"%s\"]" % (i, fs(_F(v))) for i, v in self.items)
        return (self.tag + " " + body) if self.tag else body


def _container(inp):
    items = [(int(i), _F(v)) for i, v in inp["items"]]
    if inp["is_dict"]:
        return dict(items)
    if [i for i, _ in items] != list(range(len(items))):
        raise NotImplementedError("a sequence whose indices are not 0..n-1")
    return [v for _, v in items]


def _real_solmap(fname):
    def real(inp):
        import qubovert.utils as u
        r = getattr(u, fname)(_container(inp))
        return SolResult("dict", list(r.items())) if isinstance(r, dict) else SolResult("seq", list(enumerate(r)))
    return real


def _solmap_oracle(fname):
    """C04 (assignment bijection): on a container of valid values every entry is converted by 0 <-> 1, 1 <-> -1 and
    keys / positions are kept"""
    table = {0: 1, 1: -1} if fname == "boolean_to_spin" else {-1: 1, 1: 0}

    def oracle(inp, got, names):
        items = [(int(i), _F(v)) for i, v in inp["items"]]
        if any(v not in table for _, v in items):
            return None, "a value outside the source domain"
        want = [(i, _F(table[v])) for i, v in items]
        have = [(i, _F(v)) for i, v in got.items]
        return have == want, "expected %s, got %s" % (want, have)
    return oracle


def _real_convert_solution(cls, spin_default):
    def real(inp):
        M = _cls(cls)()
        rev = {int(i): int(_F(l)) for i, l in inp["rev"]}
        if not all(hasattr(M, a) for a in ("_mapping", "_reverse_mapping", "_num_binary_variables")):
            raise NotImplementedError("the object has no such state attributes")
        M._reverse_mapping, M._mapping, M._num_binary_variables = rev, {l: i for i, l in rev.items()}, int(inp["nvars"])
        r = M.convert_solution(_container(inp), inp["spin"])
        return SolResult("", list(r.items()))
    return real


def _convert_solution_oracle(spin_model):
    """C04: for a container that is validly boolean or spin on 0..n-1 (the flag telling the truth when all values are 1)
    the result maps exactly reverse_mapping[0..n-1], each to solution[i] in the model's own form"""
    def oracle(inp, got, names):
        n = int(inp["nvars"])
        rev = {int(i): int(_F(l)) for i, l in inp["rev"]}
        sol = {int(i): _F(v) for i, v in inp["items"]}
        vals = list(sol.values())
        if any(i not in rev for i in range(n)) or any(i not in sol for i in range(n)) or len(set(rev.values())) != len(rev):
            return None, "state / container outside the contract"
        is_bool, is_spin = all(v in (0, 1) for v in vals), all(v in (1, -1) for v in vals)
        if not (is_bool or is_spin):
            return None, "solution neither boolean nor spin"
        if is_bool and is_spin:
            given_spin = bool(inp["spin"])
        else:
            given_spin = is_spin
        def own(v):
            if given_spin == spin_model:
                return v
            return (1 - 2 * v) if spin_model else (1 - v) / 2
        want = {rev[i]: own(sol[i]) for i in range(n)}
        have = {int(l): _F(v) for l, v in got.items}
        return have == want, "expected %s, got %s" % (sorted(want.items()), sorted(have.items()))
    return oracle


for _f in ("boolean_to_spin", "spin_to_boolean"):
    REAL[_f] = ("C04", _real_solmap(_f), ("is_dict", "items"), _solmap_oracle(_f))
for _c, _spin in (("QUBO", False), ("QUSO", True), ("PUBO", False), ("PUSO", True)):
    REAL[_c + "_convert_solution"] = ("C04", _real_convert_solution(_c, _spin), ("rev", "nvars", "is_dict", "items", "spin"),
                                      _convert_solution_oracle(_spin))


def _real_method(cls, meth):
    """the method on a real object of class `cls` with exactly these items and this mapping"""
    def real(inp):
        items = [(tuple(k), _F(v)) for k, v in inp["items"]]
        mapping = {int(a): int(b) for a, b in inp["mapping"]}
        labels = {i for k, _ in items for i in k}
        M = _build(cls, inp["items"])
        if len(set(mapping.values())) != len(mapping) or set(mapping) != labels or \
                sorted(mapping.values()) != list(range(len(mapping))):
            raise NotImplementedError("not a mapping a real object can have (bijection from its labels onto 0..n-1)")
        M.set_mapping(mapping)
        if [(tuple(k), _F(v)) for k, v in M.items()] != items:
            raise NotImplementedError("items changed by set_mapping")
        R = getattr(M, meth)()
        return ConvResult(type(R).__name__, [(tuple(k), v) for k, v in R.items()])
    return real


def _relabel_oracle(want_ty, spin):
    """C04 (relabelling): the enumerated model has the documented Matrix type and the same value at s o mapping"""
    def oracle(inp, got, names):
        import itertools
        from ..gen_search import prod, fs
        src = [(tuple(k), _F(v)) for k, v in inp["items"]]
        mapping = {int(a): int(b) for a, b in inp["mapping"]}
        if got.ty != want_ty:
            return False, "returned a %s, documented: %s" % (got.ty, want_ty)
        n = len(mapping)
        dom = (1, -1) if spin else (0, 1)
        for t in itertools.product(dom, repeat=n):
            s_ = [_F(x) for x in t]
            a = sum((v * prod(s_[mapping[i]] for i in k) for k, v in src), _F(0))
            b = sum((_F(v) * prod(s_[i] for i in k) for k, v in got.items), _F(0))
            if a != b:
                return False, "at s=%s the model is %s, the enumerated model %s" % (list(t), fs(a), fs(b))
        return True, "values agree at all %d assignments" % (len(dom) ** n)
    return oracle


REAL["QUBO_to_qubo"] = ("C04", _real_method("QUBO", "to_qubo"), ("kind", "items", "mapping"), _relabel_oracle("QUBOMatrix", False))
REAL["QUBO_to_pubo"] = ("C04", _real_method("QUBO", "to_pubo"), ("kind", "items", "mapping"), _relabel_oracle("PUBOMatrix", False))
REAL["QUSO_to_quso"] = ("C04", _real_method("QUSO", "to_quso"), ("kind", "items", "mapping"), _relabel_oracle("QUSOMatrix", True))
REAL["QUSO_to_puso"] = ("C04", _real_method("QUSO", "to_puso"), ("kind", "items", "mapping"), _relabel_oracle("PUSOMatrix", True))
REAL["PUSO_to_puso_enum"] = ("C04", _real_method("PUSO", "_to_puso"), ("kind", "items", "mapping"), _relabel_oracle("PUSOMatrix", True))


def _real_Q(inp):
    M = _build("QUBOMatrix", inp["items"])
    return ConvResult("", [(tuple(k), v) for k, v in M.Q.items()])


def _Q_oracle(inp, got, names):
    """C04 (exports): sum over (i, j) of Q[i, j] x_i x_j equals the model's value minus its offset"""
    import itertools
    from ..gen_search import prod, fs
    src = [(tuple(k), _F(v)) for k, v in inp["items"]]
    if any(len(k) != 2 for k, _ in got.items):
        return False, "Q has a key that is not a pair: %s" % [k for k, _ in got.items]
    labs = sorted({i for k, _ in src for i in k})
    for t in itertools.product((0, 1), repeat=len(labs)):
        x = dict(zip(labs, map(_F, t)))
        a = sum((v * prod(x[i] for i in k) for k, v in src if k), _F(0))
        b = sum((_F(v) * x[k[0]] * x[k[1]] for k, v in got.items), _F(0))
        if a != b:
            return False, "at %s the model minus offset is %s, the quadratic form of Q %s" % (t, fs(a), fs(b))
    return True, "agree"


REAL["QUBOMatrix_Q"] = ("C04", _real_Q, ("kind", "items"), _Q_oracle)
