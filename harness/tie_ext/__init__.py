"""Extension modules of the Python -> Lean translator (harness/translate.py: load_ext)."""
